"""
C14 - loss kernels are the negative log-likelihoods they are named after.

Tie (T): `pre` regenerates lean/Pygom/Gen/Kernels.lean from loss_type.py / distn.py of the tree under test
(harness/translate_kernels.py); the theorems of Pygom/Props/C14.lean are then re-checked against it by `lake build`.
A refusal of the translator is a broken tie.

Tie (H), per case (one loss object, one prediction array):
  * translation validation - the translated per-observation formula (the same IR that is printed to Lean, evaluated as a
    numpy lambda) against the real `loss / diff_loss / diff2Loss` (mismatch = broken correspondence);
  * direct oracle, independent of the Lean model and of the translated formula - scipy.stats reference log-densities
    (norm.logpdf, poisson.logpmf, gamma.logpdf(a=shape, scale=mu/shape), nbinom.logpmf(k, k/(k+mu))) for the loss,
    50-digit mpmath derivatives of the closed-form reference log-density for diff_loss / diff2Loss, and the result
    shape `(n,)` for vector, single-column `(n,1)` and single-row inputs, scalar / per-observation spread.

Sessions (`kind: "session"` cases) - the Lean side treats every kernel as a PURE function of (y, yhat, spread, weight)
(`Gen.X_loss y yhat s w` ...; `C14.session_is_pure`, `C14.earlier_results_kept`, `C14.objects_do_not_interact` state what that
means for a sequence of calls).  The real objects are Python objects with attributes, so the purity is probed directly,
again with an oracle that is independent of Lean, of the translated formulas and of the code under test:
  * call histories on ONE object: a method evaluated at yhat_A, then at yhat_B through the SAME ndarray object refilled in
    place (or through a new view of the same persistent memory, e.g. `sol[:, 1]`), then at yhat_A again; loss / diff_loss /
    diff2Loss interleaved in random orders, both `apply_weighting` values; a sibling object of the same class with other
    data evaluated in between through the same buffers (class-/module-level state); `copy.deepcopy` of the object; a new
    object built on the caller's y array after that array was refilled in place;
  * every value against the closed-form reference at the content the array had AT CALL TIME; a repeat of an earlier
    evaluation through the same buffer must reproduce the first result bit for bit;
  * every result is KEPT (not copied) and compared again at the end of the session (returned-array aliasing);
  * every container the caller handed in (y, spread, weights, predictions) is compared with its original content: a write into
    one of them is a side effect and is TAGGED (`input-modified:<what>`), never a violation by itself - the property is about
    values.  Its consequences are judged: a buffer whose intended content did not change is passed again WITHOUT being refilled,
    and nothing the object may have damaged is repaired, so a later wrong value is the violation;
  * forms: y as float / int ndarray, list / tuple of floats or ints, (n,p) matrix or nested list; predictions as (n,), (n,1),
    (1,n), (n,p), contiguous or strided, float or (integer-valued) int dtype; spread as Python float / int, numpy float64,
    (n,), (n,1), (n,p), int-dtype array (and, tagged but only judged when accepted: numpy int64 / float32 scalars, 0-d arrays,
    lists); weights as (n,), (n,1), (n,p) arrays, lists, tuples, int and bool arrays.
"""
import copy
import json
import os
import pickle
import random

import mpmath
import numpy as np

from .. import bootstrap
from .. import translate_kernels as TK

PROP = "C14"
LEAN = {"module": "Pygom.Props.C14",
        "required": ["Pygom.C14.square_loss_def", "Pygom.C14.normal_loss_is_nll", "Pygom.C14.poisson_loss_is_nll",
                     "Pygom.C14.gamma_loss_is_nll", "Pygom.C14.negbinom_loss_is_nll"]
        + ["Pygom.C14.%s_diff_loss_is_derivative" % c for c in ("square", "normal", "poisson", "gamma", "negbinom")]
        + ["Pygom.C14.%s_diff2_is_second_derivative" % c for c in ("square", "normal", "poisson", "gamma", "negbinom")]
        + ["Pygom.C14.%s_diff_loss_weighted" % c for c in ("square", "normal", "poisson", "gamma", "negbinom")]
        + ["Pygom.C14.normal_loss_weighted", "Pygom.C14.raw_eq_unit_weight"]
        + ["Pygom.C14.session_is_pure", "Pygom.C14.earlier_results_kept", "Pygom.C14.repeat_reproduces", "Pygom.C14.objects_do_not_interact"]}
BUDGET = {"quick": {"cases": 2500, "session": 2000, "search": 5000, "search_session": 1500},
          "thorough": {"cases": 150000, "session": 40000, "search": 40000, "search_session": 10000}}
RULE = ("random loss objects: class in {Square, Normal, Poisson, Gamma, NegBinom}; n in 1..7 observations (integers, zero included, "
        "for the count losses; > 0 for Gamma); predictions > 0 given as vector (n,), single column (n,1) or single row (1,n); spread "
        "default / scalar / per-observation (n,) / (n,1); weights none / per-observation; apply_weighting True / False.  A case is "
        "non-trivial when all three methods returned and the residual is non-zero in some observation.  Session cases (kind=session): "
        "one object (+ optionally a sibling of the same class with other data), 8-16 operations drawn from {loss, diff_loss, diff2Loss} x "
        "apply_weighting x 2-3 prediction vectors x {fresh array, one buffer object refilled in place, new view of one persistent solution "
        "matrix}, always containing m(A), m(A), m(B), m(A) through the same buffer (refilled only when the content changes) for some method m, optionally deepcopy of the object and a new "
        "object on the caller's refilled y array; y / prediction / spread / weight containers and dtypes varied (see module docstring).  A "
        "session is non-trivial when every operation returned and some buffer was re-used with changed content")
ASSUMPTIONS = ["scipy.stats log-densities are the reference densities (executable reference, also compared per case with the mpmath closed forms)",
               "float arithmetic of the real code versus real arithmetic: relative tolerance 1e-8 (references are accurate to ~1e-13)",
               "the translated term denotes what the Python expression computes elementwise (translator, validated per case numerically)",
               "a kernel object is its data: the Lean model has no per-object, per-class or per-module state (session_is_pure ...); the session cases test "
               "that on the real objects with buffers refilled in place, sibling objects, kept results and re-read containers, they do not prove it"]
TRUSTED = ["harness/translate_kernels.py (symbolic executor + Lean/numpy printers)", "scipy.stats reference densities", "mpmath (50 digits)"]

CLASSES = ["Square", "Normal", "Poisson", "Gamma", "NegBinom"]
SPREAD = {"Normal": "sigma", "Gamma": "shape", "NegBinom": "k"}
REL, ABS = 1e-8, 1e-9

_cache = {}


def pre(tier):
    res = TK.regenerate(bootstrap.REPO)
    broken = [{"obligation": "translator: %s" % r["what"], "detail": "BROKEN TIE - source outside the translated subset: " + r["detail"]}
              for r in res["refused"]]
    n = len(res["defs"]) + len(res["refused"])
    return {"broken": broken, "obligations": n, "discharged": len(res["defs"]),
            "coverage": {"generated_files_changed": ["lean/Pygom/Gen/Kernels.lean"] if res["changed"] else [],
                         "translated_definitions": [d["name"] for d in res["defs"]],
                         "translator_refusals": res["refused"]}}


def _translated():
    if "defs" not in _cache:
        res = TK.translate(bootstrap.REPO)
        _cache["defs"] = {d["name"]: (d, TK.py_lambda(d)) for d in res["defs"]}
    return _cache["defs"]


# ------------------------------------------------------------------------------------------ generation
def _gen_case(r, force=None):
    cls = r.choice(CLASSES) if force is None else force
    n = r.choice([1, 2, 2, 3, 3, 4, 5, 7])
    count = cls in ("Poisson", "NegBinom")
    if count:
        y = [r.choice([0, 1, 2, 3, 5, 8, 13, 40, r.randint(0, 200)]) for _ in range(n)]
        y_int_dtype = r.random() < 0.5
    else:
        lo = 0.05 if cls == "Gamma" else -20.0
        y = [round(r.uniform(lo, 30.0), 6) if r.random() < 0.8 else round(r.uniform(0.05, 2.0), 6) for _ in range(n)]
        y_int_dtype = False
    yhat = [round(r.uniform(0.05, 40.0), 6) if r.random() < 0.7 else round(r.uniform(0.05, 1.5), 6) for _ in range(n)]
    layout = r.choice(["vector", "vector", "column", "column", "row"])
    spread = None
    if cls in SPREAD:
        kind = r.choice(["default", "scalar", "scalar", "array", "array", "column"])
        rng_ = {"sigma": (0.1, 5.0), "shape": (0.2, 8.0), "k": (0.1, 20.0)}[SPREAD[cls]]
        if kind == "default":
            spread = {"kind": kind}
        elif kind == "scalar":
            v = round(r.uniform(*rng_), 6) if r.random() < 0.8 else float(r.randint(1, 4))
            spread = {"kind": kind, "value": v, "as_int": bool(v == int(v) and r.random() < 0.5)}
        else:
            spread = {"kind": kind, "value": [round(r.uniform(*rng_), 6) for _ in range(n)]}
    weights = None
    if r.random() < 0.3:
        weights = {"value": [round(r.uniform(0.1, 3.0), 6) for _ in range(n)], "column": r.random() < 0.3}
    return {"cls": cls, "y": y, "y_int_dtype": y_int_dtype, "yhat": yhat, "layout": layout, "spread": spread, "weights": weights}


def make_cases(rng, tier, budget):
    out = []
    for i in range(budget["cases"]):
        r = random.Random(rng.getrandbits(64))
        out.append(_gen_case(r, force=CLASSES[i % 5] if i < 50 else None))
    for i in range(budget.get("session", 0)):
        r = random.Random(rng.getrandbits(64))
        out.append(_gen_session(r, force=CLASSES[i % 5] if i < 100 else None))
    return out


def search_cases(rng, tier, budget):
    return ([_gen_case(random.Random(rng.getrandbits(64))) for _ in range(budget["search"])]
            + [_gen_session(random.Random(rng.getrandbits(64))) for _ in range(budget.get("search_session", 0))])


# ------------------------------------------------------------------------------------------ references
def _ref_nll(cls, y, s):
    """closed-form reference negative log-density as an mpmath function of the mean m (independent of pygom)"""
    y = mpmath.mpf(y)
    s = None if s is None else mpmath.mpf(s)
    if cls == "Square":
        return lambda m: (y - m) ** 2
    if cls == "Normal":
        return lambda m: mpmath.log(s) + mpmath.log(2 * mpmath.pi) / 2 + (y - m) ** 2 / (2 * s ** 2)
    if cls == "Poisson":
        return lambda m: m - y * mpmath.log(m) + mpmath.loggamma(y + 1)
    if cls == "Gamma":      # shape s, scale m/s
        return lambda m: -((s - 1) * mpmath.log(y) - y * s / m - s * mpmath.log(m / s) - mpmath.loggamma(s))
    if cls == "NegBinom":   # size s, p = s/(s+m)
        return lambda m: -(mpmath.loggamma(s + y) - mpmath.loggamma(y + 1) - mpmath.loggamma(s)
                           + s * mpmath.log(s / (s + m)) + y * mpmath.log(m / (s + m)))
    raise ValueError(cls)


def _scipy_nll(cls, y, m, s):
    import scipy.stats as st
    if cls == "Normal":
        return -st.norm.logpdf(y, loc=m, scale=s)
    if cls == "Poisson":
        return -st.poisson.logpmf(y, m)
    if cls == "Gamma":
        return -st.gamma.logpdf(y, a=s, scale=m / s)
    if cls == "NegBinom":
        return -st.nbinom.logpmf(y, s, s / (s + m))
    return (y - m) ** 2


def _close(a, b, rel=REL, abs_=ABS):
    a = np.asarray(a, float); b = np.asarray(b, float)
    if a.shape != b.shape:
        return False
    return bool(np.all(np.abs(a - b) <= abs_ + rel * np.maximum(np.abs(a), np.abs(b))))


def _layout_tag(case):
    return {"vector": "vector", "column": "single-column", "row": "single-row"}[case["layout"]]


# ------------------------------------------------------------------------------------------ run
def run_case(case):
    if case.get("kind") == "session":
        return _run_session(case)
    from pygom.loss import loss_type
    mpmath.mp.dps = 50
    cls = case["cls"]
    n = len(case["y"])
    tags = ["class:" + cls, "layout:" + case["layout"], "n=%d" % n,
            "spread:" + (case["spread"]["kind"] if case["spread"] else "none"), "weights:" + ("yes" if case["weights"] else "none")]
    mism, viol = [], []
    y = np.array(case["y"], dtype=int if case.get("y_int_dtype") else float)
    yhat1 = np.array(case["yhat"], float)
    yhat = {"vector": yhat1, "column": yhat1.reshape(-1, 1), "row": yhat1.reshape(1, -1)}[case["layout"]]
    kw = {}
    s_vec = None
    if cls in SPREAD:
        sp = case["spread"]
        default = {"Normal": 1.0, "Gamma": 2.0, "NegBinom": 1.0}[cls]
        if sp["kind"] == "default":
            s_vec = np.full(n, default)
        elif sp["kind"] == "scalar":
            v = int(sp["value"]) if sp.get("as_int") else float(sp["value"])
            kw[SPREAD[cls]] = v
            s_vec = np.full(n, float(sp["value"]))
        else:
            arr = np.array(sp["value"], float)
            kw[SPREAD[cls]] = arr.reshape(-1, 1) if sp["kind"] == "column" else arr
            s_vec = arr
    w_vec = np.ones(n)
    if case["weights"]:
        w_vec = np.array(case["weights"]["value"], float)
        kw["weights"] = w_vec.reshape(-1, 1) if case["weights"]["column"] else w_vec
    where = "%s:%s:spread-%s" % (cls, _layout_tag(case), case["spread"]["kind"] if case["spread"] else "none")
    given = {"y": (y, y.copy())}
    given.update({k: (v, v.copy()) for k, v in kw.items() if isinstance(v, np.ndarray)})
    try:
        obj = getattr(loss_type, cls)(y, **kw)
    except Exception as exc:
        viol.append({"what": "%s constructor raised %s on valid input: %s" % (cls, type(exc).__name__, str(exc)[:200]),
                     "signature": "%s.__init__:raises:%s" % (cls, type(exc).__name__), "detail": json.dumps(case)})
        return {"nontrivial": False, "mismatches": mism, "violations": viol, "tags": tags + ["ctor_raises"]}

    defs = _translated()
    yf = y.astype(float)
    resid_nonzero = bool(np.any(np.abs(yf - yhat1) > 1e-9))
    got_all = True
    for aw in (True, False):
        w_eff = w_vec if aw else np.ones(n)
        suffix = "" if aw else "_raw"
        out = {}
        for meth in ("loss", "diff_loss", "diff2Loss"):
            try:
                out[meth] = getattr(obj, meth)(yhat.copy(), apply_weighting=aw)
            except Exception as exc:
                got_all = False
                viol.append({"what": "%s.%s raised %s on valid input: %s" % (cls, meth, type(exc).__name__, str(exc)[:200]),
                             "signature": "%s.%s:%s:raises" % (cls, meth, _layout_tag(case)), "detail": json.dumps(case)})
        # ---- shapes
        for meth in ("diff_loss", "diff2Loss"):
            if meth in out and np.shape(out[meth]) != (n,):
                got_all = False
                viol.append({"what": "%s.%s returned shape %s for %d observations given as %s (expected (%d,))"
                             % (cls, meth, np.shape(out[meth]), n, np.shape(yhat), n),
                             "signature": "%s.%s:%s:shape" % (cls, meth, _layout_tag(case)), "detail": json.dumps(case)})
                del out[meth]
        if "loss" in out and np.ndim(out["loss"]) != 0:
            got_all = False
            viol.append({"what": "%s.loss returned a non-scalar of shape %s" % (cls, np.shape(out["loss"])),
                         "signature": "%s.loss:%s:shape" % (cls, _layout_tag(case)), "detail": json.dumps(case)})
            del out["loss"]
        # ---- translation validation: the generated formula against the real method
        for meth in list(out):
            name = "%s_%s%s" % (cls, meth, suffix)
            if name not in defs:
                mism.append({"what": "untranslated:" + name, "detail": "no generated definition"})
                continue
            d, f = defs[name]
            args = {"y": yf, "yhat": yhat1, "w": w_vec}
            if cls in SPREAD:
                args[SPREAD[cls]] = s_vec
            with np.errstate(all="ignore"):
                val = f(*[args[p] for p in d["params"]]) * np.ones(n)
            val = val.sum() if meth == "loss" else val
            if not _close(out[meth], val):
                mism.append({"what": "translated-formula:%s" % name, "detail": "real %s generated %s case %s" % (np.asarray(out[meth]).tolist(), np.asarray(val).tolist(), json.dumps(case))})
        # ---- direct oracle
        refs = [_ref_nll(cls, float(yf[i]), None if s_vec is None else float(s_vec[i])) for i in range(n)]
        # (a) the loss against scipy.stats
        if "loss" in out:
            if cls == "Square":
                exp = float(np.sum(((yf - yhat1) * w_eff) ** 2))
                what = "sum of squared weighted residuals"
            elif cls == "Normal":
                import scipy.stats as st
                exp = float(np.sum(-st.norm.logpdf((yf - yhat1) * w_eff, loc=0.0, scale=s_vec)))
                what = "-sum norm.logpdf(weighted residual, 0, sigma)"
            else:
                exp = float(np.sum(_scipy_nll(cls, y if cls in ("Poisson", "NegBinom") else yf, yhat1, s_vec)))
                what = "-sum of the scipy.stats reference log-density"
            if np.all(w_eff == 1.0):
                mp_total = float(sum(refs[i](mpmath.mpf(float(yhat1[i]))) for i in range(n)))
                if not _close(exp, mp_total, rel=1e-9, abs_=1e-9):
                    mism.append({"what": "reference-self-check", "detail": "scipy %r mpmath %r case %s" % (exp, mp_total, json.dumps(case))})
            if not _close(out["loss"], exp):
                viol.append({"what": "%s.loss = %r but %s = %r" % (cls, float(out["loss"]), what, exp),
                             "signature": "%s.loss:value" % cls, "detail": json.dumps(case)})
        # (b) diff_loss = w * d/dyhat of the unweighted per-observation loss (50-digit derivative of the reference)
        if "diff_loss" in out:
            exp = np.array([float(mpmath.diff(refs[i], mpmath.mpf(float(yhat1[i])))) for i in range(n)]) * w_eff
            if not _close(out["diff_loss"], exp):
                viol.append({"what": "%s.diff_loss = %s but (weight x) derivative of the reference loss = %s" % (cls, np.asarray(out["diff_loss"]).tolist(), exp.tolist()),
                             "signature": "%s.diff_loss:value" % cls, "detail": json.dumps(case)})
        # (c) diff2Loss = second derivative of the unweighted loss (property: at unit weight / apply_weighting=False;
        #     Square, Normal and Poisson ignore the weights altogether, so they are checked with weights too)
        if "diff2Loss" in out and (np.all(w_eff == 1.0) or cls in ("Square", "Normal", "Poisson")):
            exp = np.array([float(mpmath.diff(refs[i], mpmath.mpf(float(yhat1[i])), 2)) for i in range(n)])
            if not _close(out["diff2Loss"], exp, rel=1e-7):
                viol.append({"what": "%s.diff2Loss = %s but second derivative of the reference loss = %s" % (cls, np.asarray(out["diff2Loss"]).tolist(), exp.tolist()),
                             "signature": "%s.diff2Loss:value" % cls, "detail": json.dumps(case)})
        if viol:
            break
    # the arrays handed in are the caller's.  Writing into them is a side effect, not a wrong value: it is TAGGED here; what it
    # does to later values is judged above (second apply_weighting pass on the same object) and in the session cases
    for name, (arr, snap) in given.items():
        if not (arr.shape == snap.shape and np.array_equal(arr, snap)):
            tags.append("input-modified:%s" % ("y" if name == "y" else "weights" if name == "weights" else "spread"))
    return {"nontrivial": bool(got_all and resid_nonzero), "mismatches": mism, "violations": viol, "tags": tags,
            "sample": {"cls": cls, "y": case["y"], "yhat": case["yhat"], "layout": case["layout"], "spread": case["spread"], "weights": case["weights"]}}


# ========================================================================================== sessions
# The Lean model of a kernel is a pure function of (y, yhat, spread, weight): nothing a caller did earlier, nothing another
# object did, and nothing about the identity / layout / dtype of the containers can change a value (Props/C14.lean,
# section "sessions").  The probes below check exactly that on the real objects; every expected value comes from the
# closed-form references above, evaluated at the content the containers had at the time of the call.
METHODS = ("loss", "diff_loss", "diff2Loss")
Y_FORMS = ["float_array", "float_array", "int_array", "list_float", "list_int", "tuple_float", "tuple_int"]
SPREAD_CORE = ["default", "pyfloat", "pyfloat", "pyint", "npfloat64", "array", "array", "int_array", "column"]
SPREAD_EXOTIC = ["npint64", "npfloat32", "zerod", "list"]           # rejected by the unchanged tree: tagged, judged only if accepted
W_FORMS = ["array", "array", "column", "list", "tuple", "int_array", "bool_array"]
VIAS = ["buffer", "buffer", "view", "view", "fresh"]


def _gen_obj(r, cls, N, matrix):
    count = cls in ("Poisson", "NegBinom")
    y_form = r.choice(Y_FORMS)
    integer = count or y_form.endswith("int") or y_form == "int_array"
    if integer:
        lo = 1 if cls == "Gamma" else 0
        y = [float(r.choice([lo, 1, 2, 3, 5, 8, 13, 40, r.randint(lo, 200)])) for _ in range(N)]
        if cls in ("Square", "Normal") and r.random() < 0.5:
            y = [-v if r.random() < 0.3 else v for v in y]
    else:
        lo = 0.05 if cls == "Gamma" else -20.0
        y = [round(r.uniform(lo, 30.0), 6) for _ in range(N)]
    spread = None
    if cls in SPREAD:
        kind = r.choice(SPREAD_CORE) if r.random() < 0.93 else r.choice(SPREAD_EXOTIC)
        if matrix and kind == "column":
            kind = "array"
        if kind in ("array", "int_array", "column") and not y_form.endswith("array") and r.random() < 0.9:
            # the unchanged constructors read `y.shape` next to an array spread: a list / tuple y is refused there (kept, rarely, as a tagged form)
            y_form = "int_array" if y_form.endswith("int") else "float_array"
        lo_, hi_ = {"sigma": (0.1, 5.0), "shape": (0.2, 8.0), "k": (0.1, 20.0)}[SPREAD[cls]]
        if kind == "default":
            spread = {"kind": kind}
        elif kind in ("pyint", "npint64"):
            spread = {"kind": kind, "value": r.choice([2, 3, 4, 5, 7])}
        elif kind in ("pyfloat", "npfloat64", "npfloat32", "zerod"):
            v = round(r.uniform(lo_, hi_), 6) if kind != "npfloat32" else r.choice([0.5, 1.5, 2.25, 3.0])
            spread = {"kind": kind, "value": v}
        elif kind == "int_array":
            spread = {"kind": kind, "value": [r.randint(1, 6) for _ in range(N)]}
        else:
            spread = {"kind": kind, "value": [round(r.uniform(lo_, hi_), 6) for _ in range(N)]}
    weights = None
    if r.random() < 0.45:
        form = r.choice(W_FORMS)
        if matrix and form == "column":
            form = "array"
        if form == "int_array":
            w = [r.choice([0, 1, 1, 2, 3]) for _ in range(N)]
            w[r.randrange(N)] = 2
        elif form == "bool_array":
            w = [r.choice([0, 1, 1]) for _ in range(N)]
            w[r.randrange(N)] = 1
        else:
            w = [round(r.uniform(0.1, 3.0), 6) for _ in range(N)]
        weights = {"value": w, "form": form}
    return {"y": y, "y_form": y_form, "spread": spread, "weights": weights}


def _gen_session(r, force=None):
    cls = r.choice(CLASSES) if force is None else force
    layout = r.choice(["vector", "vector", "column", "row", "matrix"])
    matrix = layout == "matrix"
    n = r.choice([2, 3, 4, 5]) if matrix else r.choice([1, 2, 3, 3, 4, 5, 7])
    N = 2 * n if matrix else n
    objs = [_gen_obj(r, cls, N, matrix)]
    if r.random() < 0.55:
        objs.append(_gen_obj(r, cls, N, matrix))
    yhat_int = r.random() < 0.08
    nyh = r.choice([2, 3])
    if yhat_int:
        yhats = [[float(r.randint(1, 40)) for _ in range(N)] for _ in range(nyh)]
    else:
        yhats = [[round(r.uniform(0.05, 40.0), 6) if r.random() < 0.7 else round(r.uniform(0.05, 1.5), 6) for _ in range(N)] for _ in range(nyh)]
    has_w = any(o["weights"] for o in objs)

    def rand_op():
        return {"obj": r.randrange(len(objs)) if r.random() < 0.35 else 0, "meth": r.choice(METHODS),
                "aw": (r.random() < 0.6) if has_w else (r.random() < 0.85), "yhat": r.randrange(nyh), "via": r.choice(VIAS)}

    ops = [rand_op() for _ in range(r.randint(4, 8))]
    # the core history: m(A), m(B), m(A) through the same buffer object / the same persistent memory
    m, via, aw = r.choice(METHODS), r.choice(["buffer", "view"]), ((r.random() < 0.6) if has_w else True)
    a, b = r.sample(range(nyh), 2)
    core = [{"obj": 0, "meth": m, "aw": aw, "yhat": i, "via": via} for i in (a, a, b, a)]        # a twice: passed again as it is, not refilled
    if r.random() < 0.35:      # cost, gradient, curvature, cost while the solver's buffer moves on
        core += [{"obj": 0, "meth": mm, "aw": aw, "yhat": i, "via": via} for mm, i in zip(("loss", "diff_loss", "diff2Loss", "loss"), (a, b, a, b))]
    if has_w and r.random() < 0.6:     # same buffer, same content, the other weighting
        core += [{"obj": 0, "meth": m, "aw": not aw, "yhat": a, "via": via}, {"obj": 0, "meth": m, "aw": aw, "yhat": a, "via": via}]
    if len(objs) > 1 and r.random() < 0.7:      # same buffer, same content, the other object and back
        core += [{"obj": 1, "meth": m, "aw": aw, "yhat": a, "via": via}, {"obj": 0, "meth": m, "aw": aw, "yhat": a, "via": via}]
    pos = sorted(r.randrange(len(ops) + 1) for _ in core)
    for off, (p_, op) in enumerate(zip(pos, core)):
        ops.insert(p_ + off, op)
    if r.random() < 0.3:
        ops.insert(r.randrange(1, len(ops)), {"op": "deepcopy", "obj": r.randrange(len(objs)), "how": r.choice(["deepcopy", "pickle"])})
    if r.random() < 0.3:
        fresh_y = _gen_obj(r, cls, N, matrix)["y"] if objs[0]["y_form"].startswith(("float", "list_float", "tuple_float")) else None
        if fresh_y is None:
            lo = 1 if cls == "Gamma" else 0
            fresh_y = [float(r.choice([lo, 1, 2, 4, 6, 9, 21, r.randint(lo, 150)])) for _ in range(N)]
        elif cls == "Gamma":
            fresh_y = [abs(v) + 0.05 for v in fresh_y]
        elif cls in ("Poisson", "NegBinom"):
            fresh_y = [float(int(abs(v))) for v in fresh_y]
        k = r.randrange(2, len(ops))
        ops.insert(k, {"op": "rebuild", "obj": 0, "y": fresh_y})
        # the rebuilt object is used right away and again through the core buffer
        ops.insert(k + 1, {"obj": 0, "meth": r.choice(METHODS), "aw": aw, "yhat": a, "via": via})
        ops.insert(k + 2, {"obj": 0, "meth": "loss", "aw": aw, "yhat": b, "via": r.choice(VIAS)})
    return {"kind": "session", "cls": cls, "layout": layout, "n": n, "objs": objs, "yhats": yhats, "yhat_dtype": "int" if yhat_int else "float", "ops": ops,
            "scribble": r.random() < 0.3}


def _container(vals, form, shape):
    """the caller's container for y (and a function that re-reads its current content as a flat float array)"""
    if form in ("float_array", "int_array"):
        return np.array(vals, dtype=float if form == "float_array" else int).reshape(shape)
    cast = float if form.endswith("float") else int
    if len(shape) == 2:
        rows = [[cast(v) for v in vals[i * shape[1]:(i + 1) * shape[1]]] for i in range(shape[0])]
        return tuple(tuple(x) for x in rows) if form.startswith("tuple") else rows
    seq = [cast(v) for v in vals]
    return tuple(seq) if form.startswith("tuple") else seq


def _flat(c):
    return np.asarray(c, dtype=float).ravel()


def _spread_arg(sp, shape, N):
    """(constructor argument, per-observation float values); (None, None) for the default spread"""
    k = sp["kind"]
    if k == "default":
        return None, None
    v = sp["value"]
    if k == "pyfloat": return float(v), np.full(N, float(v))
    if k == "pyint": return int(v), np.full(N, float(v))
    if k == "npfloat64": return np.float64(v), np.full(N, float(v))
    if k == "npint64": return np.int64(v), np.full(N, float(v))
    if k == "npfloat32": return np.float32(v), np.full(N, float(v))
    if k == "zerod": return np.array(float(v)), np.full(N, float(v))
    if k == "list": return [float(x) for x in v], np.array(v, float)
    if k == "int_array": return np.array(v, dtype=int).reshape(shape), np.array(v, float)
    if k == "column": return np.array(v, float).reshape(-1, 1), np.array(v, float)
    return np.array(v, float).reshape(shape), np.array(v, float)


def _weight_arg(wt, shape):
    v, form = wt["value"], wt["form"]
    if form == "array": return np.array(v, float).reshape(shape)
    if form == "column": return np.array(v, float).reshape(-1, 1)
    if form == "int_array": return np.array(v, dtype=int).reshape(shape)
    if form == "bool_array": return np.array(v, dtype=bool).reshape(shape)
    rows = [float(x) for x in v]
    if len(shape) == 2:
        rows = [rows[i * shape[1]:(i + 1) * shape[1]] for i in range(shape[0])]
        return tuple(tuple(x) for x in rows) if form == "tuple" else rows
    return tuple(rows) if form == "tuple" else rows


def _same(a, b):
    try:
        if isinstance(a, np.ndarray) or isinstance(b, np.ndarray):
            a_, b_ = np.asarray(a), np.asarray(b)
            return a_.shape == b_.shape and a_.dtype == b_.dtype and bool(np.array_equal(a_, b_, equal_nan=(a_.dtype.kind == "f")))
        return type(a) is type(b) and a == b
    except Exception:
        return False


class _Oracle:
    """closed-form reference values for one class (scipy.stats for the loss, 50-digit mpmath derivatives), memoised per observation"""

    def __init__(self, cls):
        self.cls, self.memo = cls, {}

    def deriv(self, y, s, m, order):
        key = (y, s, m, order)
        if key not in self.memo:
            self.memo[key] = float(mpmath.diff(_ref_nll(self.cls, y, s), mpmath.mpf(m), order))
        return self.memo[key]

    def expect(self, meth, aw, yv, mv, sv, wv):
        cls = self.cls
        w_eff = wv if aw else np.ones(len(yv))
        if meth == "loss":
            if cls == "Square":
                return float(np.sum(((yv - mv) * w_eff) ** 2))
            if cls == "Normal":
                import scipy.stats as st
                return float(np.sum(-st.norm.logpdf((yv - mv) * w_eff, loc=0.0, scale=sv)))
            return float(np.sum(_scipy_nll(cls, yv, mv, sv)))
        ss = [None] * len(yv) if sv is None else [float(x) for x in sv]
        if meth == "diff_loss":
            return np.array([self.deriv(float(yv[i]), ss[i], float(mv[i]), 1) for i in range(len(yv))]) * w_eff
        if np.all(w_eff == 1.0) or cls in ("Square", "Normal", "Poisson"):
            return np.array([self.deriv(float(yv[i]), ss[i], float(mv[i]), 2) for i in range(len(yv))])
        return None         # Gamma / NegBinom curvature with non-unit weights: not part of the property


def _run_session(case):
    from pygom.loss import loss_type
    mpmath.mp.dps = 50
    cls, layout, n = case["cls"], case["layout"], case["n"]
    matrix = layout == "matrix"
    N = 2 * n if matrix else n
    yshape = (n, 2) if matrix else (n,)
    hshape = {"vector": (n,), "column": (n, 1), "row": (1, n), "matrix": (n, 2)}[layout]
    out_shape = (n, 2) if matrix else (n,)
    hdtype = int if case.get("yhat_dtype") == "int" else float
    tags = ["session", "class:" + cls, "layout:" + layout, "n=%d" % n, "objects=%d" % len(case["objs"]), "yhat-dtype:" + case.get("yhat_dtype", "float")]
    mism, viol, seen = [], [], set()
    detail = json.dumps(case)

    def violation(sig, what):
        if sig not in seen:
            seen.add(sig)
            viol.append({"what": what, "signature": sig, "detail": detail})

    ctor = getattr(loss_type, cls)
    oracle = _Oracle(cls)
    # ------------------------------------------------------------------ the caller's containers and the objects
    live = []
    exotic = hdtype is int
    for k, o in enumerate(case["objs"]):
        tags.append("y:" + o["y_form"])
        ycont = _container(o["y"], o["y_form"], yshape)
        kw, sv = {}, None
        if cls in SPREAD:
            sp = o["spread"]
            tags.append("spread:" + sp["kind"])
            arg, sv = _spread_arg(sp, yshape, N)
            if sp["kind"] == "default":
                sv = np.full(N, {"Normal": 1.0, "Gamma": 2.0, "NegBinom": 1.0}[cls])
            else:
                kw[SPREAD[cls]] = arg
            if sp["kind"] in SPREAD_EXOTIC or (sp["kind"] in ("array", "int_array", "column") and not isinstance(ycont, np.ndarray)):
                exotic = True      # scalar types other than int / float, and array spreads next to a list y, are refused by the unchanged tree
        wv = np.ones(N)
        if o["weights"]:
            tags.append("weights:" + o["weights"]["form"])
            kw["weights"] = _weight_arg(o["weights"], yshape)
            wv = np.array(o["weights"]["value"], float)
        else:
            tags.append("weights:none")
        keep = {"y": copy.deepcopy(ycont), "kw": copy.deepcopy(kw)}
        try:
            obj = ctor(ycont, **kw)
        except Exception as exc:
            if exotic:
                return {"nontrivial": False, "mismatches": mism, "violations": viol, "tags": tags + ["form-rejected:constructor:" + type(exc).__name__]}
            violation("%s.__init__:session:raises:%s" % (cls, type(exc).__name__), "%s constructor raised %s on valid input: %s" % (cls, type(exc).__name__, str(exc)[:200]))
            return {"nontrivial": False, "mismatches": mism, "violations": viol, "tags": tags + ["ctor_raises"]}
        live.append({"obj": obj, "ycont": ycont, "kw": kw, "keep": keep, "yv": np.array(o["y"], float), "sv": sv, "wv": wv, "gen": 0})
    if exotic:
        tags.append("form:exotic")

    # persistent memory the "solver" writes its predictions into
    buf = np.empty(hshape, dtype=hdtype)
    width = 4 if matrix else 3
    sol = np.full((width, n) if layout == "row" else (n, width), 7, dtype=hdtype)
    sol_expected = sol.copy()

    def the_view():
        if layout == "vector": return sol[:, 1]
        if layout == "column": return sol[:, 1:2]
        if layout == "row": return sol[1:2, :]
        return sol[:, 1:3]

    fresh_kept, kept, first_seen = [], [], {}
    scribble, scribbled = bool(case.get("scribble")), []
    if scribble:
        tags.append("caller-overwrites-results")
    buffer_content, reused_changed, all_returned = {"buffer": None, "view": None}, False, True
    for idx, op in enumerate(case["ops"]):
        L = live[op["obj"]]
        if op.get("op") == "deepcopy":
            how = op.get("how", "deepcopy")
            tags.append("op:" + how)
            try:
                L["obj"] = copy.deepcopy(L["obj"]) if how == "deepcopy" else pickle.loads(pickle.dumps(L["obj"]))
            except Exception as exc:
                violation("%s:session:%s-raises" % (cls, how), "%s of a %s object raised %r" % (how, cls, exc))
            continue
        if op.get("op") == "rebuild":
            tags.append("op:rebuild-on-refilled-y")
            newy = [float(v) for v in op["y"]]
            if isinstance(L["ycont"], np.ndarray):
                L["ycont"][...] = np.array(newy).reshape(yshape)         # the caller refills its data array in place ...
            else:
                L["ycont"] = _container(newy, case["objs"][op["obj"]]["y_form"], yshape)
            L["keep"]["y"] = copy.deepcopy(L["ycont"])
            L["yv"] = np.array(newy, float)
            L["gen"] += 1
            if any(not _same(val, L["keep"]["kw"][name]) for name, val in L["kw"].items()):
                tags.append("rebuild-skipped:inputs-modified-earlier")      # the spread / weight containers are no longer what the caller made: not valid input any more
                all_returned = False
                break
            try:
                L["obj"] = ctor(L["ycont"], **L["kw"])                     # ... and builds a new kernel object on it
            except Exception as exc:
                all_returned = False
                if not exotic:
                    violation("%s.__init__:session:raises:%s" % (cls, type(exc).__name__), "%s constructor raised %s on valid input (object rebuilt on the refilled y array): %s" % (cls, type(exc).__name__, str(exc)[:200]))
                break
            continue
        meth, aw, via = op["meth"], bool(op["aw"]), op["via"]
        vals = np.array(case["yhats"][op["yhat"]], float)
        shaped = vals.reshape(hshape).astype(hdtype)
        if via == "fresh":
            arg = shaped.copy()
            fresh_kept.append((arg, arg.copy()))
        elif via == "buffer":
            if buffer_content["buffer"] is not None and buffer_content["buffer"] != op["yhat"]:
                reused_changed = True
            if buffer_content["buffer"] != op["yhat"]:
                buf[...] = shaped          # refilled in place only when the solver has moved on; otherwise the caller passes it again as it is
            buffer_content["buffer"] = op["yhat"]
            arg = buf
        else:
            if buffer_content["view"] is not None and buffer_content["view"] != op["yhat"]:
                reused_changed = True
            if buffer_content["view"] != op["yhat"]:
                v = the_view(); v[...] = shaped
                sol_expected[...] = sol
            buffer_content["view"] = op["yhat"]
            arg = the_view()                                               # a NEW view object over the same memory, as sol[:, i] is
        label = "%s.%s(%s, apply_weighting=%s) [operation %d, prediction set %d via %s]" % (cls, meth, layout, aw, idx, op["yhat"], via)
        try:
            with np.errstate(all="ignore"):
                res = getattr(L["obj"], meth)(arg, apply_weighting=aw)
        except Exception as exc:
            all_returned = False
            if exotic:
                tags.append("form-rejected:%s:%s" % (meth, type(exc).__name__))
            else:
                violation("%s.%s:session:raises" % (cls, meth), "%s raised %s: %s" % (label, type(exc).__name__, str(exc)[:200]))
            continue
        if isinstance(res, np.ndarray):
            # a result that shares memory with the object's attributes or with the caller's containers is a hazard, not a wrong value: TAG
            try:
                if any(isinstance(v, np.ndarray) and np.shares_memory(res, v) for v in vars(L["obj"]).values()):
                    tags.append("result-shares-memory:object-state:%s" % meth)
                if np.shares_memory(res, arg) or any(isinstance(v, np.ndarray) and np.shares_memory(res, v) for v in [L["ycont"]] + list(L["kw"].values())):
                    tags.append("result-shares-memory:caller-array:%s" % meth)
            except Exception:
                pass
        if scribble and isinstance(res, np.ndarray) and res.flags.writeable:
            scribbled.append((res, copy.deepcopy(res)))       # judged below on the copy; the caller then overwrites ITS result array
        else:
            kept.append((idx, label, res, copy.deepcopy(res)))
        # ---- shape
        want_shape = () if meth == "loss" else out_shape
        if np.shape(res) != want_shape:
            all_returned = False
            violation("%s.%s:session:shape" % (cls, meth), "%s returned shape %s (expected %s)" % (label, np.shape(res), want_shape))
            continue
        # ---- value: the closed form at what the array held when the call was made
        exp = oracle.expect(meth, aw, L["yv"], vals, L["sv"], L["wv"])
        if exp is not None:
            got = np.asarray(res, float).ravel() if meth != "loss" else float(res)
            if not _close(got, exp, rel=1e-7 if meth == "diff2Loss" else REL):
                # classification only (never used to accept anything): would a new object given fresh arrays be right?
                hist = False
                try:
                    with np.errstate(all="ignore"):
                        again = getattr(ctor(copy.deepcopy(L["keep"]["y"]), **copy.deepcopy(L["keep"]["kw"])), meth)(shaped.copy(), apply_weighting=aw)
                    again = np.asarray(again, float).ravel() if meth != "loss" else float(again)
                    hist = _close(again, exp, rel=1e-7 if meth == "diff2Loss" else REL)
                except Exception:
                    pass
                if hist:
                    violation("%s.%s:session:history-dependent" % (cls, meth),
                              "%s = %s but the reference gives %s; a new %s object given a fresh copy of the same prediction returns the reference value: "
                              "the value depends on earlier calls / on the identity of the array" % (label, np.asarray(got).tolist(), np.asarray(exp).tolist(), cls))
                else:
                    violation("%s.%s:session:value" % (cls, meth), "%s = %s but the reference gives %s" % (label, np.asarray(got).tolist(), np.asarray(exp).tolist()))
        # ---- the same evaluation through the same memory must reproduce the earlier result bit for bit
        if via != "fresh":
            key = (op["obj"], L["gen"], meth, aw, op["yhat"], via)
            if key in first_seen:
                if not _same(np.asarray(first_seen[key][1]), np.asarray(res)):
                    violation("%s.%s:session:not-reproduced" % (cls, meth), "%s = %s but the identical evaluation at operation %d gave %s"
                              % (label, np.asarray(res).tolist(), first_seen[key][0], np.asarray(first_seen[key][1]).tolist()))
            else:
                first_seen[key] = (idx, copy.deepcopy(res))
        # ---- the prediction array is the caller's.  A write into it is a side effect (TAG); its consequences are judged by the values
        #      of the later calls that receive the same, not refilled, array
        if via == "fresh":
            ok = _same(fresh_kept[-1][0], fresh_kept[-1][1])
        elif via == "buffer":
            ok = _same(buf, shaped)
        else:
            ok = _same(sol, sol_expected)
        if not ok:
            tags.append("input-modified:prediction:%s" % meth)
            if via == "view":
                sol_expected[...] = sol
        if scribbled and scribbled[-1][0] is res:
            res[...] = -12345.0         # a returned array is the caller's: what the caller does to it must not reach the object (checked by the later values)
    # ------------------------------------------------------------------ afterwards
    for idx, label, res, snap in kept:
        if not _same(np.asarray(res), np.asarray(snap)):
            m_ = label.split("(")[0]
            violation("%s:session:kept-result-changed" % m_, "the result of %s was %s when returned and is %s after later calls (returned array aliases internal state)"
                      % (label, np.asarray(snap).tolist(), np.asarray(res).tolist()))
    for k, L in enumerate(live):
        if not _same(L["ycont"], L["keep"]["y"]):
            tags.append("input-modified:y")
        for name, val in L["kw"].items():
            if not _same(val, L["keep"]["kw"][name]):
                tags.append("input-modified:%s" % ("weights" if name == "weights" else "spread"))
    return {"nontrivial": bool(all_returned and reused_changed and not exotic), "mismatches": mism, "violations": viol, "tags": sorted(set(tags)),
            "sample": {"kind": "session", "cls": cls, "layout": layout, "ops": len(case["ops"]), "objects": len(live)}}
