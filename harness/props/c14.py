"""
C14 - loss kernels are the negative log-likelihoods they are named after.

Tie (T): `pre` regenerates lean/Pygom/Gen/Kernels.lean from loss_type.py / distn.py of the tree under test
(harness/translate_kernels.py); the theorems of Pygom/Props/C14.lean are then re-checked against it by `lake build`.
A refusal of the translator is a broken tie.

Tie (H), per case (one loss object, one prediction array):
  * translation validation - the translated per-observation formula (the same IR that is printed to Lean, evaluated as a
    numpy lambda) against the real `loss / diff_loss / diff2Loss` (mismatch = broken correspondence);
  * direct oracle, independent of the Lean model and of the translated formula - scipy.stats reference log-densities
    (norm.logpdf, poisson.logpmf, gamma.logpdf(a=shape, scale=mu/shape), nbinom.logpmf(k, k/(k+mu))) for the loss,
    50-digit mpmath derivatives of the closed-form reference log-density for diff_loss / diff2Loss, and the result
    shape `(n,)` for vector, single-column `(n,1)` and single-row inputs, scalar / per-observation spread.
"""
import json
import os
import random

import mpmath
import numpy as np

from .. import bootstrap
from .. import translate_kernels as TK

PROP = "C14"
LEAN = {"module": "Pygom.Props.C14",
        "required": ["Pygom.C14.square_loss_def", "Pygom.C14.normal_loss_is_nll", "Pygom.C14.poisson_loss_is_nll",
                     "Pygom.C14.gamma_loss_is_nll", "Pygom.C14.negbinom_loss_is_nll"]
        + ["Pygom.C14.%s_diff_loss_is_derivative" % c for c in ("square", "normal", "poisson", "gamma", "negbinom")]
        + ["Pygom.C14.%s_diff2_is_second_derivative" % c for c in ("square", "normal", "poisson", "gamma", "negbinom")]
        + ["Pygom.C14.%s_diff_loss_weighted" % c for c in ("square", "normal", "poisson", "gamma", "negbinom")]
        + ["Pygom.C14.normal_loss_weighted", "Pygom.C14.raw_eq_unit_weight"]}
BUDGET = {"quick": {"cases": 2500, "search": 5000}, "thorough": {"cases": 150000, "search": 40000}}
RULE = ("random loss objects: class in {Square, Normal, Poisson, Gamma, NegBinom}; n in 1..7 observations (integers, zero included, "
        "for the count losses; > 0 for Gamma); predictions > 0 given as vector (n,), single column (n,1) or single row (1,n); spread "
        "default / scalar / per-observation (n,) / (n,1); weights none / per-observation; apply_weighting True / False.  A case is "
        "non-trivial when all three methods returned and the residual is non-zero in some observation")
ASSUMPTIONS = ["scipy.stats log-densities are the reference densities (executable reference, also compared per case with the mpmath closed forms)",
               "float arithmetic of the real code versus real arithmetic: relative tolerance 1e-8 (references are accurate to ~1e-13)",
               "the translated term denotes what the Python expression computes elementwise (translator, validated per case numerically)"]
TRUSTED = ["harness/translate_kernels.py (symbolic executor + Lean/numpy printers)", "scipy.stats reference densities", "mpmath (50 digits)"]

CLASSES = ["Square", "Normal", "Poisson", "Gamma", "NegBinom"]
SPREAD = {"Normal": "sigma", "Gamma": "shape", "NegBinom": "k"}
REL, ABS = 1e-8, 1e-9

_cache = {}


def pre(tier):
    res = TK.regenerate(bootstrap.REPO)
    broken = [{"obligation": "translator: %s" % r["what"], "detail": "BROKEN TIE - source outside the translated subset: " + r["detail"]}
              for r in res["refused"]]
    n = len(res["defs"]) + len(res["refused"])
    return {"broken": broken, "obligations": n, "discharged": len(res["defs"]),
            "coverage": {"generated_files_changed": ["lean/Pygom/Gen/Kernels.lean"] if res["changed"] else [],
                         "translated_definitions": [d["name"] for d in res["defs"]],
                         "translator_refusals": res["refused"]}}


def _translated():
    if "defs" not in _cache:
        res = TK.translate(bootstrap.REPO)
        _cache["defs"] = {d["name"]: (d, TK.py_lambda(d)) for d in res["defs"]}
    return _cache["defs"]


# ------------------------------------------------------------------------------------------ generation
def _gen_case(r, force=None):
    cls = r.choice(CLASSES) if force is None else force
    n = r.choice([1, 2, 2, 3, 3, 4, 5, 7])
    count = cls in ("Poisson", "NegBinom")
    if count:
        y = [r.choice([0, 1, 2, 3, 5, 8, 13, 40, r.randint(0, 200)]) for _ in range(n)]
        y_int_dtype = r.random() < 0.5
    else:
        lo = 0.05 if cls == "Gamma" else -20.0
        y = [round(r.uniform(lo, 30.0), 6) if r.random() < 0.8 else round(r.uniform(0.05, 2.0), 6) for _ in range(n)]
        y_int_dtype = False
    yhat = [round(r.uniform(0.05, 40.0), 6) if r.random() < 0.7 else round(r.uniform(0.05, 1.5), 6) for _ in range(n)]
    layout = r.choice(["vector", "vector", "column", "column", "row"])
    spread = None
    if cls in SPREAD:
        kind = r.choice(["default", "scalar", "scalar", "array", "array", "column"])
        rng_ = {"sigma": (0.1, 5.0), "shape": (0.2, 8.0), "k": (0.1, 20.0)}[SPREAD[cls]]
        if kind == "default":
            spread = {"kind": kind}
        elif kind == "scalar":
            v = round(r.uniform(*rng_), 6) if r.random() < 0.8 else float(r.randint(1, 4))
            spread = {"kind": kind, "value": v, "as_int": bool(v == int(v) and r.random() < 0.5)}
        else:
            spread = {"kind": kind, "value": [round(r.uniform(*rng_), 6) for _ in range(n)]}
    weights = None
    if r.random() < 0.3:
        weights = {"value": [round(r.uniform(0.1, 3.0), 6) for _ in range(n)], "column": r.random() < 0.3}
    return {"cls": cls, "y": y, "y_int_dtype": y_int_dtype, "yhat": yhat, "layout": layout, "spread": spread, "weights": weights}


def make_cases(rng, tier, budget):
    out = []
    for i in range(budget["cases"]):
        r = random.Random(rng.getrandbits(64))
        out.append(_gen_case(r, force=CLASSES[i % 5] if i < 50 else None))
    return out


def search_cases(rng, tier, budget):
    return [_gen_case(random.Random(rng.getrandbits(64))) for _ in range(budget["search"])]


# ------------------------------------------------------------------------------------------ references
def _ref_nll(cls, y, s):
    """closed-form reference negative log-density as an mpmath function of the mean m (independent of pygom)"""
    y = mpmath.mpf(y)
    s = None if s is None else mpmath.mpf(s)
    if cls == "Square":
        return lambda m: (y - m) ** 2
    if cls == "Normal":
        return lambda m: mpmath.log(s) + mpmath.log(2 * mpmath.pi) / 2 + (y - m) ** 2 / (2 * s ** 2)
    if cls == "Poisson":
        return lambda m: m - y * mpmath.log(m) + mpmath.loggamma(y + 1)
    if cls == "Gamma":      # shape s, scale m/s
        return lambda m: -((s - 1) * mpmath.log(y) - y * s / m - s * mpmath.log(m / s) - mpmath.loggamma(s))
    if cls == "NegBinom":   # size s, p = s/(s+m)
        return lambda m: -(mpmath.loggamma(s + y) - mpmath.loggamma(y + 1) - mpmath.loggamma(s)
                           + s * mpmath.log(s / (s + m)) + y * mpmath.log(m / (s + m)))
    raise ValueError(cls)


def _scipy_nll(cls, y, m, s):
    import scipy.stats as st
    if cls == "Normal":
        return -st.norm.logpdf(y, loc=m, scale=s)
    if cls == "Poisson":
        return -st.poisson.logpmf(y, m)
    if cls == "Gamma":
        return -st.gamma.logpdf(y, a=s, scale=m / s)
    if cls == "NegBinom":
        return -st.nbinom.logpmf(y, s, s / (s + m))
    return (y - m) ** 2


def _close(a, b, rel=REL, abs_=ABS):
    a = np.asarray(a, float); b = np.asarray(b, float)
    if a.shape != b.shape:
        return False
    return bool(np.all(np.abs(a - b) <= abs_ + rel * np.maximum(np.abs(a), np.abs(b))))


def _layout_tag(case):
    return {"vector": "vector", "column": "single-column", "row": "single-row"}[case["layout"]]


# ------------------------------------------------------------------------------------------ run
def run_case(case):
    from pygom.loss import loss_type
    mpmath.mp.dps = 50
    cls = case["cls"]
    n = len(case["y"])
    tags = ["class:" + cls, "layout:" + case["layout"], "n=%d" % n,
            "spread:" + (case["spread"]["kind"] if case["spread"] else "none"), "weights:" + ("yes" if case["weights"] else "none")]
    mism, viol = [], []
    y = np.array(case["y"], dtype=int if case.get("y_int_dtype") else float)
    yhat1 = np.array(case["yhat"], float)
    yhat = {"vector": yhat1, "column": yhat1.reshape(-1, 1), "row": yhat1.reshape(1, -1)}[case["layout"]]
    kw = {}
    s_vec = None
    if cls in SPREAD:
        sp = case["spread"]
        default = {"Normal": 1.0, "Gamma": 2.0, "NegBinom": 1.0}[cls]
        if sp["kind"] == "default":
            s_vec = np.full(n, default)
        elif sp["kind"] == "scalar":
            v = int(sp["value"]) if sp.get("as_int") else float(sp["value"])
            kw[SPREAD[cls]] = v
            s_vec = np.full(n, float(sp["value"]))
        else:
            arr = np.array(sp["value"], float)
            kw[SPREAD[cls]] = arr.reshape(-1, 1) if sp["kind"] == "column" else arr
            s_vec = arr
    w_vec = np.ones(n)
    if case["weights"]:
        w_vec = np.array(case["weights"]["value"], float)
        kw["weights"] = w_vec.reshape(-1, 1) if case["weights"]["column"] else w_vec
    where = "%s:%s:spread-%s" % (cls, _layout_tag(case), case["spread"]["kind"] if case["spread"] else "none")
    try:
        obj = getattr(loss_type, cls)(y, **kw)
    except Exception as exc:
        viol.append({"what": "%s constructor raised %s on valid input: %s" % (cls, type(exc).__name__, str(exc)[:200]),
                     "signature": "%s.__init__:raises:%s" % (cls, type(exc).__name__), "detail": json.dumps(case)})
        return {"nontrivial": False, "mismatches": mism, "violations": viol, "tags": tags + ["ctor_raises"]}

    defs = _translated()
    yf = y.astype(float)
    resid_nonzero = bool(np.any(np.abs(yf - yhat1) > 1e-9))
    got_all = True
    for aw in (True, False):
        w_eff = w_vec if aw else np.ones(n)
        suffix = "" if aw else "_raw"
        out = {}
        for meth in ("loss", "diff_loss", "diff2Loss"):
            try:
                out[meth] = getattr(obj, meth)(yhat.copy(), apply_weighting=aw)
            except Exception as exc:
                got_all = False
                viol.append({"what": "%s.%s raised %s on valid input: %s" % (cls, meth, type(exc).__name__, str(exc)[:200]),
                             "signature": "%s.%s:%s:raises" % (cls, meth, _layout_tag(case)), "detail": json.dumps(case)})
        # ---- shapes
        for meth in ("diff_loss", "diff2Loss"):
            if meth in out and np.shape(out[meth]) != (n,):
                got_all = False
                viol.append({"what": "%s.%s returned shape %s for %d observations given as %s (expected (%d,))"
                             % (cls, meth, np.shape(out[meth]), n, np.shape(yhat), n),
                             "signature": "%s.%s:%s:shape" % (cls, meth, _layout_tag(case)), "detail": json.dumps(case)})
                del out[meth]
        if "loss" in out and np.ndim(out["loss"]) != 0:
            got_all = False
            viol.append({"what": "%s.loss returned a non-scalar of shape %s" % (cls, np.shape(out["loss"])),
                         "signature": "%s.loss:%s:shape" % (cls, _layout_tag(case)), "detail": json.dumps(case)})
            del out["loss"]
        # ---- translation validation: the generated formula against the real method
        for meth in list(out):
            name = "%s_%s%s" % (cls, meth, suffix)
            if name not in defs:
                mism.append({"what": "untranslated:" + name, "detail": "no generated definition"})
                continue
            d, f = defs[name]
            args = {"y": yf, "yhat": yhat1, "w": w_vec}
            if cls in SPREAD:
                args[SPREAD[cls]] = s_vec
            with np.errstate(all="ignore"):
                val = f(*[args[p] for p in d["params"]]) * np.ones(n)
            val = val.sum() if meth == "loss" else val
            if not _close(out[meth], val):
                mism.append({"what": "translated-formula:%s" % name, "detail": "real %s generated %s case %s" % (np.asarray(out[meth]).tolist(), np.asarray(val).tolist(), json.dumps(case))})
        # ---- direct oracle
        refs = [_ref_nll(cls, float(yf[i]), None if s_vec is None else float(s_vec[i])) for i in range(n)]
        # (a) the loss against scipy.stats
        if "loss" in out:
            if cls == "Square":
                exp = float(np.sum(((yf - yhat1) * w_eff) ** 2))
                what = "sum of squared weighted residuals"
            elif cls == "Normal":
                import scipy.stats as st
                exp = float(np.sum(-st.norm.logpdf((yf - yhat1) * w_eff, loc=0.0, scale=s_vec)))
                what = "-sum norm.logpdf(weighted residual, 0, sigma)"
            else:
                exp = float(np.sum(_scipy_nll(cls, y if cls in ("Poisson", "NegBinom") else yf, yhat1, s_vec)))
                what = "-sum of the scipy.stats reference log-density"
            if np.all(w_eff == 1.0):
                mp_total = float(sum(refs[i](mpmath.mpf(float(yhat1[i]))) for i in range(n)))
                if not _close(exp, mp_total, rel=1e-9, abs_=1e-9):
                    mism.append({"what": "reference-self-check", "detail": "scipy %r mpmath %r case %s" % (exp, mp_total, json.dumps(case))})
            if not _close(out["loss"], exp):
                viol.append({"what": "%s.loss = %r but %s = %r" % (cls, float(out["loss"]), what, exp),
                             "signature": "%s.loss:value" % cls, "detail": json.dumps(case)})
        # (b) diff_loss = w * d/dyhat of the unweighted per-observation loss (50-digit derivative of the reference)
        if "diff_loss" in out:
            exp = np.array([float(mpmath.diff(refs[i], mpmath.mpf(float(yhat1[i])))) for i in range(n)]) * w_eff
            if not _close(out["diff_loss"], exp):
                viol.append({"what": "%s.diff_loss = %s but (weight x) derivative of the reference loss = %s" % (cls, np.asarray(out["diff_loss"]).tolist(), exp.tolist()),
                             "signature": "%s.diff_loss:value" % cls, "detail": json.dumps(case)})
        # (c) diff2Loss = second derivative of the unweighted loss (property: at unit weight / apply_weighting=False;
        #     Square, Normal and Poisson ignore the weights altogether, so they are checked with weights too)
        if "diff2Loss" in out and (np.all(w_eff == 1.0) or cls in ("Square", "Normal", "Poisson")):
            exp = np.array([float(mpmath.diff(refs[i], mpmath.mpf(float(yhat1[i])), 2)) for i in range(n)])
            if not _close(out["diff2Loss"], exp, rel=1e-7):
                viol.append({"what": "%s.diff2Loss = %s but second derivative of the reference loss = %s" % (cls, np.asarray(out["diff2Loss"]).tolist(), exp.tolist()),
                             "signature": "%s.diff2Loss:value" % cls, "detail": json.dumps(case)})
        if viol:
            break
    return {"nontrivial": bool(got_all and resid_nonzero), "mismatches": mism, "violations": viol, "tags": tags,
            "sample": {"cls": cls, "y": case["y"], "yhat": case["yhat"], "layout": case["layout"], "spread": case["spread"], "weights": case["weights"]}}
