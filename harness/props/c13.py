"""
C13 - sensitivity systems are the variational equations of the model.   (PARTIAL: see ASSUMPTIONS)

Proof (lean/Pygom/Props/C13.lean, about lean/Pygom/Sens.lean): layouts of `ode_and_sensitivity` (both
arrangements) and `ode_and_sensitivityIV`; the assembled block Jacobians (by parameter, initial-value
system incl. nP = 0, and the repaired by-state matrix) are entry by entry the derivative of the augmented
right-hand side; the by-state matrix AS CODED is not (counterexample).

Tie (this file), per random model and random point z:
 (a) real `ode_and_sensitivity(z,t,by_state)`, `ode_and_sensitivityIV(z,t)` and the `*_jacobian` against the
     Lean driver's `layout` run on the exact values of f, J, G, dJ, dG (the driver's own `assemble`
     derivative expressions evaluated at the point);
 (b) DIRECT ORACLE, no Lean: J.S+G written out with explicit index loops from model.jacobian/model.grad;
     Richardson-extrapolated central differences of the REAL right-hand sides for the Jacobians;
     integrated sensitivity columns (scipy DOP853 on the real augmented right-hand side) against finite
     differences in theta and x0 of reference solutions of pygom's `ode` (DOP853, rtol=atol=1e-12).
"""
import json
import random
from fractions import Fraction

import numpy as np

from .. import exprs as E
from .. import gen, pymodel
from .common import lean_assemble
from .senscommon import (close_arr, ev_frac, fmat, fvec, layout, ref_solve, richardson_dir, richardson_jac, subst_params,
                         to_float, worst)

PROP = "C13"
LEAN = {"module": "Pygom.Props.C13", "extra_modules": ["Pygom.Props.C13Link"],
        "required": ["Pygom.C13Link.diff_comm", "Pygom.C13Link.envOf_update", "Pygom.C13Link.envOf_update_ge",
                     "Pygom.C13Link.aug_jacobian_is_derivative_expr", "Pygom.C13Link.aug_jacobianIV_is_derivative_expr",
                     "Pygom.C13Link.aug_jacobian_by_state_repaired_is_derivative_expr",
                     "Pygom.C13Link.aug_jacobian_is_derivative_expr_at", "Pygom.C13Link.aug_jacobianIV_is_derivative_expr_at",
                     "Pygom.C13Link.aug_jacobian_by_state_repaired_is_derivative_expr_at",
                     "Pygom.C13.sens_layout", "Pygom.C13.sens_layout_by_state", "Pygom.C13.sensIV_layout",
                     "Pygom.C13.aug_jacobian_is_derivative", "Pygom.C13.aug_jacobianIV_is_derivative",
                     "Pygom.C13.aug_jacobian_by_state_repaired_is_derivative",
                     "Pygom.C13.aug_jacobian_by_state_counterexample", "Pygom.C13.aug_jacobian_by_state_as_coded_refuted",
                     "Pygom.C13.matToVecSens_vecToMatSens", "Pygom.C13.vecToMatSens_matToVecSens"]}
BUDGET = {"quick": {"points": 70, "nP0": 10, "integrated": 20, "cython": 1},
          "thorough": {"points": 1600, "nP0": 200, "integrated": 260, "cython": 6}}
RULE = ("random autonomous model definitions (1-5 states, 1-5 parameters and parameter-free variants, every rate kind, "
        "derived parameters, explicit ODE terms) at a random rational state/parameter point with random rational "
        "sensitivity values; both arrangements; every point is visited again after model.parameters was re-assigned and once more "
        "after the first values were restored (history independence); a point case is non-trivial when jacobian and grad both have a non-zero "
        "entry and nS*nP >= 2 (nS >= 2 for parameter-free models); an integrated case when the integration succeeded and "
        "some sensitivity exceeds 1e-3")
ASSUMPTIONS = ["PARTIAL: that the solution of the variational equations IS dx(t)/dtheta resp. dx(t)/dx0 (smooth dependence of ODE "
               "flows on parameters and initial values) is classical and not proved here; it is validated per run against finite "
               "differences of reference solutions",
               "aug_jacobian_is_derivative takes as hypotheses that jacobian/grad/diff_jacobian/grad_jacobian are the partial "
               "derivatives they are named after (C03) and that second partials commute (C^2 right-hand side); symmetry of "
               "diff_jacobian is re-checked exactly on every generated model",
               "scipy DOP853 at rtol=atol=1e-12 approximates the flow to ~1e-10 on the short horizons used"]
TRUSTED = ["harness generator, AST printer and interpreter", "Lean driver JSON codec and list<->function glue (Sens.ofList/toList)",
           "numpy float arithmetic within the stated tolerances"]


# ---------------------------------------------------------------------------------------------------------
def _rat(rng, lo, hi, dens=(1, 2, 3, 4)):
    d = rng.choice(dens)
    return Fraction(rng.randint(lo * d, hi * d), d)


def make_point_case(r, nP0=False, backend="lambda"):
    spec, meta = gen.gen_model(r, allow_time=False, min_events=1, max_states=5, max_params=5)
    env = gen.rand_point(r, meta)
    if nP0:
        vals = {p: env[p] for p in meta["params"]}
        spec = subst_params(spec, vals)
        spec["param"] = {"list": []}
        meta = dict(meta, params=[])
    nS, nP = len(meta["states"]), len(meta["params"])
    nz = nS * nP + nS * nS
    return {"kind": "point", "spec": spec, "meta": {"states": meta["states"], "params": meta["params"], "kinds": meta["kinds"]},
            "point": {k: str(v) for k, v in env.items() if not (nP0 and k not in meta["states"] and k != "t")},
            "svals": [str(_rat(r, -3, 3)) for _ in range(nz)], "nP0": nP0, "backend": backend}


def make_int_case(r, nP0=False):
    spec, meta = gen.gen_model(r, allow_time=False, min_events=1, min_states=1, max_states=4, max_params=4, max_mag=2,
                               kinds=[("linear", 4), ("mass", 3), ("saturating", 2), ("exponential", 1)])
    env = {}
    for s in meta["states"]:
        env[s] = Fraction(r.randint(5, 20), 10)
    for p in meta["params"]:
        env[p] = Fraction(r.randint(5, 60), 100)
    env["t"] = Fraction(0)
    if nP0:
        spec = subst_params(spec, {p: env[p] for p in meta["params"]})
        spec["param"] = {"list": []}
        meta = dict(meta, params=[])
    return {"kind": "integrated", "spec": spec, "meta": {"states": meta["states"], "params": meta["params"], "kinds": meta["kinds"]},
            "point": {k: str(v) for k, v in env.items() if k in meta["states"] or k in meta["params"] or k == "t"},
            "T": r.choice([0.5, 1.0]), "by_state": r.random() < 0.3, "nP0": nP0}


def make_cases(rng, tier, budget):
    cases = []
    for i in range(budget["points"]):
        cases.append(make_point_case(random.Random(rng.getrandbits(64)), backend="cython" if i < budget["cython"] else "lambda"))
    for i in range(budget["nP0"]):
        cases.append(make_point_case(random.Random(rng.getrandbits(64)), nP0=True))
    for i in range(budget["integrated"]):
        cases.append(make_int_case(random.Random(rng.getrandbits(64)), nP0=(i % 7 == 6)))
    return cases


def search_cases(rng, tier, budget):
    return [make_point_case(random.Random(rng.getrandbits(64))) for _ in range(3 * budget["points"])]


# ---------------------------------------------------------------------------------------------------------
def expected_rhs(nS, nP, f, J, G, z, by_state):
    """the documented layout, written with explicit loops (direct oracle)"""
    out = np.zeros(nS + nS * nP)
    out[:nS] = f
    for i in range(nS):
        for k in range(nP):
            if by_state:
                acc = G[i][k] + sum(J[i][l] * z[nS + l * nP + k] for l in range(nS))
                out[nS + i * nP + k] = acc
            else:
                acc = G[i][k] + sum(J[i][l] * z[nS + k * nS + l] for l in range(nS))
                out[nS + k * nS + i] = acc
    return out


def expected_rhs_iv(nS, nP, f, J, G, z):
    out = np.zeros(nS + nS * nP + nS * nS)
    out[:nS + nS * nP] = expected_rhs(nS, nP, f, J, G, z, False)
    o = nS + nS * nP
    for i in range(nS):
        for k in range(nS):
            out[o + k * nS + i] = sum(J[i][l] * z[o + k * nS + l] for l in range(nS))
    return out


def _call(fn):
    try:
        return np.asarray(fn(), float), None
    except Exception as exc:   # the real code raising on a well-formed call is itself an observation
        return None, "%s: %s" % (type(exc).__name__, str(exc)[:160])


def _sig(base, nS, nP):
    s = base
    if nS == 1:
        s += ":nS=1"
    if nP == 0:
        s += ":nP=0"
    return s


def run_point(case):
    spec, meta = case["spec"], case["meta"]
    tags, mism, viol = [], [], []
    lr = lean_assemble(spec, derivs=True)
    model = pymodel.build(spec, backend=case.get("backend", "lambda"))
    states = [str(s) for s in model.state_list]
    params = [str(p) for p in model.param_list]
    if lr.get("err") is not None or states != lr["states"] or params != lr["params"]:
        mism.append({"what": "build", "detail": "lean %s python %s %s" % (json.dumps(lr)[:300], states, params)})
        return {"nontrivial": False, "mismatches": mism, "violations": viol, "tags": tags}
    nS, nP = len(states), len(params)
    env = {k: Fraction(v) for k, v in case["point"].items()}
    x = [float(env[s]) for s in states]
    th = [float(env[p]) for p in params]
    t = float(env["t"])
    if nP:
        model.parameters = th
    tags += ["nS=%d" % nS, "nP=%d" % nP, "backend:" + case.get("backend", "lambda")] + ["rate:" + k for k in set(meta["kinds"])]
    try:
        fq = [ev_frac(e, env) for e in lr["ode"]]
        Jq = [[ev_frac(e, env) for e in row] for row in lr["jac"]]
        Gq = [[ev_frac(e, env) for e in row] for row in lr["grad"]]
        DJq = [[ev_frac(e, env) for e in row] for row in lr["djac"]]
        GJq = [[ev_frac(e, env) for e in row] for row in lr["gjac"]]
    except E.Undefined:
        return {"nontrivial": False, "mismatches": mism, "violations": viol, "tags": tags + ["undefined_point"]}
    exact = not any(k in ("exponential", "periodic") for k in meta["kinds"])
    # hypothesis of aug_jacobian_is_derivative: second partials commute  (exact on rational models)
    for e in range(nS):
        for a in range(nS):
            for b in range(a):
                u, v = DJq[e * nS + a][b], DJq[e * nS + b][a]
                if (u != v) if exact else (abs(u - v) > Fraction(1, 10 ** 30) * (1 + abs(u))):
                    mism.append({"what": "diff_jacobian not symmetric (hypothesis hsym)", "detail": "f_%d: d2/dx%d dx%d = %s but d2/dx%d dx%d = %s" % (e, a, b, u, b, a, v)})
    sv = [Fraction(s) for s in case["svals"]]
    zq = [env[s] for s in states] + sv[:nS * nP]
    zivq = zq + sv[nS * nP:nS * nP + nS * nS]
    z = np.array([float(q) for q in zq]); ziv = np.array([float(q) for q in zivq])
    # the derivative objects of the real model at the point (tie of J, G, dJ, dG themselves; oracle inputs)
    Jn, e1 = _call(lambda: model.jacobian(x, t))
    Gn, e2 = _call(lambda: model.grad(x, t)) if nP else (np.zeros((nS, 0)), None)
    fn_, e3 = _call(lambda: model.ode(x, t))
    if e1 or e2 or e3:
        viol.append({"what": "ode/jacobian/grad raised: %s" % (e1 or e2 or e3), "signature": _sig("evaluator:raises", nS, nP), "detail": json.dumps(case["point"])})
        return {"nontrivial": False, "mismatches": mism, "violations": viol, "tags": tags}
    Jn = Jn.reshape(nS, nS); Gn = Gn.reshape(nS, nP); fn_ = fn_.ravel()
    scale = 1.0 + max([abs(float(v)) for row in Jq for v in row] + [abs(float(v)) for row in Gq for v in row] + [abs(float(v)) for v in fq])
    if not close_arr(Jn, to_float(fmat(Jq)) if nS else Jn, 1e-9, 1e-10 * scale):
        mism.append({"what": "jacobian(x,t) vs Lean jacobianEqn", "detail": worst(Jn, to_float(fmat(Jq)))})
    if nP and not close_arr(Gn, to_float(fmat(Gq)), 1e-9, 1e-10 * scale):
        mism.append({"what": "grad(x,t) vs Lean gradEqn", "detail": worst(Gn, to_float(fmat(Gq)))})
    DJn, e4 = _call(lambda: model.diff_jacobian(x, t))
    if e4 is None and nS >= 2 and not close_arr(DJn.reshape(nS * nS, nS), to_float(fmat(DJq)), 1e-9, 1e-10 * scale):
        mism.append({"what": "diff_jacobian(x,t) vs Lean diffJacobianEqn", "detail": worst(DJn.reshape(nS * nS, nS), to_float(fmat(DJq)))})
    if nP:
        GJn, e5 = _call(lambda: model.grad_jacobian(x, t))
        if e5 is None and nS >= 2 and not close_arr(GJn.reshape(nS * nP, nS), to_float(fmat(GJq)), 1e-9, 1e-10 * scale):
            mism.append({"what": "grad_jacobian(x,t) vs Lean gradJacobianEqn", "detail": worst(GJn.reshape(nS * nP, nS), to_float(fmat(GJq)))})

    zscale = 1.0 + float(np.max(np.abs(ziv)))
    rtol, atol = 1e-9, 1e-9 * scale * zscale
    common = {"nS": nS, "nP": nP, "f": fvec(fq), "J": fmat(Jq), "G": fmat(Gq)}
    jcommon = {"nS": nS, "nP": nP, "J": fmat(Jq), "GJ": fmat(GJq), "DJ": fmat(DJq)}

    def check_rhs(name, real_fn, lean_out, expect, sigbase):
        got, err = _call(real_fn)
        if err:
            viol.append({"what": "%s raised %s" % (name, err), "signature": _sig(sigbase + ":raises", nS, nP), "detail": json.dumps(case["point"])})
            return
        lo = to_float(lean_out)
        if not close_arr(got.ravel(), lo, rtol, atol):
            mism.append({"what": name + " vs Lean layout", "detail": worst(got.ravel(), lo)})
        if not close_arr(got.ravel(), expect, 1e-8, 1e-8 * scale * zscale):
            viol.append({"what": "%s is not (f, J.S+G%s) in the documented layout" % (name, ", J.S0" if "IV" in name else ""),
                         "signature": _sig(sigbase, nS, nP), "detail": worst(got.ravel(), expect) + " nS=%d nP=%d" % (nS, nP)})

    def check_jac(name, real_jac, real_rhs, zz, lean_variants, sigbase):
        got, err = _call(real_jac)
        if err:
            viol.append({"what": "%s raised %s" % (name, err), "signature": _sig(sigbase + ":raises", nS, nP), "detail": json.dumps(case["point"])})
            return
        n = len(zz)
        got = got.reshape(n, n) if got.size == n * n else got
        matched = None
        for vname, thunk in lean_variants:
            lo = to_float(thunk()).reshape(n, n)
            if close_arr(got, lo, rtol, atol):
                matched = vname
                break
        if matched is None:
            mism.append({"what": name + " vs Lean layout", "detail": worst(got, to_float(lean_variants[0][1]()).reshape(n, n))})
        else:
            tags.append("%s:model-variant=%s" % (sigbase, matched))
        fd, f0 = richardson_jac(lambda w: np.asarray(real_rhs(w), float).ravel(), zz)
        tol_abs = 1e-6 * (1.0 + float(np.max(np.abs(f0))) + float(np.max(np.abs(fd))))
        if not close_arr(got, fd, 1e-6, tol_abs):
            viol.append({"what": "%s is not the derivative of its right-hand side (finite differences of the real function)" % name,
                         "signature": _sig(sigbase, nS, nP), "detail": worst(got, fd) + " nS=%d nP=%d" % (nS, nP)})

    if nP >= 1:
        for bs in (False, True):
            arr = "by_state" if bs else "by_parameter"
            check_rhs("ode_and_sensitivity(z,t,by_state=%s)" % bs, lambda: model.ode_and_sensitivity(z, t, bs),
                      layout("odeAndSensitivity", z=fvec(zq), byState=bs, **common),
                      expected_rhs(nS, nP, fn_, Jn, Gn, z, bs), "sens-rhs:" + arr)
            variants = [("as-coded", lambda bs=bs: layout("odeAndSensitivityJacobian", z=fvec(zq), byState=bs, **jcommon))]
            if bs:
                variants.append(("repaired", lambda: layout("odeAndSensitivityJacobianByStateRepaired", z=fvec(zq), **jcommon)))
            check_jac("ode_and_sensitivity_jacobian(z,t,by_state=%s)" % bs, lambda: model.ode_and_sensitivity_jacobian(z, t, bs),
                      lambda w: model.ode_and_sensitivity(w, t, bs), z, variants, "aug-jacobian:" + arr)
    else:
        tags.append("nP=0:ode_and_sensitivity-not-applicable")
    check_rhs("ode_and_sensitivityIV(z,t)", lambda: model.ode_and_sensitivityIV(ziv, t),
              layout("odeAndSensitivityIV", z=fvec(zivq), **common), expected_rhs_iv(nS, nP, fn_, Jn, Gn, ziv), "IV-rhs")
    check_jac("ode_and_sensitivityIV_jacobian(z,t)", lambda: model.ode_and_sensitivityIV_jacobian(ziv, t),
              lambda w: model.ode_and_sensitivityIV(w, t), ziv,
              [("as-coded", lambda: layout("odeAndSensitivityIVJacobian", z=fvec(zivq), **jcommon))], "aug-jacobian:IV")
    # ---- revisit: the same point (z, t) after the parameters were re-assigned, then after they were restored.
    # The augmented right-hand sides and their Jacobians are functions of (z, t) and the CURRENT parameter values
    # only (in the Lean model they are pure functions); anything remembered from an earlier call at the same
    # point (a memo keyed on state and time, a cached J, G or S) shows here and nowhere else.
    if nP >= 1 and not viol:
        first = {}
        for bs in (False, True):
            first[("rhs", bs)] = _call(lambda: model.ode_and_sensitivity(z, t, bs))[0]
            first[("jac", bs)] = _call(lambda: model.ode_and_sensitivity_jacobian(z, t, bs))[0]
        first[("rhsIV",)] = _call(lambda: model.ode_and_sensitivityIV(ziv, t))[0]
        first[("jacIV",)] = _call(lambda: model.ode_and_sensitivityIV_jacobian(ziv, t))[0]
        env2 = dict(env)
        for k, pn in enumerate(params):
            env2[pn] = env[pn] * Fraction(3 + (k % 3), 2) + Fraction(1, 7 + k)
        try:
            fq2 = [ev_frac(e, env2) for e in lr["ode"]]
            Jq2 = [[ev_frac(e, env2) for e in row] for row in lr["jac"]]
            Gq2 = [[ev_frac(e, env2) for e in row] for row in lr["grad"]]
            DJq2 = [[ev_frac(e, env2) for e in row] for row in lr["djac"]]
            GJq2 = [[ev_frac(e, env2) for e in row] for row in lr["gjac"]]
        except (E.Undefined, ZeroDivisionError):
            fq2 = None
            tags.append("revisit:undefined_point")
        if fq2 is not None:
            tags.append("revisit")
            model.parameters = [float(env2[pn]) for pn in params]
            J2, _e1 = _call(lambda: model.jacobian(x, t)); G2, _e2 = _call(lambda: model.grad(x, t)); f2, _e3 = _call(lambda: model.ode(x, t))
            if not (_e1 or _e2 or _e3):
                J2 = J2.reshape(nS, nS); G2 = G2.reshape(nS, nP); f2 = f2.ravel()
                scale2 = 1.0 + max([abs(float(v)) for row in Jq2 for v in row] + [abs(float(v)) for row in Gq2 for v in row] + [abs(float(v)) for v in fq2])
                atol2 = 1e-9 * scale2 * zscale
                common2 = {"nS": nS, "nP": nP, "f": fvec(fq2), "J": fmat(Jq2), "G": fmat(Gq2)}
                jcommon2 = {"nS": nS, "nP": nP, "J": fmat(Jq2), "GJ": fmat(GJq2), "DJ": fmat(DJq2)}

                def again(name, real_fn, lean_thunks, expect, sig):
                    got, err = _call(real_fn)
                    if err:
                        viol.append({"what": "%s raised %s after the parameters were re-assigned" % (name, err),
                                     "signature": _sig(sig + ":revisit:raises", nS, nP), "detail": json.dumps(case["point"])})
                        return
                    if not any(close_arr(got.ravel(), to_float(th_()).ravel(), rtol, atol2) for th_ in lean_thunks):
                        mism.append({"what": name + " vs Lean layout, same point after a parameter re-assignment",
                                     "detail": worst(got.ravel(), to_float(lean_thunks[0]()).ravel())})
                    if expect is not None and not close_arr(got.ravel(), expect, 1e-8, 1e-8 * scale2 * zscale):
                        viol.append({"what": "%s evaluated again at the same (z,t) after model.parameters was re-assigned is not "
                                             "(f, J.S+G) for the new parameter values" % name,
                                     "signature": _sig(sig + ":revisit", nS, nP), "detail": worst(got.ravel(), expect) + " nS=%d nP=%d" % (nS, nP)})

                for bs in (False, True):
                    arr = "by_state" if bs else "by_parameter"
                    again("ode_and_sensitivity(z,t,by_state=%s)" % bs, lambda: model.ode_and_sensitivity(z, t, bs),
                          [lambda bs=bs: layout("odeAndSensitivity", z=fvec(zq), byState=bs, **common2)],
                          expected_rhs(nS, nP, f2, J2, G2, z, bs), "sens-rhs:" + arr)
                    jv = [lambda bs=bs: layout("odeAndSensitivityJacobian", z=fvec(zq), byState=bs, **jcommon2)]
                    if bs:
                        jv.append(lambda: layout("odeAndSensitivityJacobianByStateRepaired", z=fvec(zq), **jcommon2))
                    fd, f0 = richardson_jac(lambda w, bs=bs: np.asarray(model.ode_and_sensitivity(w, t, bs), float).ravel(), z)
                    gotj, errj = _call(lambda: model.ode_and_sensitivity_jacobian(z, t, bs))
                    again("ode_and_sensitivity_jacobian(z,t,by_state=%s)" % bs, lambda: model.ode_and_sensitivity_jacobian(z, t, bs), jv, None,
                          "aug-jacobian:" + arr)
                    if errj is None and not close_arr(gotj.reshape(fd.shape), fd, 1e-6, 1e-6 * (1.0 + float(np.max(np.abs(f0))) + float(np.max(np.abs(fd))))):
                        viol.append({"what": "ode_and_sensitivity_jacobian(z,t,by_state=%s) evaluated again at the same (z,t) after model.parameters "
                                             "was re-assigned is not the derivative of its right-hand side" % bs,
                                     "signature": _sig("aug-jacobian:%s:revisit" % arr, nS, nP), "detail": worst(gotj.reshape(fd.shape), fd)})
                again("ode_and_sensitivityIV(z,t)", lambda: model.ode_and_sensitivityIV(ziv, t),
                      [lambda: layout("odeAndSensitivityIV", z=fvec(zivq), **common2)], expected_rhs_iv(nS, nP, f2, J2, G2, ziv), "IV-rhs")
                again("ode_and_sensitivityIV_jacobian(z,t)", lambda: model.ode_and_sensitivityIV_jacobian(ziv, t),
                      [lambda: layout("odeAndSensitivityIVJacobian", z=fvec(zivq), **jcommon2)], None, "aug-jacobian:IV")
                # back to the first parameter values: bit-for-bit what the first visit returned
                model.parameters = th
                back = {}
                for bs in (False, True):
                    back[("rhs", bs)] = _call(lambda: model.ode_and_sensitivity(z, t, bs))[0]
                    back[("jac", bs)] = _call(lambda: model.ode_and_sensitivity_jacobian(z, t, bs))[0]
                back[("rhsIV",)] = _call(lambda: model.ode_and_sensitivityIV(ziv, t))[0]
                back[("jacIV",)] = _call(lambda: model.ode_and_sensitivityIV_jacobian(ziv, t))[0]
                for key in first:
                    a, b = first[key], back[key]
                    if a is not None and b is not None and not np.array_equal(np.asarray(a), np.asarray(b)):
                        viol.append({"what": "%s at the same (z,t) with the same parameter values returns something else after an intermediate "
                                             "parameter re-assignment" % "/".join(str(k_) for k_ in key),
                                     "signature": _sig("history-dependent:" + str(key[0]), nS, nP), "detail": worst(np.asarray(a, float).ravel(), np.asarray(b, float).ravel())})
    # vec <-> mat helpers exactly
    if nP >= 1:
        from pygom.model import ode_utils
        s_int = list(range(1, nS * nP + 1))
        Mp = ode_utils.vecToMatSens(np.array(s_int), nS, nP).tolist()
        if Mp != [[int(Fraction(v)) for v in row] for row in layout("vecToMatSens", nS=nS, nP=nP, s=s_int)]:
            mism.append({"what": "vecToMatSens vs Lean", "detail": str(Mp)})
        back = ode_utils.matToVecSens(np.array(Mp), nS, nP).tolist()
        if back != s_int:
            viol.append({"what": "matToVecSens(vecToMatSens(s)) != s", "signature": "reshape-round-trip", "detail": str(back)})
        if back != [int(Fraction(v)) for v in layout("matToVecSens", nS=nS, nP=nP, S=Mp)]:
            mism.append({"what": "matToVecSens vs Lean", "detail": str(back)})
    nontriv = bool(np.any(Jn != 0)) and ((nP == 0 and nS >= 2) or (nP >= 1 and bool(np.any(Gn != 0)) and nS * nP >= 2))
    return {"nontrivial": nontriv, "mismatches": mism, "violations": viol, "tags": tags,
            "sample": {"spec": spec, "point": case["point"], "nS": nS, "nP": nP}}


def run_integrated(case):
    spec, meta = case["spec"], case["meta"]
    tags, mism, viol = [], [], []
    model = pymodel.build(spec, backend="lambda")
    states = [str(s) for s in model.state_list]
    params = [str(p) for p in model.param_list]
    nS, nP = len(states), len(params)
    env = {k: Fraction(v) for k, v in case["point"].items()}
    x0 = np.array([float(env[s]) for s in states]); th0 = np.array([float(env[p]) for p in params])
    T = float(case["T"]); ts = [T / 2, T]
    tags += ["integrated", "nS=%d" % nS, "nP=%d" % nP]

    def flow(th, x):
        if nP:
            model.parameters = list(th)
        return ref_solve(lambda t, y: np.asarray(model.ode(y, t), float).ravel(), x, 0.0, ts, max_norm=100.0)

    base = flow(th0, x0)
    if base is None:
        return {"nontrivial": False, "mismatches": mism, "violations": viol, "tags": tags + ["integration-skipped"]}
    # finite differences of reference solutions
    ok = True
    dth = np.zeros((len(ts), nS, nP)); dx0 = np.zeros((len(ts), nS, nS))
    for k in range(nP):
        def g(th):
            r = flow(th, x0)
            if r is None:
                raise FloatingPointError
            return r
        try:
            dth[:, :, k] = richardson_dir(g, th0, k, 1e-3 * max(0.1, abs(th0[k])))
        except FloatingPointError:
            ok = False
    for c in range(nS):
        def g(x):
            r = flow(th0, x)
            if r is None:
                raise FloatingPointError
            return r
        try:
            dx0[:, :, c] = richardson_dir(g, x0, c, 1e-3 * max(1.0, abs(x0[c])))
        except FloatingPointError:
            ok = False
    if not ok:
        return {"nontrivial": False, "mismatches": mism, "violations": viol, "tags": tags + ["integration-skipped"]}
    if max(float(np.max(np.abs(dth))) if nP else 0.0, float(np.max(np.abs(dx0)))) > 1e3:
        # close to a finite-time blow-up: neither the finite differences nor the integration are trustworthy to 1e-5
        return {"nontrivial": False, "mismatches": mism, "violations": viol, "tags": tags + ["ill-conditioned-skipped"]}
    if nP:
        model.parameters = list(th0)
    big = 0.0
    if nP >= 1:
        bs = bool(case.get("by_state"))
        z0 = np.append(x0, np.zeros(nS * nP))
        try:
            sol = ref_solve(lambda t, z: np.asarray(model.ode_and_sensitivity(z, t, bs), float).ravel(), z0, 0.0, ts, rtol=1e-11, atol=1e-12)
            err = None
        except Exception as exc:
            sol, err = None, "%s: %s" % (type(exc).__name__, str(exc)[:160])
        if err:
            viol.append({"what": "integrating ode_and_sensitivity raised " + err, "signature": _sig("integrated-sens:theta:raises", nS, nP), "detail": json.dumps(case["point"])})
        elif sol is None:
            tags.append("aug-integration-failed")
        else:
            S = np.zeros((len(ts), nS, nP))
            for i in range(nS):
                for k in range(nP):
                    S[:, i, k] = sol[:, nS + (i * nP + k if bs else k * nS + i)]
            tags.append("integrated:by_state" if bs else "integrated:by_parameter")
            big = max(big, float(np.max(np.abs(dth))))
            tol = 1e-5 * (1.0 + float(np.max(np.abs(dth))))
            if not close_arr(sol[:, :nS], base, 1e-7, 1e-7):
                viol.append({"what": "state block of the integrated augmented system differs from the solution of ode", "signature": _sig("integrated-sens:state-block", nS, nP), "detail": worst(sol[:, :nS], base)})
            if not close_arr(S, dth, 1e-5, tol):
                viol.append({"what": "integrated sensitivities differ from finite differences in theta of reference solutions",
                             "signature": _sig("integrated-sens:theta" + (":by_state" if bs else ""), nS, nP), "detail": worst(S, dth) + " [t, state, parameter]"})
    # initial-value system
    z0 = np.concatenate([x0, np.zeros(nS * nP), np.eye(nS).flatten("F")])
    try:
        sol = ref_solve(lambda t, z: np.asarray(model.ode_and_sensitivityIV(z, t), float).ravel(), z0, 0.0, ts, rtol=1e-11, atol=1e-12)
        err = None
    except Exception as exc:
        sol, err = None, "%s: %s" % (type(exc).__name__, str(exc)[:160])
    if err:
        viol.append({"what": "integrating ode_and_sensitivityIV raised " + err, "signature": _sig("integrated-sens:x0:raises", nS, nP), "detail": json.dumps(case["point"])})
    elif sol is None:
        tags.append("aug-integration-failed")
    else:
        S = np.zeros((len(ts), nS, nP)); S0 = np.zeros((len(ts), nS, nS))
        o = nS + nS * nP
        for i in range(nS):
            for k in range(nP):
                S[:, i, k] = sol[:, nS + k * nS + i]
            for c in range(nS):
                S0[:, i, c] = sol[:, o + c * nS + i]
        big = max(big, float(np.max(np.abs(dx0 - np.eye(nS)[None, :, :]))))
        if nP and not close_arr(S, dth, 1e-5, 1e-5 * (1.0 + float(np.max(np.abs(dth))))):
            viol.append({"what": "parameter block of the integrated initial-value system differs from finite differences in theta",
                         "signature": _sig("integrated-sens:theta:IV-system", nS, nP), "detail": worst(S, dth)})
        if not close_arr(S0, dx0, 1e-5, 1e-5 * (1.0 + float(np.max(np.abs(dx0))))):
            viol.append({"what": "integrated initial-value sensitivities differ from finite differences in x0 of reference solutions",
                         "signature": _sig("integrated-sens:x0", nS, nP), "detail": worst(S0, dx0) + " [t, state, initial state]"})
    return {"nontrivial": big > 1e-3, "mismatches": mism, "violations": viol, "tags": tags,
            "sample": {"spec": spec, "point": case["point"], "T": T}}


def run_case(case):
    if case.get("kind") == "integrated":
        return run_integrated(case)
    return run_point(case)
