"""
C13 - sensitivity systems are the variational equations of the model.   (PARTIAL: see ASSUMPTIONS)

Proof (lean/Pygom/Props/C13.lean, about lean/Pygom/Sens.lean): layouts of `ode_and_sensitivity` (both
arrangements) and `ode_and_sensitivityIV`; the assembled block Jacobians (by parameter, initial-value
system incl. nP = 0, and the repaired by-state matrix) are entry by entry the derivative of the augmented
right-hand side; the by-state matrix AS CODED is not (counterexample).  In the Lean model every one of these
is a PURE FUNCTION of its arguments `(z, f, J, G, DJ, GJ)`, i.e. of the mathematical point `(z, t)` and of the
derivative objects of the current definition at the current parameter values: nothing is remembered between
calls, instances do not interact, and the representation of `z` does not exist (`session_is_pure`,
`earlier_results_kept`, `revisit_reproduces`, `instances_do_not_interact` in Props/C13.lean).

Tie (this file), per random model and random point z:
 (a) real `ode_and_sensitivity(z,t,by_state)`, `ode_and_sensitivityIV(z,t)` and the `*_jacobian` against the
     Lean driver's `layout` run on the exact values of f, J, G, dJ, dG (the driver's own `assemble`
     derivative expressions evaluated at the point);
 (b) DIRECT ORACLE, no Lean: J.S+G written out with explicit index loops from model.jacobian/model.grad;
     the block Jacobians written out with explicit index loops from jacobian/diff_jacobian/grad_jacobian AND
     Richardson-extrapolated central differences of the REAL right-hand sides;
     integrated sensitivity columns (scipy DOP853 on the real augmented right-hand side) against finite
     differences in theta and x0 of reference solutions of pygom's `ode` (DOP853, rtol=atol=1e-12).
 (c) the same direct oracle applied along a SESSION on live instances (what purity means for the real code):
     * every entry point: the four primary ones, their `_T` twins (time first), `sensitivity`, `sensitivity_T`,
       `eval_sensitivity`, `sensitivityIV`, `sensitivityIV_T`, `eval_sensitivityIV`, `sens_jacobian_state`,
       `sens_jacobian_state_T`, `eval_sens_jacobian_state`;
     * input FORM: the point as float ndarray, list, tuple, list of numpy scalars, strided view, read-only array,
       and - for integer-valued points, among them the natural start of a sensitivity integration
       `[999, 1, 0, ...] + [0]*nS*nP (+ identity)` - int64/int32 ndarray, list/tuple of Python ints, list of numpy
       ints, object array; the time as Python float/int, numpy float/int scalar, 0-d array; each judged against
       the oracle for the same mathematical point;
     * HISTORY on one instance: same state at another time and back; a sibling instance evaluated at the same
       numbers in between; `parameters` re-assigned (list, tuple, ndarray, dict, partial dict) and restored;
       an event / transition / ODE term ADDED to the live model (judged against a fresh model of the final
       definition); the oracle's J, G, ... are taken before the session starts or from fresh instances so that
       the history under test contains only calls of the entry points;
     * SIBLINGS: same names with states and parameters declared in another order, another definition, one
       parameter fewer, or a `copy.deepcopy` of the configured instance with other parameter values;
     * every array RETURNED anywhere in the session is kept and compared with its value at return time after the
       last call; every ARGUMENT object is compared with its snapshot.
"""
import copy
import json
import random
from fractions import Fraction

import numpy as np

from .. import exprs as E
from .. import gen, pymodel
from .common import lean_assemble
from .senscommon import (close_arr, ev_frac, fmat, fvec, layout, ref_solve, richardson_dir, richardson_jac, subst_params,
                         to_float, worst)

PROP = "C13"
LEAN = {"module": "Pygom.Props.C13", "extra_modules": ["Pygom.Props.C13Link"],
        "required": ["Pygom.C13Link.diff_comm", "Pygom.C13Link.envOf_update", "Pygom.C13Link.envOf_update_ge",
                     "Pygom.C13Link.aug_jacobian_is_derivative_expr", "Pygom.C13Link.aug_jacobianIV_is_derivative_expr",
                     "Pygom.C13Link.aug_jacobian_by_state_repaired_is_derivative_expr",
                     "Pygom.C13Link.aug_jacobian_is_derivative_expr_at", "Pygom.C13Link.aug_jacobianIV_is_derivative_expr_at",
                     "Pygom.C13Link.aug_jacobian_by_state_repaired_is_derivative_expr_at",
                     "Pygom.C13.sens_layout", "Pygom.C13.sens_layout_by_state", "Pygom.C13.sensIV_layout",
                     "Pygom.C13.aug_jacobian_is_derivative", "Pygom.C13.aug_jacobianIV_is_derivative",
                     "Pygom.C13.aug_jacobian_by_state_repaired_is_derivative",
                     "Pygom.C13.aug_jacobian_by_state_counterexample", "Pygom.C13.aug_jacobian_by_state_as_coded_refuted",
                     "Pygom.C13.matToVecSens_vecToMatSens", "Pygom.C13.vecToMatSens_matToVecSens",
                     "Pygom.C13.session_is_pure", "Pygom.C13.earlier_results_kept", "Pygom.C13.revisit_reproduces",
                     "Pygom.C13.instances_do_not_interact", "Pygom.C13.memo_keyed_on_point_counterexample"]}
BUDGET = {"quick": {"points": 70, "timed": 16, "nP0": 10, "integrated": 20, "cython": 1, "scaled": 32},
          "thorough": {"points": 1600, "timed": 320, "nP0": 200, "integrated": 260, "cython": 6, "scaled": 640}}
RULE = ("random model definitions (1-5 states, 1-5 parameters and parameter-free variants, every rate kind, derived parameters, "
        "explicit ODE terms; `points`/`nP0` autonomous, `timed` with periodic rates) at a random rational state/parameter point with "
        "random rational sensitivity values; both arrangements.  Every point case is a SESSION on the live instance (counts in the tag "
        "histogram): all 6 primary entry points plus their `_T` twins and the component evaluators (`via=` tags); `form:*` - the same "
        "point in 5 further float containers and an integer-valued point (one in three the natural start [N,1,0..]+zeros(+identity)) in 8 "
        "containers incl. int64/int32 ndarray and lists/tuples of Python ints, each with a drawn form of t; `probe:revisit-time` - same "
        "state at another time and back; `probe:sibling:*` - a second live instance (permuted declaration order / other definition / one "
        "parameter fewer / deepcopy) evaluated at the same numbers in between; `probe:revisit` - model.parameters re-assigned "
        "(`reassign:*` form) and restored; `probe:revisit-definition:*` - an event, transition, birth/death or ODE term added to the live "
        "model, compared with a fresh model of the final definition; `probe:kept` - all returned arrays and all argument objects compared "
        "with their snapshots at the end.  `scaled` point cases (32 quick / 640 thorough; tags scale:<regime>, scale:sens=<scale>; the others "
        "carry scale:unit) put the same session on VALUE SCALES: the SIR(S) in absolute head counts (N = 1e5..1e9, beta = c/N, 1..250000 "
        "infected, waning 1/180 per day .. 1/10 years per second), random polynomial-rate models with parameters 1e-12..1e-5 at states "
        "1e4..1e10 (some states 0 / 1 / 1500), parameters 1e4..1e10 at states 1e-10..1e-4, per-second rates at O(1..4000) states, every "
        "value on its own scale 1e-10..1e11; sensitivity values O(1), x1e-9..1e-6, x1e6..1e9, mixed, or the natural start (S = 0, S0 = I); "
        "15% of them exactly 0.  EVERY value returned (all cases) is judged ENTRY BY ENTRY against the explicit index loops: "
        "|got - want| <= 1e-10*|want| + 1e-13*(sum of the absolute values of the products the entry is the sum of) - no floor tied to the "
        "size of the matrix or of the point (integer containers alone keep 1e-12 x size), so an entry of -5e-9 next to entries of 1e16 is "
        "compared as strictly as any other and a structurally zero entry must be exactly 0.  A point case is non-trivial when jacobian and grad both have a non-zero entry and nS*nP >= 2 "
        "(nS >= 2 for parameter-free models); an integrated case when the integration succeeded and some sensitivity exceeds 1e-3")
ASSUMPTIONS = ["PARTIAL: that the solution of the variational equations IS dx(t)/dtheta resp. dx(t)/dx0 (smooth dependence of ODE "
               "flows on parameters and initial values) is classical and not proved here; it is validated per run against finite "
               "differences of reference solutions",
               "aug_jacobian_is_derivative takes as hypotheses that jacobian/grad/diff_jacobian/grad_jacobian are the partial "
               "derivatives they are named after (C03) and that second partials commute (C^2 right-hand side); symmetry of "
               "diff_jacobian is re-checked exactly on every generated model",
               "scipy DOP853 at rtol=atol=1e-12 approximates the flow to ~1e-10 on the short horizons used",
               "tolerances: the direct oracle (explicit index loops) is entry-wise relative, 1e-10*|entry| + 1e-13*sum|terms|, three orders above "
               "the rounding bound (#terms+1)*2^-53*sum|terms| of a sum of products formed in any order; the finite-difference cross-check keeps its "
               "norm-based tolerance 1e-6*(1+max|rhs|+max|entry|) (it cannot resolve entries far below the largest one and is not asked to: it "
               "guards the oracle's inputs diff_jacobian / grad_jacobian on the entries it resolves); the Lean tie keeps a floor 1e-9 x size of "
               "(f,J,G) resp. (J,dJ/dx,dG/dx) x size of the point, because exact rationals do not tell how much cancellation happened inside an "
               "entry of the float J, G - so a wrong entry far below the largest one shows as a VIOLATION without a mismatch; the integrated "
               "cases (O(1) models, sensitivities O(1e-3..1e3)) keep 1e-5 relative to the largest sensitivity, the accuracy of the finite "
               "differences of reference solutions they are compared with",
               "the direct oracle's inputs f, J, G, dJ/dx, dG/dx are the real evaluators called with float ndarrays (C03's subject), "
               "taken before the session or from fresh instances; float32 containers are not judged (numpy computes parts of the "
               "right-hand side in single precision: 1e-8 relative, inside no stated tolerance)"]
TRUSTED = ["harness generator, AST printer and interpreter", "Lean driver JSON codec and list<->function glue (Sens.ofList/toList)",
           "numpy float arithmetic within the stated tolerances"]

ARR = {False: "by_parameter", True: "by_state"}
# containers the unchanged pygom accepts for the augmented point (established on the unchanged tree; a form it accepts
# must give right answers, so an exception on any of these is a violation)
FLOAT_FORMS = ["ndarray", "list", "tuple", "list-npfloat", "strided", "readonly"]
INT_FORMS = ["ndarray", "int64", "int32", "list-int", "tuple-int", "list-npint", "object-int", "list"]
T_FORMS = ["float", "npfloat", "0d"]
T_FORMS_INT = ["float", "npfloat", "0d", "int", "npint"]
REASSIGN_FORMS = ["list", "tuple", "ndarray", "dict", "partial-dict"]
PRIMARY_NAME = {"rhs": "ode_and_sensitivity", "jac": "ode_and_sensitivity_jacobian", "rhsIV": "ode_and_sensitivityIV",
                "jacIV": "ode_and_sensitivityIV_jacobian"}


# ---------------------------------------------------------------------------------------------------------
def _rat(rng, lo, hi, dens=(1, 2, 3, 4)):
    d = rng.choice(dens)
    return Fraction(rng.randint(lo * d, hi * d), d)


def gen_extra_op(r, states, params, kinds=None):
    """something added to the live model later: an event, a legacy transition / birth-death, or an explicit ODE term,
    with a rate that is not linear in the states (so that J, dJ/dx and dG/dx all change)"""
    kinds = kinds or [("mass", 4), ("saturating", 2), ("linear", 1)]
    how = r.choice(["add_event", "add_event", "add_ode", "add_legacy"])
    if how == "add_ode":
        _, rate = gen.gen_rate(r, states, params, kinds)
        if r.random() < 0.5:
            rate = E.neg(rate)
        return {"op": "add_ode", "t": {"type": "ODE", "origin": r.choice(states), "dest": None, "mag": E.num(1), "eq": rate}}
    proc = gen.gen_processes(r, states, params, 1, kinds, max_trans=(1 if how == "add_legacy" else 2), sym_mag=False, max_mag=2)[0]
    if how == "add_legacy":
        tr = proc["transitions"][0]
        return {"op": "add_transition" if tr["type"] == "T" else "add_birth_death", "t": gen.transition_json(tr, proc["rate"])}
    return {"op": "add_event", "rate": proc["rate"], "transitions": [gen.transition_json(t) for t in proc["transitions"]]}


def gen_probes(r, states, params, tq, nP0_values=None, extra_kinds=None):
    """everything the session needs beyond the model and the first point; drawn from the case's own generator so that
    the case JSON determines the whole session"""
    nS, nP = len(states), len(params)
    pr = {}
    # integer-valued point
    if r.random() < 0.34:
        xs = [r.choice([999, 999, 500, 120, 3000000]), 1] + [0] * nS
        xi = xs[:nS]
        ip = {"x": xi, "s": [0] * (nS * nP), "s0": [1 if a == b else 0 for b in range(nS) for a in range(nS)], "t": 0, "natural": True}
    else:
        ip = {"x": [r.choice([0, 1, 2, 3, 5, 8, 13, 40]) for _ in range(nS)], "s": [r.randint(-3, 3) for _ in range(nS * nP)],
              "s0": [r.randint(-2, 2) for _ in range(nS * nS)], "t": r.randint(0, 3), "natural": False}
    pr["ipoint"] = ip
    forms = [["P", c, r.choice(T_FORMS)] for c in FLOAT_FORMS[1:]]
    forms += [["I", c, r.choice(T_FORMS_INT)] for c in INT_FORMS]
    r.shuffle(forms)
    pr["forms"] = forms
    pr["secondary_tform"] = r.choice(T_FORMS)
    pr["t2"] = str(Fraction(tq) + Fraction(r.choice([1, 2, 3, 4, 5, 7]), 12))
    pr["reassign"] = r.choice(REASSIGN_FORMS)
    pr["reassign_keep"] = [r.random() < 0.5 for _ in range(nP)]        # partial dict: parameters left as they are
    if nP and all(pr["reassign_keep"]):
        pr["reassign_keep"][r.randrange(nP)] = False
    extra = gen_extra_op(r, states, params or ["_c0"], extra_kinds)
    if nP0_values is not None:
        extra = subst_params(extra, dict(nP0_values, _c0=Fraction(1, 3)))
    elif not params:
        extra = subst_params(extra, {"_c0": Fraction(1, 3)})
    pr["extra"] = extra
    pr["extend"] = True
    variants = ["permuted", "other-definition", "deepcopy"] + (["fewer-params"] if nP >= 2 else [])
    ps, pp = list(range(nS)), list(range(nP))
    r.shuffle(ps); r.shuffle(pp)
    pr["sibling"] = {"variant": r.choice(variants), "perm_states": ps, "perm_params": pp, "drop": r.randrange(nP) if nP else 0,
                     "values": [str(Fraction(r.randint(1, 20), r.choice([7, 10, 13]))) for _ in range(nP)]}
    return pr


def make_point_case(r, nP0=False, backend="lambda", timed=False):
    if timed:
        spec, meta = gen.gen_model(r, allow_time=True, min_events=1, max_states=5, max_params=5,
                                   kinds=[("linear", 2), ("mass", 3), ("saturating", 2), ("exponential", 1), ("periodic", 5)])
    else:
        spec, meta = gen.gen_model(r, allow_time=False, min_events=1, max_states=5, max_params=5)
    env = gen.rand_point(r, meta)
    vals = None
    if nP0:
        vals = {p: env[p] for p in meta["params"]}
        spec = subst_params(spec, vals)
        spec["param"] = {"list": []}
        meta = dict(meta, params=[])
    nS, nP = len(meta["states"]), len(meta["params"])
    nz = nS * nP + nS * nS
    case = {"kind": "point", "spec": spec, "meta": {"states": meta["states"], "params": meta["params"], "kinds": meta["kinds"]},
            "point": {k: str(v) for k, v in env.items() if not (nP0 and k not in meta["states"] and k != "t")},
            "svals": [str(_rat(r, -3, 3)) for _ in range(nz)], "nP0": nP0, "backend": backend}
    case["probes"] = gen_probes(r, meta["states"], meta["params"], env["t"], vals)
    return case


# ---- value scales ------------------------------------------------------------------------------------------------
# The points above are O(1).  A model written in absolute head counts has per-capita rates of 1e-9 next to states of 1e8, one in
# per-second units has rates of 3e-9, and the augmented Jacobian then has genuine entries of 5e-9 next to entries of 1e16
# (d/dS of f_S = -beta*S*I is -beta*I; d/dx of G = S*I is 1e8).  In Sens.lean the entries are elements of a commutative ring and
# `aug_jacobian_is_derivative` holds for every value: nothing in the model knows a "small" number.  The direct oracle therefore
# judges every entry RELATIVELY (entry_close) and the generated points below cover the scales.
SCALE_REGIMES = [("headcount-sir", 3), ("tiny-params-huge-states", 4), ("huge-params-tiny-states", 3), ("per-second", 2), ("mixed", 3)]
POLY_KINDS = [("linear", 3), ("mass", 5)]


def _mant(r):
    return Fraction(r.randint(1, 99), r.choice([1, 10, 10, 7, 3]))


def _pow10(r, lo, hi):
    e = r.randint(lo, hi)
    return Fraction(10) ** e if e >= 0 else Fraction(1, 10 ** (-e))


def make_scaled_case(r):
    """a point case whose parameters / states / sensitivity values live on very different scales (polynomial rates: the
    right-hand side is at most quadratic in z, so the finite differences stay meaningful at any step)"""
    regime = gen.wchoice(r, SCALE_REGIMES)
    if regime == "headcount-sir":
        abstract = {"decl_states": ["S", "I", "R"], "states": ["S", "I", "R"], "params": ["beta", "gamma"], "derived": [], "lims": None, "odes": [],
                    "procs": [{"rate": E.mul(E.mul(E.var("beta"), E.var("S")), E.var("I")), "kind": "mass",
                               "transitions": [{"type": "T", "origin": "S", "dest": "I", "mag": E.num(1)}]},
                              {"rate": E.mul(E.var("gamma"), E.var("I")), "kind": "linear",
                               "transitions": [{"type": "T", "origin": "I", "dest": "R", "mag": E.num(1)}]}]}
        if r.random() < 0.5:
            abstract["params"].append("mu")          # waning immunity R -> S, per second or per day
            abstract["procs"].append({"rate": E.mul(E.var("mu"), E.var("R")), "kind": "linear",
                                      "transitions": [{"type": "T", "origin": "R", "dest": "S", "mag": E.num(1)}]})
        spec, meta = gen.make_spec(r, abstract, gen.ALL_ROUTES)
        N = Fraction(10) ** r.randint(5, 9)
        i0 = Fraction(r.choice([1, 1, 10, 1500, 250000]))
        r0 = Fraction(r.choice([0, 0, 500, 100000]))
        env = {"S": N - i0 - r0, "I": i0, "R": r0, "beta": Fraction(r.choice([3, 5, 12, 25]), 10) / N,
               "gamma": Fraction(1, r.choice([3, 5, 7, 14])), "mu": Fraction(1, r.choice([180, 3650, 315360000])), "t": Fraction(r.randint(0, 36), 12)}
    else:
        spec, meta = gen.gen_model(r, allow_time=False, min_events=1, min_states=2, max_states=5, max_params=4, kinds=POLY_KINDS)
        env = {}
        for s_ in meta["states"]:
            if regime == "tiny-params-huge-states":
                v = _mant(r) * _pow10(r, 5, 8) if r.random() < 0.6 else Fraction(r.choice([0, 1, 1, 7, 1500]))
            elif regime == "huge-params-tiny-states":
                v = _mant(r) * _pow10(r, -9, -6)
            elif regime == "per-second":
                v = Fraction(r.randint(1, 4000), r.choice([1, 2, 3]))
            else:
                v = _mant(r) * _pow10(r, -9, 9)
            env[s_] = v
        for p_ in meta["params"]:
            if regime in ("tiny-params-huge-states", "per-second"):
                v = _mant(r) * _pow10(r, -11, -7)
            elif regime == "huge-params-tiny-states":
                v = _mant(r) * _pow10(r, 5, 8)
            else:
                v = _mant(r) * _pow10(r, -9, 9)
            env[p_] = v
        env["t"] = Fraction(r.randint(0, 36), 12)
    nS, nP = len(meta["states"]), len(meta["params"])
    sscale = r.choice(["unit", "tiny", "huge", "mixed", "zero-start"])
    svals = []
    for _ in range(nS * nP + nS * nS):
        if sscale == "zero-start" or r.random() < 0.15:
            v = Fraction(0)
        else:
            v = _rat(r, -3, 3)
            if sscale == "tiny":
                v *= _pow10(r, -9, -6)
            elif sscale == "huge":
                v *= _pow10(r, 6, 9)
            elif sscale == "mixed":
                v *= _pow10(r, -9, 9)
        svals.append(v)
    if sscale == "zero-start":
        # the natural start of the initial-value system: S = 0, S0 = identity
        for a in range(nS):
            svals[nS * nP + a * nS + a] = Fraction(1)
    case = {"kind": "point", "spec": spec, "meta": {"states": meta["states"], "params": meta["params"], "kinds": meta["kinds"]},
            "point": {k: str(v) for k, v in env.items() if k in meta["states"] or k in meta["params"] or k == "t"},
            "svals": [str(v) for v in svals], "nP0": False, "backend": "lambda", "scaled": {"regime": regime, "sens": sscale}}
    case["probes"] = gen_probes(r, meta["states"], meta["params"], env["t"], None, extra_kinds=POLY_KINDS)
    # a shorter session than the O(1) cases: two further float containers, the integer point in three
    fl = [f for f in case["probes"]["forms"] if f[0] == "P"][:2]
    it = [f for f in case["probes"]["forms"] if f[0] == "I"][:3]
    case["probes"]["forms"] = fl + it
    return case


def make_int_case(r, nP0=False):
    spec, meta = gen.gen_model(r, allow_time=False, min_events=1, min_states=1, max_states=4, max_params=4, max_mag=2,
                               kinds=[("linear", 4), ("mass", 3), ("saturating", 2), ("exponential", 1)])
    env = {}
    for s in meta["states"]:
        env[s] = Fraction(r.randint(5, 20), 10)
    for p in meta["params"]:
        env[p] = Fraction(r.randint(5, 60), 100)
    env["t"] = Fraction(0)
    if nP0:
        spec = subst_params(spec, {p: env[p] for p in meta["params"]})
        spec["param"] = {"list": []}
        meta = dict(meta, params=[])
    return {"kind": "integrated", "spec": spec, "meta": {"states": meta["states"], "params": meta["params"], "kinds": meta["kinds"]},
            "point": {k: str(v) for k, v in env.items() if k in meta["states"] or k in meta["params"] or k == "t"},
            "T": r.choice([0.5, 1.0]), "by_state": r.random() < 0.3, "nP0": nP0,
            # secondary entry points: the `_T` twins are what scipy's solve_ivp takes directly
            "entry": r.choice(["plain", "T"])}


def make_cases(rng, tier, budget):
    cases = []
    for i in range(budget["points"]):
        cy = i < budget["cython"]
        c = make_point_case(random.Random(rng.getrandbits(64)), backend="cython" if cy else "lambda")
        if cy and tier == "quick":
            c["probes"]["extend"] = False          # re-compiling five cython evaluators costs ~30 s: thorough tier only
        cases.append(c)
    for i in range(budget["nP0"]):
        cases.append(make_point_case(random.Random(rng.getrandbits(64)), nP0=True))
    for i in range(budget["integrated"]):
        cases.append(make_int_case(random.Random(rng.getrandbits(64)), nP0=(i % 7 == 6)))
    for i in range(budget.get("timed", 0)):
        cases.append(make_point_case(random.Random(rng.getrandbits(64)), timed=True))
    for i in range(budget.get("scaled", 0)):
        cases.append(make_scaled_case(random.Random(rng.getrandbits(64))))
    return cases


def search_cases(rng, tier, budget):
    out = [make_point_case(random.Random(rng.getrandbits(64)), timed=(i % 4 == 3)) for i in range(3 * budget["points"])]
    return out + [make_scaled_case(random.Random(rng.getrandbits(64))) for _ in range(3 * budget.get("scaled", 0))]


# ---------------------------------------------------------------------------------------------------------
# direct oracle: explicit index loops
def expected_rhs(nS, nP, f, J, G, z, by_state):
    """the documented layout, written with explicit loops (direct oracle).  Returns (values, magnitudes): the magnitude of an
    entry is the sum of the absolute values of the terms it is the sum of - what its rounding error is proportional to"""
    out = np.zeros(nS + nS * nP)
    mag = np.zeros(nS + nS * nP)
    out[:nS] = f
    mag[:nS] = np.abs(f)
    for i in range(nS):
        for k in range(nP):
            terms = [G[i][k]] + [J[i][l] * z[nS + (l * nP + k if by_state else k * nS + l)] for l in range(nS)]
            r = nS + (i * nP + k if by_state else k * nS + i)
            out[r] = sum(terms)
            mag[r] = sum(abs(v) for v in terms)
    return out, mag


def expected_rhs_iv(nS, nP, f, J, G, z):
    out = np.zeros(nS + nS * nP + nS * nS)
    mag = np.zeros(nS + nS * nP + nS * nS)
    out[:nS + nS * nP], mag[:nS + nS * nP] = expected_rhs(nS, nP, f, J, G, z, False)
    o = nS + nS * nP
    for i in range(nS):
        for k in range(nS):
            terms = [J[i][l] * z[o + k * nS + l] for l in range(nS)]
            out[o + k * nS + i] = sum(terms)
            mag[o + k * nS + i] = sum(abs(v) for v in terms)
    return out, mag


def expected_gs(nS, nP, DJ, z):
    """d/dx_c of (J.S)[i][k], by parameter: row k*nS+i, column c;  DJ[i*nS+l][c] = d2 f_i / dx_l dx_c"""
    out = np.zeros((nS * nP, nS))
    mag = np.zeros((nS * nP, nS))
    for k in range(nP):
        for i in range(nS):
            for c in range(nS):
                terms = [DJ[i * nS + l][c] * z[nS + k * nS + l] for l in range(nS)]
                out[k * nS + i, c] = sum(terms)
                mag[k * nS + i, c] = sum(abs(v) for v in terms)
    return out, mag


def expected_jac(nS, nP, J, DJ, GJ, z, by_state):
    """entry (r, c) = d(component r of the augmented right-hand side)/d z_c, written out;  GJ[k*nS+i][c] = d G[i][k] / dx_c"""
    n = nS + nS * nP
    out = np.zeros((n, n))
    mag = np.zeros((n, n))
    out[:nS, :nS] = J
    mag[:nS, :nS] = np.abs(J)
    for i in range(nS):
        for k in range(nP):
            r = nS + (i * nP + k if by_state else k * nS + i)
            for c in range(nS):
                terms = [GJ[k * nS + i][c]] + [DJ[i * nS + l][c] * z[nS + (l * nP + k if by_state else k * nS + l)] for l in range(nS)]
                out[r, c] = sum(terms)
                mag[r, c] = sum(abs(v) for v in terms)
            for l in range(nS):
                out[r, nS + (l * nP + k if by_state else k * nS + l)] = J[i][l]
                mag[r, nS + (l * nP + k if by_state else k * nS + l)] = abs(J[i][l])
    return out, mag


def expected_jac_iv(nS, nP, J, DJ, GJ, z):
    o = nS + nS * nP
    n = o + nS * nS
    out = np.zeros((n, n))
    mag = np.zeros((n, n))
    out[:o, :o], mag[:o, :o] = expected_jac(nS, nP, J, DJ, GJ, z, False)
    for i in range(nS):
        for k in range(nS):
            r = o + k * nS + i
            for c in range(nS):
                terms = [DJ[i * nS + l][c] * z[o + k * nS + l] for l in range(nS)]
                out[r, c] = sum(terms)
                mag[r, c] = sum(abs(v) for v in terms)
            for l in range(nS):
                out[r, o + k * nS + l] = J[i][l]
                mag[r, o + k * nS + l] = abs(J[i][l])
    return out, mag


def expected_all(nS, nP, D, z, ziv):
    """every observable of one mathematical point from the oracle inputs D = (f, J, G, DJ, GJ):
    kind -> value, and "mag:"+kind -> the entry-wise magnitudes (see expected_rhs)"""
    f, J, G, DJ, GJ = D["f"], D["J"], D["G"], D["DJ"], D["GJ"]
    ex = {}
    if nP >= 1:
        for bs in (False, True):
            a = ARR[bs]
            ex["rhs:" + a], ex["mag:rhs:" + a] = expected_rhs(nS, nP, f, J, G, z, bs)
            ex["sens:" + a], ex["mag:sens:" + a] = ex["rhs:" + a][nS:], ex["mag:rhs:" + a][nS:]
            ex["jac:" + a], ex["mag:jac:" + a] = expected_jac(nS, nP, J, DJ, GJ, z, bs)
        ex["gs"], ex["mag:gs"] = expected_gs(nS, nP, DJ, z)
    ex["rhsIV"], ex["mag:rhsIV"] = expected_rhs_iv(nS, nP, f, J, G, ziv)
    ex["sensIV"], ex["mag:sensIV"] = ex["rhsIV"][nS:], ex["mag:rhsIV"][nS:]
    ex["jacIV"], ex["mag:jacIV"] = expected_jac_iv(nS, nP, J, DJ, GJ, ziv)
    return ex


# THE JUDGE of the direct oracle: entry by entry, relative.  An entry is a sum of a few products of floats (J, G, dJ/dx, dG/dx of
# the real model times sensitivity values); the oracle and the code under test form the same sum in possibly another order, so
# they differ by at most ~ (number of terms) * 2^-53 * (sum of |terms|) = a few 1e-16 * mag.  Tolerance: 1e-10*|entry| +
# 1e-13*mag - three orders above that bound, and with NO floor tied to the size of the matrix or of the point: an entry of
# -5e-9 next to entries of 1e16 (per-capita contact rate x head counts) is compared as strictly as any other, an entry that is
# structurally zero must be returned as exactly 0, and entries of 1e25 raise no false alarm.
REL_ENTRY, REL_MAG = 1e-10, 1e-13


def entry_close(got, want, mag, floor=0.0):
    got = np.asarray(got, float); want = np.asarray(want, float)
    if got.shape != want.shape:
        return False
    return bool(np.all(np.abs(got - want) <= REL_ENTRY * np.abs(want) + REL_MAG * np.asarray(mag, float) + floor))


def worst_entry(got, want, mag, floor=0.0):
    got = np.asarray(got, float); want = np.asarray(want, float)
    if got.shape != want.shape:
        return "shape %s vs %s" % (got.shape, want.shape)
    exc = np.abs(got - want) - (REL_ENTRY * np.abs(want) + REL_MAG * np.asarray(mag, float) + floor)
    i = np.unravel_index(np.argmax(exc), exc.shape) if exc.size else ()
    return "entry %s: got %.17g, expected %.17g (|diff| %.3e, allowed %.3e = 1e-10*|entry| + 1e-13*sum|terms|%s); largest entry of the result %.3g" % (
        tuple(int(k) for k in i), got[i], want[i], abs(got[i] - want[i]), REL_ENTRY * abs(want[i]) + REL_MAG * np.asarray(mag, float)[i] + floor,
        (" + %.1e" % floor) if floor else "", float(np.max(np.abs(want))) if want.size else 0.0)


def _call(fn):
    try:
        # a COPY: what is compared later must not be an alias of a buffer the code under test may write to again
        return np.array(fn(), dtype=float), None
    except Exception as exc:   # the real code raising on a well-formed call is itself an observation
        return None, "%s: %s" % (type(exc).__name__, str(exc)[:160])


def _sig(base, nS, nP):
    s = base
    if nS == 1:
        s += ":nS=1"
    if nP == 0:
        s += ":nP=0"
    return s


def derivs(inst, nS, nP, x, t, keep=None, xform=None):
    """oracle inputs at (x, t) for the parameter values `inst` holds now: the real evaluators, called with a fresh float
    ndarray (or, for the evaluator-level form probe, the container `xform`), every result copied at once.
    `keep` collects (name, returned object, copy) for the aliasing probe."""
    out = {}
    def one(name, shape):
        try:
            raw = getattr(inst, name)(np.array([float(v) for v in x], float) if xform is None else container(x, xform), float(t))
            v = np.array(raw, dtype=float)
        except Exception as exc:
            raise RuntimeError("%s: %s" % (type(exc).__name__, str(exc)[:160]))
        if keep is not None and isinstance(raw, np.ndarray):
            keep.append((name, raw, v.copy()))
        return v.reshape(shape)
    out["f"] = one("ode", (nS,))
    out["J"] = one("jacobian", (nS, nS))
    out["G"] = one("grad", (nS, nP)) if nP else np.zeros((nS, 0))
    out["DJ"] = one("diff_jacobian", (nS * nS, nS))
    out["GJ"] = one("grad_jacobian", (nS * nP, nS)) if nP else np.zeros((0, nS))
    if not all(np.all(np.isfinite(v)) for v in out.values()):
        raise FloatingPointError("non-finite derivative object")
    out["scale"] = 1.0 + max([float(np.max(np.abs(out[k]))) if out[k].size else 0.0 for k in ("f", "J", "G")])
    out["jscale"] = 1.0 + max([float(np.max(np.abs(out[k]))) if out[k].size else 0.0 for k in ("J", "DJ", "GJ")])
    return out


# ---------------------------------------------------------------------------------------------------------
# input forms
def container(vq, form):
    """the numbers vq (Fractions) in the container `form`; int forms need integer values"""
    fl = [float(q) for q in vq]
    if form == "ndarray":
        return np.array(fl, float)
    if form == "list":
        return list(fl)
    if form == "tuple":
        return tuple(fl)
    if form == "list-npfloat":
        return [np.float64(v) for v in fl]
    if form == "strided":
        return np.repeat(np.array(fl, float), 2)[::2]
    if form == "readonly":
        a = np.array(fl, float)
        a.setflags(write=False)
        return a
    iv = [int(q) for q in vq]
    assert all(Fraction(i) == Fraction(q) for i, q in zip(iv, vq)), "integer form for a non-integer point"
    if form == "int64":
        return np.array(iv, np.int64)
    if form == "int32":
        return np.array(iv, np.int32)
    if form == "list-int":
        return list(iv)
    if form == "tuple-int":
        return tuple(iv)
    if form == "list-npint":
        return [np.int64(v) for v in iv]
    if form == "object-int":
        return np.array(iv, object)
    raise ValueError(form)


def time_form(tq, tform):
    if tform == "float":
        return float(tq)
    if tform == "npfloat":
        return np.float64(float(tq))
    if tform == "0d":
        return np.array(float(tq))
    assert Fraction(int(tq)) == Fraction(tq)
    if tform == "int":
        return int(tq)
    if tform == "npint":
        return np.int64(int(tq))
    raise ValueError(tform)


def is_int_form(form):
    return form in ("int64", "int32", "list-int", "tuple-int", "list-npint", "object-int")


def bundle(pt, nS, nP, form):
    """the argument objects of every entry point for the mathematical point pt, all in the container `form`
    (fresh objects: nothing is shared between calls)"""
    zq = pt["x"] + pt["s"]
    mdt = np.int64 if is_int_form(form) else float
    conv = (lambda q: int(q)) if is_int_form(form) else (lambda q: float(q))
    S = [[conv(pt["s"][k * nS + l]) for k in range(nP)] for l in range(nS)]
    Sb = [[conv(pt["s"][l * nP + k]) for k in range(nP)] for l in range(nS)]
    IV = [[conv(pt["s0"][k * nS + l]) for k in range(nS)] for l in range(nS)]
    return {"z": container(zq, form), "ziv": container(zq + pt["s0"], form), "state": container(pt["x"], form),
            "sens": container(pt["s"], form), "sensiv": container(pt["s"] + pt["s0"], form),
            "S": np.array(S, mdt).reshape(nS, nP), "S_bs": np.array(Sb, mdt).reshape(nS, nP), "IV": np.array(IV, mdt).reshape(nS, nS)}


def entry_table(nS, nP):
    """every way into the sensitivity systems: kind (what the oracle calls it), signature base, `via` (None = primary)"""
    T = []
    def add(kind, sig, via, fn, args):
        T.append({"kind": kind, "sig": sig, "via": via, "fn": fn, "args": args})
    if nP >= 1:
        for bs in (False, True):
            a = ARR[bs]
            Sn = "S_bs" if bs else "S"
            add("rhs:" + a, "sens-rhs:" + a, None, lambda m, B, t, bs=bs: m.ode_and_sensitivity(B["z"], t, bs), ("z",))
            add("rhs:" + a, "sens-rhs:" + a, "ode_and_sensitivity_T", lambda m, B, t, bs=bs: m.ode_and_sensitivity_T(t, B["z"], bs), ("z",))
            add("sens:" + a, "sens-rhs:" + a, "sensitivity", lambda m, B, t, bs=bs: m.sensitivity(B["sens"], t, B["state"], bs), ("sens", "state"))
            add("sens:" + a, "sens-rhs:" + a, "sensitivity_T", lambda m, B, t, bs=bs: m.sensitivity_T(t, B["sens"], B["state"], bs), ("sens", "state"))
            add("sens:" + a, "sens-rhs:" + a, "eval_sensitivity", lambda m, B, t, bs=bs, Sn=Sn: m.eval_sensitivity(B[Sn], t, B["state"], bs), (Sn, "state"))
            add("jac:" + a, "aug-jacobian:" + a, None, lambda m, B, t, bs=bs: m.ode_and_sensitivity_jacobian(B["z"], t, bs), ("z",))
            add("jac:" + a, "aug-jacobian:" + a, "ode_and_sensitivity_jacobian_T", lambda m, B, t, bs=bs: m.ode_and_sensitivity_jacobian_T(t, B["z"], bs), ("z",))
        add("gs", "sens-jacobian-state", "sens_jacobian_state", lambda m, B, t: m.sens_jacobian_state(B["z"], t), ("z",))
        add("gs", "sens-jacobian-state", "sens_jacobian_state_T", lambda m, B, t: m.sens_jacobian_state_T(t, B["z"]), ("z",))
        add("gs", "sens-jacobian-state", "eval_sens_jacobian_state",
            lambda m, B, t: m.eval_sens_jacobian_state(time=t, state=B["state"], sens=B["sens"]), ("state", "sens"))
    add("rhsIV", "IV-rhs", None, lambda m, B, t: m.ode_and_sensitivityIV(B["ziv"], t), ("ziv",))
    add("rhsIV", "IV-rhs", "ode_and_sensitivityIV_T", lambda m, B, t: m.ode_and_sensitivityIV_T(t, B["ziv"]), ("ziv",))
    add("sensIV", "IV-rhs", "sensitivityIV", lambda m, B, t: m.sensitivityIV(B["sensiv"], t, B["state"]), ("sensiv", "state"))
    add("sensIV", "IV-rhs", "sensitivityIV_T", lambda m, B, t: m.sensitivityIV_T(t, B["sensiv"], B["state"]), ("sensiv", "state"))
    add("sensIV", "IV-rhs", "eval_sensitivityIV", lambda m, B, t: m.eval_sensitivityIV(B["S"], B["IV"], t, B["state"]), ("S", "IV", "state"))
    add("jacIV", "aug-jacobian:IV", None, lambda m, B, t: m.ode_and_sensitivityIV_jacobian(B["ziv"], t), ("ziv",))
    add("jacIV", "aug-jacobian:IV", "ode_and_sensitivityIV_jacobian_T", lambda m, B, t: m.ode_and_sensitivityIV_jacobian_T(t, B["ziv"]), ("ziv",))
    return T


def _snapshot(o):
    if isinstance(o, np.ndarray):
        return ("ndarray", o.dtype.str, o.shape, o.tolist())
    if isinstance(o, (list, tuple)):
        return (type(o).__name__, [(type(v).__name__, repr(v)) for v in o])
    return (type(o).__name__, repr(o))


class Session:
    """calls on live instances; keeps every returned array OBJECT together with a copy made at return time, and every
    argument object together with a snapshot made before the call"""

    def __init__(self, nS, nP, viol, mism, tags):
        self.nS, self.nP, self.viol, self.mism, self.tags = nS, nP, viol, mism, tags
        self.kept = []
        self.calls = 0

    def violation(self, what, sigbase, detail):
        self.viol.append({"what": what, "signature": _sig(sigbase, self.nS, self.nP), "detail": detail})

    def call(self, label, sigbase, thunk, args):
        """returns (value as float ndarray - a copy -, error string)"""
        snaps = [(n, o, _snapshot(o)) for n, o in args]
        self.calls += 1
        try:
            res = thunk()
        except Exception as exc:
            return None, "%s: %s" % (type(exc).__name__, str(exc)[:160])
        parts = list(res) if isinstance(res, tuple) else [res]
        try:
            copies = [np.array(p, dtype=float) for p in parts]
        except Exception as exc:
            return None, "result not numeric: %s" % str(exc)[:120]
        self.kept.append((label, sigbase, [(p, np.array(p, copy=True)) for p in parts if isinstance(p, np.ndarray)], snaps))
        return (np.concatenate([c.ravel() for c in copies]) if isinstance(res, tuple) else copies[0]), None

    def finish(self):
        """after the last call: nothing returned earlier and nothing passed in may have changed"""
        n = 0
        for label, sigbase, parts, snaps in self.kept:
            for p, c in parts:
                n += 1
                if p.shape != c.shape or not np.array_equal(np.asarray(p, float), np.asarray(c, float), equal_nan=True):
                    self.violation("the array returned by %s was changed by a later call (the caller's result is a view of something "
                                   "the model writes to again)" % label, sigbase + ":kept-result-changed",
                                   worst(np.asarray(p, float).ravel(), np.asarray(c, float).ravel()) if p.shape == c.shape else "shape changed")
            for name, o, s in snaps:
                if _snapshot(o) != s:
                    # a pure side effect: C13 says what the entry points RETURN, not that they leave their arguments alone.
                    # Every returned value was judged against the oracle for the point as it was handed in, and kept results
                    # are compared above, so wrong values caused by such a write are violations there.  The write itself is
                    # only a disagreement with the Lean model (pure functions cannot change their arguments): tag + mismatch.
                    self.tags.append("side-effect:argument-modified:" + sigbase)
                    self.mism.append({"what": "%s changed its argument `%s` (the Lean functions are pure)" % (label, name),
                                      "detail": "%s -> %s" % (str(s)[:150], str(_snapshot(o))[:150])})
        return n


def exact_at(lr, env):
    """exact values of the driver's derivative expressions at env; None when undefined there or when a value is too
    long to be sent to the driver as a decimal fraction (exp(-3e6) has a million digits)"""
    try:
        out = ([ev_frac(e, env) for e in lr["ode"]], [[ev_frac(e, env) for e in row] for row in lr["jac"]],
               [[ev_frac(e, env) for e in row] for row in lr["grad"]], [[ev_frac(e, env) for e in row] for row in lr["djac"]],
               [[ev_frac(e, env) for e in row] for row in lr["gjac"]])
    except (E.Undefined, ZeroDivisionError, OverflowError, ValueError):
        return None
    flat = list(out[0]) + [v for m in out[1:] for row in m for v in row]
    if any(abs(v.numerator).bit_length() > 3000 or v.denominator.bit_length() > 3000 for v in flat):
        return None
    return out


def lean_expect(nS, nP, ex, zq, zivq):
    """kind -> [(variant name, thunk -> float array)]: the Lean model's pure functions on the exact derivative objects"""
    fq, Jq, Gq, DJq, GJq = ex
    common = {"nS": nS, "nP": nP, "f": fvec(fq), "J": fmat(Jq), "G": fmat(Gq)}
    jcommon = {"nS": nS, "nP": nP, "J": fmat(Jq), "GJ": fmat(GJq), "DJ": fmat(DJq)}
    out = {}
    if nP >= 1:
        for bs in (False, True):
            a = ARR[bs]
            out["rhs:" + a] = [("as-coded", lambda bs=bs: to_float(layout("odeAndSensitivity", z=fvec(zq), byState=bs, **common)))]
            v = [("as-coded", lambda bs=bs: to_float(layout("odeAndSensitivityJacobian", z=fvec(zq), byState=bs, **jcommon)))]
            if bs:
                v.append(("repaired", lambda: to_float(layout("odeAndSensitivityJacobianByStateRepaired", z=fvec(zq), **jcommon))))
            out["jac:" + a] = v
    out["rhsIV"] = [("as-coded", lambda: to_float(layout("odeAndSensitivityIV", z=fvec(zivq), **common)))]
    out["jacIV"] = [("as-coded", lambda: to_float(layout("odeAndSensitivityIVJacobian", z=fvec(zivq), **jcommon)))]
    return out


def assign_parameters(model, params, values, form, keep):
    """model.parameters = ... in the drawn form; with `partial-dict` only the parameters not in `keep` are named"""
    if form == "list":
        model.parameters = [float(v) for v in values]
    elif form == "tuple":
        model.parameters = tuple(float(v) for v in values)
    elif form == "ndarray":
        model.parameters = np.array([float(v) for v in values])
    elif form == "dict":
        model.parameters = {p: float(v) for p, v in zip(params, values)}
    elif form == "partial-dict":
        model.parameters = {p: float(v) for p, v, k in zip(params, values, keep) if not k}
    else:
        raise ValueError(form)


def run_point(case):
    spec, meta = case["spec"], case["meta"]
    tags, mism, viol = [], [], []
    backend = case.get("backend", "lambda")
    if "probes" not in case:
        # an older (corpus) case: the session is drawn from the case itself
        rp = random.Random(int(gen.case_hash(case), 16))
        case = dict(case, probes=gen_probes(rp, list(meta["states"]), list(meta["params"]), Fraction(case["point"]["t"]),
                                            None))
    pr = case["probes"]
    lr = lean_assemble(spec, derivs=True)
    model = pymodel.build(spec, backend=backend)
    states = [str(s) for s in model.state_list]
    params = [str(p) for p in model.param_list]
    if lr.get("err") is not None or states != lr["states"] or params != lr["params"]:
        mism.append({"what": "build", "detail": "lean %s python %s %s" % (json.dumps(lr)[:300], states, params)})
        return {"nontrivial": False, "mismatches": mism, "violations": viol, "tags": tags}
    nS, nP = len(states), len(params)
    env = {k: Fraction(v) for k, v in case["point"].items()}
    x = [float(env[s]) for s in states]
    th = [float(env[p]) for p in params]
    t = float(env["t"])
    tags += ["nS=%d" % nS, "nP=%d" % nP, "backend:" + backend] + ["rate:" + k for k in set(meta["kinds"])]
    timed = "periodic" in meta["kinds"]
    tags.append("time-dependent" if timed else "autonomous")
    if case.get("scaled"):
        tags += ["scale:" + case["scaled"]["regime"], "scale:sens=" + case["scaled"]["sens"]]
    else:
        tags.append("scale:unit")
    ex1 = exact_at(lr, env)
    if ex1 is None:
        return {"nontrivial": False, "mismatches": mism, "violations": viol, "tags": tags + ["undefined_point"]}
    fq, Jq, Gq, DJq, GJq = ex1
    exact = not any(k in ("exponential", "periodic") for k in meta["kinds"])
    # hypothesis of aug_jacobian_is_derivative: second partials commute  (exact on rational models)
    for e in range(nS):
        for a in range(nS):
            for b in range(a):
                u, v = DJq[e * nS + a][b], DJq[e * nS + b][a]
                if (u != v) if exact else (abs(u - v) > Fraction(1, 10 ** 30) * (1 + abs(u))):
                    mism.append({"what": "diff_jacobian not symmetric (hypothesis hsym)", "detail": "f_%d: d2/dx%d dx%d = %s but d2/dx%d dx%d = %s" % (e, a, b, u, b, a, v)})
    sv = [Fraction(s) for s in case["svals"]]
    P = {"x": [env[s] for s in states], "s": sv[:nS * nP], "s0": sv[nS * nP:nS * nP + nS * nS], "t": env["t"]}
    ip = pr["ipoint"]
    I = {"x": [Fraction(v) for v in ip["x"]], "s": [Fraction(v) for v in ip["s"]], "s0": [Fraction(v) for v in ip["s0"]], "t": Fraction(ip["t"])}
    P2 = dict(P, t=Fraction(pr["t2"]))
    points = {"P": P, "I": I, "P2": P2}
    zq = P["x"] + P["s"]
    zivq = zq + P["s0"]
    z = np.array([float(q) for q in zq]); ziv = np.array([float(q) for q in zivq])

    def zf(pt):
        return np.array([float(q) for q in pt["x"] + pt["s"]]), np.array([float(q) for q in pt["x"] + pt["s"] + pt["s0"]])

    # second parameter set (as before: every parameter moves)
    env2 = dict(env)
    for k, pn in enumerate(params):
        # (scaled cases: the second set stays on the scale of the first)
        env2[pn] = env[pn] * Fraction(3 + (k % 3), 2) + (Fraction(0) if case.get("scaled") else Fraction(1, 7 + k))
    if pr["reassign"] == "partial-dict":
        for pn, keep in zip(params, pr["reassign_keep"]):
            if keep:
                env2[pn] = env[pn]
    th2 = [float(env2[pn]) for pn in params]

    # ---- oracle inputs, BEFORE the session: the real f, J, G, dJ/dx, dG/dx at every (parameter set, point) the session
    # will visit, so that the history under test consists of calls of the sensitivity entry points only
    D = {}
    kept_eval = []
    try:
        if nP:
            model.parameters = th2
            D[("th2", "P")] = derivs(model, nS, nP, x, t, kept_eval)
            model.parameters = th
        D[("th1", "P")] = derivs(model, nS, nP, x, t, kept_eval)
        D[("th1", "P2")] = derivs(model, nS, nP, x, float(P2["t"]), kept_eval)
    except (RuntimeError, FloatingPointError) as exc:
        viol.append({"what": "ode/jacobian/grad raised: %s" % exc, "signature": _sig("evaluator:raises", nS, nP), "detail": json.dumps(case["point"])})
        return {"nontrivial": False, "mismatches": mism, "violations": viol, "tags": tags}
    try:
        D[("th1", "I")] = derivs(model, nS, nP, [float(v) for v in I["x"]], float(I["t"]), kept_eval)
    except (RuntimeError, FloatingPointError):
        tags.append("ipoint:undefined")
    # diagnosis only: the evaluators themselves on fixed-width integer states.  With the lambda back-end numpy integer scalars
    # reached the lambdified expressions and wrapped around (999**3*k as int32, 3e6**3 as int64) - a defect of the EVALUATORS
    # (repaired in /repo by ea55e76; corpus/C13/int-state-wraparound.json).  The sensitivity entry points then return wrong values for the containers
    # that carry such scalars; THOSE are the violations (judged below like every other form), under signatures that start
    # with `int-state-wraparound:` so that this root cause is told apart from a fault in the assembly of J.S+G.
    wrapped = {}
    if ("th1", "I") in D:
        for xform, carriers in (("int32", ("int32",)), ("int64", ("int64", "list-npint"))):
            try:
                Di = derivs(model, nS, nP, I["x"], float(I["t"]), None, xform)
                bad = [k for k in ("f", "J", "G", "DJ", "GJ") if not close_arr(Di[k], D[("th1", "I")][k], 1e-9, 1e-9 * D[("th1", "I")]["jscale"])]
            except (RuntimeError, FloatingPointError):
                bad = []
            if bad:
                tags.append("evaluator:int-state-wraparound:" + xform)
                for c_ in carriers:
                    wrapped[c_] = xform
    # J, G, dJ/dx, dG/dx feed J.S+G and the block Jacobians: an evaluator that hands out one internal buffer would make every
    # J a caller kept from an earlier point silently become the J of the latest point (the oracle above copies at once)
    # (jacobian, grad, ... are not entry points of C13: a disagreement with the pure Lean evaluators, tagged, not a violation
    # of this property; every array RETURNED BY THE SENSITIVITY ENTRY POINTS is kept and compared in Session.finish, and that is
    # a violation)
    for name, raw, cp in kept_eval:
        if raw.shape != cp.shape or not np.array_equal(np.asarray(raw, float), cp, equal_nan=True):
            tags.append("evaluator:%s:kept-result-changed" % name)
            mism.append({"what": "the array returned by %s(x,t) was changed by a later evaluation (the Lean evaluators are values)" % name,
                         "detail": worst(np.asarray(raw, float).ravel(), cp.ravel()) if raw.shape == cp.shape else "shape changed"})
    D1 = D[("th1", "P")]
    Jn, Gn, fn_ = D1["J"], D1["G"], D1["f"]
    scale = 1.0 + max([abs(float(v)) for row in Jq for v in row] + [abs(float(v)) for row in Gq for v in row] + [abs(float(v)) for v in fq])
    if not close_arr(Jn, to_float(fmat(Jq)) if nS else Jn, 1e-9, 1e-10 * scale):
        mism.append({"what": "jacobian(x,t) vs Lean jacobianEqn", "detail": worst(Jn, to_float(fmat(Jq)))})
    if nP and not close_arr(Gn, to_float(fmat(Gq)), 1e-9, 1e-10 * scale):
        mism.append({"what": "grad(x,t) vs Lean gradEqn", "detail": worst(Gn, to_float(fmat(Gq)))})
    # (dJ/dx and dG/dx can be far larger than f, J, G - huge rate constants at tiny states -: their own scale for the floor)
    scale_j = max(scale, 1.0 + max([abs(float(v)) for row in DJq for v in row] + [abs(float(v)) for row in GJq for v in row] + [0.0]))
    if nS >= 2 and not close_arr(D1["DJ"], to_float(fmat(DJq)), 1e-9, 1e-10 * scale_j):
        mism.append({"what": "diff_jacobian(x,t) vs Lean diffJacobianEqn", "detail": worst(D1["DJ"], to_float(fmat(DJq)))})
    if nP and nS >= 2 and not close_arr(D1["GJ"], to_float(fmat(GJq)), 1e-9, 1e-10 * scale_j):
        mism.append({"what": "grad_jacobian(x,t) vs Lean gradJacobianEqn", "detail": worst(D1["GJ"], to_float(fmat(GJq)))})

    zscale = 1.0 + float(np.max(np.abs(ziv)))
    rtol = 1e-9
    ses = Session(nS, nP, viol, mism, tags)
    ENT = entry_table(nS, nP)
    PRIMARY = [e for e in ENT if e["via"] is None]

    def visit(inst, Dk, pt, form, tform, entries, suffix, what_suffix, lean=None, fd_on=None, scale_l=None, sigprefix=""):
        """call `entries` of `inst` at the mathematical point pt given in (form, tform); judge every result against the explicit
        loops on the oracle inputs Dk (violations), the primary ones against the Lean layout when `lean` is given (mismatches)
        and the Jacobians against finite differences of the real right-hand side when `fd_on`.  Returns kind -> value."""
        zz, zziv = zf(pt)
        exp = expected_all(nS, nP, Dk, zz, zziv)
        zs = 1.0 + float(np.max(np.abs(zziv)))
        got_all, fd_todo = {}, []
        for e in entries:
            B = bundle(pt, nS, nP, form)
            tt = time_form(pt["t"], tform)
            by = (",by_state=%s" % e["kind"].endswith("by_state")) if ":" in e["kind"] else ""
            label = "%s(z,t%s)" % (e["via"] or PRIMARY_NAME[e["kind"].split(":")[0]], by)
            sig0 = e["sig"] + ((":via=" + e["via"]) if e["via"] else "")
            sigb = sigprefix + sig0 + suffix
            got, err = ses.call(label + what_suffix, sig0, lambda e=e, B=B, tt=tt: e["fn"](inst, B, tt), [(a, B[a]) for a in e["args"]] + [("t", tt)])
            if err:
                ses.violation("%s raised %s%s" % (label, err, what_suffix), sigb + ":raises", json.dumps(case["point"]))
                continue
            want = exp[e["kind"]]
            isjac = e["kind"].startswith("jac") or e["kind"] == "gs"
            if isjac and got.size == want.size:
                got = got.reshape(want.shape)
            if e["via"] is None:
                got_all[e["kind"]] = got
            if lean is not None and e["kind"] in lean:
                matched = None
                # the Lean tie keeps a floor relative to the size of the objects involved (the exact rationals do not tell how
                # much cancellation happened INSIDE an entry of the float J, G, dJ/dx, dG/dx); for the block Jacobians that is
                # the size of J, dJ/dx, dG/dx, which at huge rate constants exceeds that of f, J, G
                atol_l = 1e-9 * (max(scale_l or Dk["scale"], Dk["jscale"]) if isjac else (scale_l or Dk["scale"])) * zs
                for vname, thunk in lean[e["kind"]]:
                    lo = thunk()
                    if lo.size == got.size and close_arr(got.ravel(), lo.ravel(), rtol, atol_l):
                        matched = vname
                        break
                if matched is None:
                    mism.append({"what": "%s vs Lean layout%s" % (label, what_suffix), "detail": worst(got.ravel(), lean[e["kind"]][0][1]().ravel())})
                elif isjac:
                    tags.append("%s:model-variant=%s" % (e["sig"], matched))
            # DIRECT ORACLE: entry by entry, relative (entry_close).  The integer containers alone keep a floor of 1e-12 x (size of
            # the objects): there the code under test evaluates f, J, G, ... on integers and the oracle on the same numbers as
            # floats, which may round differently inside an entry (those points are O(1)..3e6 by construction)
            mag = exp["mag:" + e["kind"]]
            if isjac and mag.size == want.size:
                mag = mag.reshape(want.shape)
            floor = 1e-12 * (Dk["jscale"] if isjac else Dk["scale"]) * zs if is_int_form(form) else 0.0
            if not entry_close(got, want, mag, floor):
                if isjac:
                    what = "%s%s is not the derivative of its right-hand side (explicit index loops on jacobian, diff_jacobian, grad_jacobian)" % (label, what_suffix)
                else:
                    what = "%s%s is not (f, J.S+G%s) in the documented layout" % (label, what_suffix, ", J.S0" if "IV" in e["kind"] else "")
                # wrong-value class for the signature: only entries that the old norm-based tolerance (1e-8 x size of the objects x
                # size of the point) would have let pass
                only_small = got.shape == want.shape and close_arr(got, want, 1e-8, 1e-8 * (Dk["jscale"] if isjac else Dk["scale"]) * zs)
                ses.violation(what, sigb + (":small-entries" if only_small else ""),
                              worst_entry(got, want, mag, floor) + " nS=%d nP=%d form=%s t=%s" % (nS, nP, form, tform))
            if fd_on and e["via"] is None and e["kind"].startswith("jac"):
                fd_todo.append((e, got, label, sigb))
        # finite differences of the real right-hand side LAST: they call the instance at other points (and would refresh a memo)
        for e, got, label, sigb in fd_todo:
            if e["kind"] == "jacIV":
                rhs = lambda w: np.asarray(inst.ode_and_sensitivityIV(w, float(pt["t"])), float).ravel()
                w0 = zziv
            else:
                bs = e["kind"].endswith("by_state")
                rhs = lambda w, bs=bs: np.asarray(inst.ode_and_sensitivity(w, float(pt["t"]), bs), float).ravel()
                w0 = zz
            fd, f0 = richardson_jac(rhs, w0)
            tol_fd = 1e-6 * (1.0 + float(np.max(np.abs(f0))) + float(np.max(np.abs(fd))))
            if got.shape == fd.shape and not close_arr(got, fd, 1e-6, tol_fd):
                ses.violation("%s%s is not the derivative of its right-hand side (finite differences of the real function)" % (label, what_suffix),
                              sigb, worst(got, fd) + " nS=%d nP=%d" % (nS, nP))
        return got_all

    def same_bits(first, again, when):
        for kind in first:
            a, b = first[kind], again.get(kind)
            if b is not None and not (a.shape == b.shape and np.array_equal(a, b)):
                ses.violation("%s at the same (z,t) with the same parameter values returns something else %s" % (kind, when),
                              "history-dependent:" + kind.split(":")[0],
                              worst(a.ravel(), b.ravel()) if a.shape == b.shape else "shape")

    if nP:
        model.parameters = th
    # ---- 1. first visit: float ndarray, Python float time; explicit loops, Lean layout, finite differences
    lean1 = lean_expect(nS, nP, ex1, zq, zivq)
    if nP == 0:
        tags.append("nP=0:ode_and_sensitivity-not-applicable")
    visit(model, D1, P, "ndarray", "float", PRIMARY, "", "", lean=lean1, fd_on=True, scale_l=scale)
    # ---- 2. secondary entry points (`_T` twins, component evaluators): each is the same pure function as its primary
    # in the Lean model (sensitivity / evalSensitivity / sensitivityIV are the definitions odeAndSensitivity(IV) unfolds to)
    SECONDARY = [e for e in ENT if e["via"] is not None]
    visit(model, D1, P, "ndarray", pr["secondary_tform"], SECONDARY, "", "")
    for e in SECONDARY:
        tags.append("via=" + e["via"])
    # ---- 3. input form: the Lean functions take the mathematical point; a list, a tuple, an int array of the same numbers
    # ARE that point, so every form pygom accepts is judged against the oracle for the point
    for pname, form, tform in pr["forms"]:
        if (pname == "I" and ("th1", "I") not in D) or (is_int_form(form) and pname != "I"):
            continue
        if form in wrapped:
            visit(model, D[("th1", pname)], points[pname], form, tform, ENT, ":form=" + form,
                  " [z as %s, t as %s; ode/jacobian/grad themselves differ between this %s state and the same state as float ndarray: "
                  "fixed-width integer arithmetic inside the compiled expressions]" % (form, tform, wrapped[form]),
                  sigprefix="int-state-wraparound:%s:" % wrapped[form])
            tags += ["form:%s:%s" % (pname, form), "tform:" + tform]
            continue
        visit(model, D[("th1", pname)], points[pname], form, tform, ENT, ":form=" + form, " [z as %s, t as %s]" % (form, tform))
        tags += ["form:%s:%s" % (pname, form), "tform:" + tform]
    if ("th1", "I") in D:
        envI = dict(env)
        envI.update({s_: v for s_, v in zip(states, I["x"])})
        envI["t"] = I["t"]
        # (the 50-digit interpreter would spend half a minute on exp(-3e6*b): the Lean tie is for moderate points)
        exI = exact_at(lr, envI) if max(abs(v) for v in I["x"]) <= 1000 else None
        if exI is not None:
            visit(model, D[("th1", "I")], I, "ndarray", "float", PRIMARY, ":form=ndarray", " [integer-valued point]",
                  lean=lean_expect(nS, nP, exI, I["x"] + I["s"], I["x"] + I["s"] + I["s0"]))
        tags.append("ipoint:natural-start" if ip.get("natural") else "ipoint:random")

    # ---- 4. history on one instance.  In the Lean model the value returned is a function of (z, t) and the CURRENT derivative
    # objects only (`session_is_pure`, `revisit_reproduces`); anything remembered from an earlier call at the same point (a memo
    # keyed on state and time, a cached J, G, S or dJ/dx) shows here and nowhere else.  Every step below is preceded by a call at
    # exactly (z, t), so a one-entry memo is primed.
    first = visit(model, D1, P, "ndarray", "float", PRIMARY, "", "")
    # 4a. same state, another time, and back
    tags.append("probe:revisit-time:" + ("time-dependent" if timed else "autonomous"))
    ex12 = exact_at(lr, dict(env, t=P2["t"]))
    visit(model, D[("th1", "P2")], P2, "ndarray", "float", PRIMARY, ":revisit-time", " at the same state, other time",
          lean=(lean_expect(nS, nP, ex12, zq, zivq) if ex12 is not None else None))
    same_bits(first, visit(model, D1, P, "ndarray", "float", PRIMARY, ":revisit-time", " back at the first time"), "after a call at another time")
    # 4b. a sibling instance evaluated at the same numbers in between (instances do not interact: `instances_do_not_interact`)
    sb = pr["sibling"]
    variant = sb["variant"]
    sib, sib_err = None, None
    try:
        if variant == "deepcopy":
            sib = copy.deepcopy(model)
            sS, sP = nS, nP
        else:
            sspec = copy.deepcopy(spec)
            plain = all(isinstance(s_, str) for s_ in (sspec["state"].get("list") or [""])) and not any(":" in s_ for s_ in states)
            if variant in ("permuted", "other-definition"):
                if plain:
                    sspec["state"] = {"list": [states[i] for i in sb["perm_states"]]}
                if nP:
                    sspec["param"] = {"list": [params[i] for i in sb["perm_params"]]}
            if variant == "other-definition":
                sspec["then"] = list(sspec.get("then", [])) + [pr["extra"]]
            if variant == "fewer-params":
                drop = params[sb["drop"]]
                sspec = subst_params(sspec, {drop: env[drop]})
                sspec["param"] = {"list": [p for p in params if p != drop]}
            sib = pymodel.build(sspec, backend="lambda")
            sS, sP = len(sib.state_list), len(sib.param_list)
        if sP:
            sib.parameters = [float(Fraction(v)) for v in sb["values"]][:sP]
        # the sibling sees the same numbers (same state tuple, same time) - what a memo keyed on them would confuse
        Ps = {"x": P["x"], "s": (P["s"] + P["s0"])[:sS * sP], "s0": P["s0"], "t": P["t"]}
        Dsib = derivs(sib, sS, sP, x, t)
    except Exception as exc:
        sib_err = "%s: %s" % (type(exc).__name__, str(exc)[:160])
    if sib_err or sS != nS:
        tags.append("probe:sibling:not-built")
        if sib_err:
            mism.append({"what": "sibling instance could not be built or evaluated", "detail": sib_err + " variant=" + variant})
    else:
        tags.append("probe:sibling:" + variant)
        # the sibling is judged with its own numbers of parameters
        sENT = entry_table(sS, sP)
        sexp = expected_all(sS, sP, Dsib, *[np.array([float(q) for q in v]) for v in (Ps["x"] + Ps["s"], Ps["x"] + Ps["s"] + Ps["s0"])])
        for e in sENT:
            B = bundle(Ps, sS, sP, "ndarray")
            label = "sibling(%s).%s" % (variant, e["via"] or e["kind"])
            sigb = e["sig"] + ((":via=" + e["via"]) if e["via"] else "") + ":sibling-instance"
            got, err = ses.call(label, e["sig"] + ((":via=" + e["via"]) if e["via"] else ""), lambda e=e, B=B: e["fn"](sib, B, t), [(a, B[a]) for a in e["args"]])
            if err:
                ses.violation("%s raised %s" % (label, err), sigb + ":raises", json.dumps(case["point"]))
                continue
            want = sexp[e["kind"]]
            isjac = e["kind"].startswith("jac") or e["kind"] == "gs"
            if got.size == want.size:
                got = got.reshape(want.shape)
            smag = sexp["mag:" + e["kind"]]
            if smag.size == want.size:
                smag = smag.reshape(want.shape)
            if not entry_close(got, want, smag):
                ses.violation("%s of a second live instance (%s) evaluated between two calls of the first is not what its own f, J, G give"
                              % (label, variant), sigb, worst_entry(got, want, smag))
        same_bits(first, visit(model, D1, P, "ndarray", "float", PRIMARY, ":after-sibling", " after a sibling instance was evaluated at the same numbers"),
                  "after a sibling instance (%s) was evaluated" % variant)
    # 4c. parameters re-assigned, then restored
    if nP >= 1:
        ex2 = exact_at(lr, env2)
        if ex2 is None:
            tags.append("revisit:undefined_point")
        else:
            tags += ["revisit", "probe:revisit", "reassign:" + pr["reassign"]]
            visit(model, D1, P, "ndarray", "float", PRIMARY, "", "")
            assign_parameters(model, params, [env2[pn] for pn in params], pr["reassign"], pr["reassign_keep"])
            visit(model, D[("th2", "P")], P, "ndarray", "float", PRIMARY, ":revisit",
                  " evaluated again at the same (z,t) after model.parameters was re-assigned (%s)" % pr["reassign"],
                  lean=lean_expect(nS, nP, ex2, zq, zivq), fd_on=True)
            # back to the first parameter values: bit-for-bit what the first visit returned
            model.parameters = th
            same_bits(first, visit(model, D1, P, "ndarray", "float", PRIMARY, ":restored", " after the first parameter values were restored"),
                      "after an intermediate parameter re-assignment")
    # 4d. the definition grows: an event / transition / ODE term is added to the LIVE model; the reference is a FRESH model of
    # the final definition (built from the specification, never evaluated before)
    if pr.get("extend", True):
        spec_ext = copy.deepcopy(spec)
        spec_ext["then"] = list(spec_ext.get("then", [])) + [pr["extra"]]
        try:
            fresh = pymodel.build(spec_ext, backend="lambda")
            if nP:
                fresh.parameters = th
            Dext = derivs(fresh, nS, nP, x, t)
            ok_ext = [str(s) for s in fresh.state_list] == states and [str(p) for p in fresh.param_list] == params
        except Exception as exc:
            Dext, ok_ext = None, False
            mism.append({"what": "fresh model of the extended definition could not be built or evaluated", "detail": "%s: %s" % (type(exc).__name__, str(exc)[:200])})
        if Dext is not None and ok_ext:
            lr_ext = lean_assemble(spec_ext, derivs=True)
            ex_ext = exact_at(lr_ext, env) if lr_ext.get("err") is None else None
            visit(model, D1, P, "ndarray", "float", PRIMARY, "", "")
            try:
                pymodel.apply_then(model, pr["extra"])
                grown = True
            except Exception as exc:
                grown = False
                ses.violation("%s on the live model raised %s: %s" % (pr["extra"]["op"], type(exc).__name__, str(exc)[:120]),
                              "definition-change:raises", json.dumps(pr["extra"])[:300])
            if grown:
                tags.append("probe:revisit-definition:" + pr["extra"]["op"])
                changed = any(not np.array_equal(Dext[k], D1[k]) for k in ("J", "G", "DJ", "GJ"))
                tags.append("revisit-definition:derivatives-%s" % ("changed" if changed else "unchanged"))
                visit(model, Dext, P, "ndarray", "float", PRIMARY, ":revisit-definition",
                      " evaluated again at the same (z,t) after %s on the live model (reference: fresh model of the final definition)" % pr["extra"]["op"],
                      lean=(lean_expect(nS, nP, ex_ext, zq, zivq) if ex_ext is not None else None), fd_on=True)
                visit(model, Dext, P, "ndarray", pr["secondary_tform"], SECONDARY, ":revisit-definition", " after %s on the live model" % pr["extra"]["op"])
    elif "extend" in pr:
        tags.append("probe:revisit-definition:skipped(cython,quick)")
    # ---- 5. results kept from the whole session, arguments handed in
    nkept = ses.finish()
    tags.append("probe:kept")
    tags.append("kept-arrays>=%d" % (50 * (nkept // 50)))
    # one violation per signature and case (a broken form shows in every entry point and container)
    seen, uniq = {}, []
    for v in viol:
        if v["signature"] in seen:
            seen[v["signature"]]["count"] = seen[v["signature"]].get("count", 1) + 1
        else:
            seen[v["signature"]] = v
            uniq.append(v)
    for v in uniq:
        if v.get("count"):
            v["detail"] = "%s [%d occurrences in this case]" % (v["detail"], v.pop("count"))
    viol = uniq
    # vec <-> mat helpers exactly
    if nP >= 1:
        from pygom.model import ode_utils
        s_int = list(range(1, nS * nP + 1))
        Mp = ode_utils.vecToMatSens(np.array(s_int), nS, nP).tolist()
        if Mp != [[int(Fraction(v)) for v in row] for row in layout("vecToMatSens", nS=nS, nP=nP, s=s_int)]:
            mism.append({"what": "vecToMatSens vs Lean", "detail": str(Mp)})
        back = ode_utils.matToVecSens(np.array(Mp), nS, nP).tolist()
        if back != s_int:
            viol.append({"what": "matToVecSens(vecToMatSens(s)) != s", "signature": "reshape-round-trip", "detail": str(back)})
        if back != [int(Fraction(v)) for v in layout("matToVecSens", nS=nS, nP=nP, S=Mp)]:
            mism.append({"what": "matToVecSens vs Lean", "detail": str(back)})
    nontriv = bool(np.any(Jn != 0)) and ((nP == 0 and nS >= 2) or (nP >= 1 and bool(np.any(Gn != 0)) and nS * nP >= 2))
    return {"nontrivial": nontriv, "mismatches": mism, "violations": viol, "tags": sorted(set(tags)),
            "sample": {"spec": spec, "point": case["point"], "nS": nS, "nP": nP, "probes": {k: pr[k] for k in ("ipoint", "reassign", "t2", "extra")},
                       "sibling": pr["sibling"]["variant"], "calls": ses.calls}}


def run_integrated(case):
    spec, meta = case["spec"], case["meta"]
    tags, mism, viol = [], [], []
    model = pymodel.build(spec, backend="lambda")
    states = [str(s) for s in model.state_list]
    params = [str(p) for p in model.param_list]
    nS, nP = len(states), len(params)
    env = {k: Fraction(v) for k, v in case["point"].items()}
    x0 = np.array([float(env[s]) for s in states]); th0 = np.array([float(env[p]) for p in params])
    T = float(case["T"]); ts = [T / 2, T]
    tags += ["integrated", "nS=%d" % nS, "nP=%d" % nP]
    use_T = case.get("entry") == "T"      # the time-first twins (what solve_ivp takes as they are)
    tags.append("integrated:entry=" + ("_T" if use_T else "plain"))

    def flow(th, x):
        if nP:
            model.parameters = list(th)
        return ref_solve(lambda t, y: np.asarray(model.ode(y, t), float).ravel(), x, 0.0, ts, max_norm=100.0)

    base = flow(th0, x0)
    if base is None:
        return {"nontrivial": False, "mismatches": mism, "violations": viol, "tags": tags + ["integration-skipped"]}
    # finite differences of reference solutions
    ok = True
    dth = np.zeros((len(ts), nS, nP)); dx0 = np.zeros((len(ts), nS, nS))
    for k in range(nP):
        def g(th):
            r = flow(th, x0)
            if r is None:
                raise FloatingPointError
            return r
        try:
            dth[:, :, k] = richardson_dir(g, th0, k, 1e-3 * max(0.1, abs(th0[k])))
        except FloatingPointError:
            ok = False
    for c in range(nS):
        def g(x):
            r = flow(th0, x)
            if r is None:
                raise FloatingPointError
            return r
        try:
            dx0[:, :, c] = richardson_dir(g, x0, c, 1e-3 * max(1.0, abs(x0[c])))
        except FloatingPointError:
            ok = False
    if not ok:
        return {"nontrivial": False, "mismatches": mism, "violations": viol, "tags": tags + ["integration-skipped"]}
    if max(float(np.max(np.abs(dth))) if nP else 0.0, float(np.max(np.abs(dx0)))) > 1e3:
        # close to a finite-time blow-up: neither the finite differences nor the integration are trustworthy to 1e-5
        return {"nontrivial": False, "mismatches": mism, "violations": viol, "tags": tags + ["ill-conditioned-skipped"]}
    if nP:
        model.parameters = list(th0)
    big = 0.0
    if nP >= 1:
        bs = bool(case.get("by_state"))
        z0 = np.append(x0, np.zeros(nS * nP))
        try:
            if use_T:
                rhs_aug = lambda t, z: np.asarray(model.ode_and_sensitivity_T(t, z, bs), float).ravel()
            else:
                rhs_aug = lambda t, z: np.asarray(model.ode_and_sensitivity(z, t, bs), float).ravel()
            sol = ref_solve(rhs_aug, z0, 0.0, ts, rtol=1e-11, atol=1e-12)
            err = None
        except Exception as exc:
            sol, err = None, "%s: %s" % (type(exc).__name__, str(exc)[:160])
        if err:
            viol.append({"what": "integrating ode_and_sensitivity raised " + err, "signature": _sig("integrated-sens:theta:raises", nS, nP), "detail": json.dumps(case["point"])})
        elif sol is None:
            tags.append("aug-integration-failed")
        else:
            S = np.zeros((len(ts), nS, nP))
            for i in range(nS):
                for k in range(nP):
                    S[:, i, k] = sol[:, nS + (i * nP + k if bs else k * nS + i)]
            tags.append("integrated:by_state" if bs else "integrated:by_parameter")
            big = max(big, float(np.max(np.abs(dth))))
            tol = 1e-5 * (1.0 + float(np.max(np.abs(dth))))
            if not close_arr(sol[:, :nS], base, 1e-7, 1e-7):
                viol.append({"what": "state block of the integrated augmented system differs from the solution of ode", "signature": _sig("integrated-sens:state-block", nS, nP), "detail": worst(sol[:, :nS], base)})
            if not close_arr(S, dth, 1e-5, tol):
                viol.append({"what": "integrated sensitivities differ from finite differences in theta of reference solutions",
                             "signature": _sig("integrated-sens:theta" + (":by_state" if bs else ""), nS, nP), "detail": worst(S, dth) + " [t, state, parameter]"})
    # initial-value system
    z0 = np.concatenate([x0, np.zeros(nS * nP), np.eye(nS).flatten("F")])
    try:
        if use_T:
            rhs_iv = lambda t, z: np.asarray(model.ode_and_sensitivityIV_T(t, z), float).ravel()
        else:
            rhs_iv = lambda t, z: np.asarray(model.ode_and_sensitivityIV(z, t), float).ravel()
        sol = ref_solve(rhs_iv, z0, 0.0, ts, rtol=1e-11, atol=1e-12)
        err = None
    except Exception as exc:
        sol, err = None, "%s: %s" % (type(exc).__name__, str(exc)[:160])
    if err:
        viol.append({"what": "integrating ode_and_sensitivityIV raised " + err, "signature": _sig("integrated-sens:x0:raises", nS, nP), "detail": json.dumps(case["point"])})
    elif sol is None:
        tags.append("aug-integration-failed")
    else:
        S = np.zeros((len(ts), nS, nP)); S0 = np.zeros((len(ts), nS, nS))
        o = nS + nS * nP
        for i in range(nS):
            for k in range(nP):
                S[:, i, k] = sol[:, nS + k * nS + i]
            for c in range(nS):
                S0[:, i, c] = sol[:, o + c * nS + i]
        big = max(big, float(np.max(np.abs(dx0 - np.eye(nS)[None, :, :]))))
        if nP and not close_arr(S, dth, 1e-5, 1e-5 * (1.0 + float(np.max(np.abs(dth))))):
            viol.append({"what": "parameter block of the integrated initial-value system differs from finite differences in theta",
                         "signature": _sig("integrated-sens:theta:IV-system", nS, nP), "detail": worst(S, dth)})
        if not close_arr(S0, dx0, 1e-5, 1e-5 * (1.0 + float(np.max(np.abs(dx0))))):
            viol.append({"what": "integrated initial-value sensitivities differ from finite differences in x0 of reference solutions",
                         "signature": _sig("integrated-sens:x0", nS, nP), "detail": worst(S0, dx0) + " [t, state, initial state]"})
    return {"nontrivial": big > 1e-3, "mismatches": mism, "violations": viol, "tags": tags,
            "sample": {"spec": spec, "point": case["point"], "T": T}}


def run_case(case):
    if case.get("kind") == "integrated":
        return run_integrated(case)
    return run_point(case)
