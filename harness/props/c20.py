"""
C20 - curvature information matches the cost it is meant to describe.

Proof (lean/Pygom/Props/C20.lean): jtj entry formula, symmetry, positive semi-definiteness; the coded forward-forward
right-hand side IS the second-order sensitivity equation, entry by entry, for every nS, nP (`ff_rhs_is_true`; the code with
the `grad_jacobian` / `grad_grad` terms); the Hessian assembly turns second-order sensitivities into the derivative of
gradient (`hessian_is_second_derivative_partial`; the variational-equation theorem is the stated assumption).

Tie (this file): real `SquareLoss` objects on catalogue models (SIR, SEIR, SIR_norm) and random bounded models.
 * `jtj(theta)` against the DIRECT ORACLE  sum_i sum_q (w s)(w s)^T  built from finite-difference sensitivities of
   reference solutions (DOP853 1e-12), symmetry, eigenvalues; and against the Lean `sensToJtj` on the very sensitivity
   array the code integrated.
 * `hessian(theta)` against central differences of the reference gradient (DIRECT ORACLE; calls neither grad_jacobian nor
   grad_grad).  ANY difference is a violation.  For its diagnostic value the wrong value is compared with what known
   defective variants predict (the as-found forward-forward system without the mixed terms, integrated independently; the
   as-found sign of the second-order term): signatures `hessian:missing-mixed-terms`, `hessian:second-order-term-sign`,
   `hessian:sens-index-order`, else `hessian:other`.
 * `ode_and_forwardforward(z,t)` pointwise against the Lean `odeAndForwardForward` fed with the evaluators' J, G, DJ, GJ, GG
   (exact), against an explicit-loop numpy version of the coded system, and against an INDEPENDENT second-order right-hand
   side whose d2f/dx2, d2f/dx dtheta, d2f/dtheta2 are derived here by sympy differentiation of `get_ode_eqn()` (no call of
   `get_grad_jacobian_eqn` / `get_grad_grad_eqn` / the compiled evaluators): a difference is a violation
   `forwardforward:rhs-not-second-order-equation`.
 * `hessian(theta, full_output=True)` (the form `confidence_interval` uses) is judged against the SAME direct oracle as the
   plain call, and the entries of the returned dictionary that the docstrings name (`JTJ`, `grad`, `H`, `resid`, `sens`)
   against their own references (outer products / gradient / second-order part / weighted residuals / finite-difference
   sensitivities of the reference solution); likewise `jtj(theta, full_output=True)`.
 * SESSIONS on the one live loss object (STRENGTHEN_GUIDE families 1-5; `case["session"]`, fully determined by the case):
   `jtj` / `hessian` (both output forms; theta as list / tuple / ndarray / numpy scalars / omitted) are called again and
   again with the same theta after: writing into the matrix returned before (as `confidence_interval._profileH` does with
   `H[i] = grad`, or a damping `A[diag] += lam`), moving the initial state through `costIV` / `residualIV` / `diff_lossIV` /
   `sensitivityIV` (and back), the user changing a non-target parameter of the shared ode (and back), the user scrambling
   the target parameters or the initial values of the shared ode (which the result must NOT depend on), an evaluation at
   another theta, another loss object on the same ode evaluated in between, a `copy.deepcopy` of the loss object that is
   evaluated and then moved elsewhere.  EVERY evaluation is judged against the direct oracle for the state current at
   that moment (initial state, non-target parameters), all returned arrays are KEPT and compared at the end with the
   copies taken when they were returned.  Arrays the caller handed in (theta, x0, y, t, weights) that come back changed are
   TAGGED `input-modified:*` (a side effect alone is not a violation of C20); `sens_to_jtj` - the accumulator the property
   names - is called twice on one caller-owned array and BOTH values are judged against the oracle (as found it scaled the
   array in place, so the second value had the weights applied twice: repaired by `fix:` 06ea049).  In the Lean model `sensToJtj`, `hessian` and `odeAndForwardForward`
   are pure functions of their explicit arguments (weights, the integrated sensitivity rows, residuals): there is no
   instance state, so "a second call with the same arguments returns the same matrix, whatever happened in between" holds
   by construction of the model (`C20.jtj_entry` / `C20.hessianH_entry` give every entry as a function of those arguments
   alone); a memo keyed on less than (theta, initial state, the ode's other parameters), or a returned internal buffer,
   is exactly what breaks that on the Python side.
 * ROUND C: `select` cases run the NAMED selections through systematically - observed states: all of them in every non-declared
   order / a subset of >= 2 in a non-declared order / all in declared order / one; target_param: None / every parameter in a
   non-declared order / a subset in non-declared order - always with weights that DIFFER BETWEEN THE OBSERVED STATES (per-state
   vector, or n x p matrix with different columns), including a weight exactly 0 or exactly 1 for one state, on SIR_norm, `products`
   and `general` random models (<= 3 states) and the time-dependent catalogue; a single observation time, a parameter exactly 0.
   jtj / hessian / the full_output dictionaries are judged against the direct oracle in which observations, weights and
   sensitivities are all taken in the NAMED order (`oidx`, `tidx`).  Lean: `jtj_perm_equivariant` (re-ordering the observed states
   is harmless exactly when the weights are re-ordered along) + `jtj_weights_not_permuted_counterexample`.
   `timedep` cases: losscommon.TD_CATALOGUE (a parameter acting only during a window of time, see C07) - the reference flow is the
   HAND-WRITTEN right-hand side integrated piecewise between the non-smooth time points; the second-order right-hand side is
   compared pointwise at a time INSIDE the window.
"""
import copy
import json
import random
from fractions import Fraction

import numpy as np

from .. import exprs as E
from .. import gen, pymodel
from . import losscommon as LC
from .senscommon import close_arr, fmat, fvec, layout, ref_solve, richardson_dir, subst_params, to_float, worst

PROP = "C20"
LEAN = {"module": "Pygom.Props.C20",
        "required": ["Pygom.C20.jtj_entry", "Pygom.C20.jtj_symm", "Pygom.C20.jtj_posSemidef", "Pygom.C20.jtj_perm_equivariant",
                     "Pygom.C20.jtj_weights_not_permuted_counterexample", "Pygom.C20.ff_rhs_entry",
                     "Pygom.C20.ff_rhs_is_true", "Pygom.C20.gjs_entry", "Pygom.C20.odeAndForwardForward_ff_block",
                     "Pygom.C20.ffTrue_is_total_derivative_of_sens_rhs", "Pygom.C20.ff_rhs_terms_independent",
                     "Pygom.C20.ff_asFound_entry", "Pygom.C20.ff_rhs_asFound_partial", "Pygom.C20.ff_rhs_asFound_counterexample",
                     "Pygom.C20.hessianH_entry", "Pygom.C20.hessian_is_second_derivative_partial",
                     "Pygom.C20.hessian_asFound_sign_counterexample",
                     "Pygom.C20.scatter_entry", "Pygom.C20.scatter_sum", "Pygom.C20.scatterAsFound_eq_of_nodup",
                     "Pygom.C20.scatter_asFound_counterexample", "Pygom.C20.hessian_overwrite_asFound_counterexample"]}
BUDGET = {"quick": {"catalogue": 12, "additive": 8, "general": 12, "products": 10, "one_state": 2, "select": 144, "timedep": 32, "duplicate": 18},
          "thorough": {"catalogue": 120, "additive": 120, "general": 200, "products": 120, "one_state": 12, "select": 1440, "timedep": 320, "duplicate": 180}}
RULE = ("SquareLoss on SIR / SEIR / SIR_norm and on random bounded models (2-4 states, 1-3 free parameters; 'additive' models have "
        "no second derivative involving a parameter: free parameters enter as constant birth rates; 'general' ones multiply parameters "
        "by states, by each other through symbolic magnitudes, and divide by 1+b*Y; 'products' ones always contain a rate a*b*X "
        "(parameter x parameter x state), a squared parameter a*a*X or a*a (d2f/dtheta2 != 0) and a mass-action rate a*X*Y, so that "
        "each of the three parameter terms of the second-order equation - tags term:state-param, term:param-param, term:param-squared - "
        "is non-zero for the target parameters), "
        "5-9 observation times, 1-2 observed states in any order, weights none/scalar/per-state/full, target_param subsets in any "
        "order; a case is non-trivial when jtj has rank >= 1 and the second-order part of the true Hessian exceeds 1% of its scale.  "
        "Every case also carries constructor-argument forms (x0 list/tuple/float array/int list/int array, y and t as array or list, "
        "theta0 list/array/tuple, weights as given/array/tuple/int) and a SESSION of 7-20 operations on the live loss object: "
        "jtj / hessian in both output forms with theta as list/tuple/array/numpy scalars/omitted, re-asked after a write into the "
        "returned matrix, after costIV/residualIV/diff_lossIV/sensitivityIV moved the initial state (and back), after a non-target "
        "parameter of the shared ode changed (and back), after the ode's target parameters / initial values were scrambled, after "
        "another theta, another loss object on the same ode, a deepcopy moved elsewhere; every evaluation is judged against the direct "
        "oracle of the state current at that moment (tags session:agrees:* count them, session:evals=n per case), full_output "
        "dictionaries entry by entry, kept results and caller arrays compared at the end; sens_to_jtj / sens_to_grad are called "
        "twice on one caller-owned array.  ROUND C: `select` cases (SIR_norm / products / general models with <= 3 states / time-dependent "
        "catalogue, in turn) run observed states through all-permuted (every non-declared order in turn) / subset-permuted / all-declared / "
        "one and target_param through None / all-permuted / subset-permuted, weights per-state or n x p with different columns, one weight "
        "exactly 0 or exactly 1, single observation time (one observed state), a parameter exactly 0 (tags select:*, boundary:*); a quarter "
        "of them carry a session; `timedep` cases: every (model, window shape) pair of losscommon.TD_CATALOGUE x TD_SHAPES in turn, the "
        "windowed parameter always free, pointwise right-hand-side comparison at a time inside the window.  ROUND D: `duplicate` cases - a state "
        "OBSERVED MORE THAN ONCE (replicate series: state_name=['I','I'], ['I','S','I'], ['S','S','S'], ...; one data column per entry), the copies "
        "with equal weights / DIFFERENT per-state weights / n x p weight matrix / none / scalar / a weight exactly 0 for one copy, target_param "
        "None / permuted / subset, on SIR_norm, products / general models and the time-dependent catalogue in turn; jtj, hessian, both "
        "full_output dictionaries AND cost / gradient are judged by the same direct oracle (sum over the observed COLUMNS); the Lean "
        "`hessian` is fed the repeated `_stateIndex` (tags duplicate:*, hessian-assembly:agrees)")
ASSUMPTIONS = ["integrating the sensitivity systems yields the derivatives of the solution (as in C13); scipy integrators within tolerance",
               "the finite-difference Hessian of the reference cost is accurate to ~1e-6 relative (Richardson on 1e-12 solutions); "
               "comparisons use 1e-3 relative",
               "hessian_is_second_derivative_partial takes as hypotheses that the integrated first-order / forward-forward blocks are the "
               "first- / second-order sensitivities of the observed states (variational-equation theorem, not in Mathlib); what is "
               "proved is that the integrated system is the second-order variational equation (ff_rhs_is_true) and the assembly",
               "time-dependent catalogue: the window's non-smooth time points do not depend on the parameters, so the reference solution at a "
               "fixed time is smooth in the parameters; pygom integrates across those points with its own error control (trajectory error up to "
               "~5e-7 observed): the residual entry of the full_output dictionaries is compared at 1e-5 (1+|x|) max(w) for these models",
               "the pointwise right-hand-side oracle trusts sympy.diff / lambdify applied to get_ode_eqn() (C01 ties get_ode_eqn, C03 sympy.diff)"]
TRUSTED = ["harness generator", "hand-written right-hand sides of the time-dependent catalogue (losscommon.TD_CATALOGUE)", "Lean driver JSON codec and list<->function glue", "numpy/scipy float arithmetic within the stated tolerances"]

SIG_MIXED = "hessian:missing-mixed-terms"        # a VIOLATION like any other (the finding was repaired)
SIG_RHS = "forwardforward:rhs-not-second-order-equation"


# ---------------------------------------------------------------------------------------------------------
def _additive_model(r):
    """free parameters only as constant birth rates; every other coefficient numeric -> no mixed second derivatives"""
    nS = r.randint(2, 4)
    states = r.sample(gen.STATE_POOL, nS)
    nfree = r.randint(1, 3)
    free = r.sample(gen.PARAM_POOL, nfree)
    fixed = ["q%d" % i for i in range(3)]
    procs = gen.gen_processes(r, states, fixed, r.randint(2, 4), [("linear", 3), ("mass", 4), ("saturating", 2)], max_trans=2, sym_mag=False, max_mag=2)
    if not any(p["kind"] in ("mass", "saturating") for p in procs):
        procs += gen.gen_processes(r, states, fixed, 1, [("mass", 1)], max_trans=1, sym_mag=False, max_mag=2)
    for p in free:
        procs.append({"rate": E.var(p), "kind": "const", "transitions": [{"type": "B", "origin": None, "dest": r.choice(states), "mag": E.num(r.randint(1, 2))}]})
    spec = {"state": {"list": states}, "param": {"list": free}, "derived": [],
            "ctor": {"event": [], "transition": [], "birth_death": [], "ode": []}, "then": []}
    for p in procs:
        _, (where, payload) = gen.route_process(r, p, ("event",))
        spec["ctor"][where].append(payload)
    spec = subst_params(spec, {q: Fraction(r.randint(5, 40), 100) for q in fixed})
    return spec, states, free


def _product_model(r):
    """always: a mass-action rate a*X*Y, a product rate a*b*X (parameter x parameter x state) and a squared parameter
    (a*a*X or a constant birth a*a); all coefficients are FREE parameters"""
    nS = r.randint(2, 3)
    states = r.sample(gen.STATE_POOL, nS)
    nP = r.randint(2, 3)
    free = r.sample(gen.PARAM_POOL, nP)
    V = E.var
    def tr(tt, o=None, d=None, m=1):
        return {"type": tt, "origin": o, "dest": d, "mag": E.num(m)}
    procs = []
    o, d = r.sample(states, 2)
    a = r.choice(free)
    procs.append({"rate": E.mul(E.mul(V(a), V(o)), V(d)), "kind": "mass", "transitions": [tr("T", o, d)]})
    a, b = r.sample(free, 2)
    o, d = r.sample(states, 2)
    procs.append({"rate": E.mul(E.mul(V(a), V(b)), V(o)), "kind": "param-product",
                  "transitions": [tr("T", o, d) if r.random() < 0.6 else tr("D", o)]})
    a = r.choice(free)
    if r.random() < 0.5:
        o = r.choice(states)
        procs.append({"rate": E.mul(E.mul(V(a), V(a)), V(o)), "kind": "param-squared", "transitions": [tr("D", o, None, r.randint(1, 2))]})
    else:
        procs.append({"rate": E.mul(V(a), V(a)), "kind": "param-squared-const", "transitions": [tr("B", None, r.choice(states))]})
    if r.random() < 0.5:
        procs += gen.gen_processes(r, states, free, 1, [("linear", 3), ("saturating", 2)], max_trans=1, sym_mag=True, max_mag=2)
    r.shuffle(procs)
    spec = {"state": {"list": states}, "param": {"list": free}, "derived": [],
            "ctor": {"event": [], "transition": [], "birth_death": [], "ode": []}, "then": []}
    for p in procs:
        _, (where, payload) = gen.route_process(r, p, ("event",))
        spec["ctor"][where].append(payload)
    return spec, states, free


def _general_model(r):
    spec, meta = gen.gen_model(r, allow_time=False, min_events=2, min_states=2, max_states=4, max_params=3, max_mag=2,
                               kinds=[("linear", 4), ("mass", 4), ("saturating", 2)], allow_range=False)
    return spec, meta["states"], meta["params"]


def _obs_setup(r, states, params, case):
    nobs = 1 if len(states) == 1 or r.random() < 0.45 else 2
    obs = r.sample(states, nobs)
    if r.random() < 0.6:
        obs = sorted(obs, key=states.index)           # ascending order most of the time; any order otherwise
    tgt = None
    if len(params) >= 2 and r.random() < 0.4:
        tgt = r.sample(params, r.randint(1, len(params)))
        if r.random() < 0.7:
            tgt = sorted(tgt, key=params.index)
    wk = r.choice(["none", "scalar", "per_state", "full"])
    n = r.randint(5, 9)
    if wk == "none":
        w = None
    elif wk == "scalar":
        w = r.choice([0.5, 2.0, 3.0])
    elif wk == "per_state":
        w = [r.choice([0.5, 1.0, 2.0, 3.0]) for _ in obs] if nobs > 1 else r.choice([0.5, 2.0])
    else:
        w = [[r.choice([0.5, 1.0, 1.5, 2.0]) for _ in obs] for _ in range(n)]
        if nobs == 1:
            w = [row[0] for row in w]
    case.update({"obs": obs, "target": tgt, "weights": w, "wkind": wk, "n": n, "noise_seed": r.getrandbits(31)})
    return case


def _perms(names):
    """the orders of all the names other than the declared one"""
    return [p for p in LC.all_orders(names) if p != list(names)]


def _select_setup(r, j, states, params, case):
    """SELECTIONS IN EVERY ORDER (round c), systematic in j: observed states = all of them in a non-declared order / a subset of
    >= 2 in a non-declared order / all in declared order or one; target_param = None / every parameter in a non-declared order /
    a subset in a non-declared order; weights that DIFFER BETWEEN THE OBSERVED STATES (per state, or per observation and state),
    with the boundary values 0 and 1 for one state.  The oracle applies the weights, the observations and the sensitivities in
    the NAMED order."""
    nS, nP = len(states), len(params)
    om, tm, wm = j % 3, (j // 3) % 3, (j // 9) % 4
    k = j // 9
    if om == 0 or nS == 1:
        pp = _perms(states)
        obs = pp[k % len(pp)] if pp else list(states)
    elif om == 1:
        if nS >= 3:
            size = 2 if nS == 3 else r.randint(2, nS - 1)
            subs = [q for q in LC.all_orders(states, size) if [states.index(x) for x in q] != sorted(states.index(x) for x in q)]
            obs = subs[k % len(subs)]
        else:
            obs = [states[k % nS]]
    else:
        obs = list(states) if k % 2 == 0 else [states[(k // 2) % nS]]
    if tm == 0 or nP == 1:
        tgt = None
    elif tm == 1:
        pp = _perms(params)
        tgt = pp[k % len(pp)]
    else:
        size = r.randint(1, nP - 1) if nP > 2 else 1
        tgt = sorted(r.sample(params, size), key=params.index, reverse=True)
    nobs = len(obs)
    n = r.randint(5, 8)
    bnd = []
    if nobs == 1 and r.random() < 0.25:
        n = 1
        bnd.append("single-observation-time")
    if nobs > 1:
        base = r.sample([0.5, 1.5, 2.0, 3.0], nobs) if nobs <= 4 else [r.choice([0.5, 1.5, 2.0, 3.0]) for _ in obs]
        z = r.randrange(nobs)
        if wm == 2:
            base[z] = 0.0
            bnd.append("weight-zero-for-one-state")
        elif wm == 3:
            base[z] = 1.0
            bnd.append("weight-one-for-one-state")
        if wm == 1:
            wk, w = "full", [[v * r.choice([0.5, 1.0, 1.5, 2.0]) for v in base] for _ in range(n)]
        else:
            wk, w = "per_state", base
    else:
        wk = ["scalar", "full", "none", "scalar"][wm]
        w = None if wk == "none" else (r.choice([0.5, 2.0, 3.0]) if wk == "scalar" else [r.choice([0.5, 1.0, 1.5, 2.0]) for _ in range(n)])
    if r.random() < 0.12:
        z = r.randrange(nP)
        case["theta"] = list(case["theta"]); case["theta"][z] = 0.0
        bnd.append("parameter-exactly-zero")
    case.update({"obs": obs, "target": tgt, "weights": w, "wkind": wk, "n": n, "noise_seed": r.getrandbits(31), "boundary": bnd,
                 "select": {"obs": ("all-permuted" if nobs == nS and obs != list(states) else "all-declared" if nobs == nS else
                                    "one" if nobs == 1 else "subset-permuted"),
                            "target": "none" if tgt is None else ("all-permuted" if len(tgt) == nP else "subset")}})
    return case


def _td_case_c20(r, name, shape):
    s = LC.gen_setup_td(r, name=name, shape=shape)
    return {"kind": "td", "td": s["model"], "states": s["states"], "params": s["params"], "theta": list(s["theta_true"]),
            "x0": list(s["x0"]), "T": round(float(s["times"][-1]), 3)}


def _select_case(r, i):
    src, j = i % 4, i // 4
    if src == 0:
        c = {"kind": "catalogue", "name": "SIR_norm", "states": ["S", "I", "R"], "params": ["beta", "gamma"],
             "theta": [r.uniform(0.8, 2.0), r.uniform(0.2, 0.6)], "x0": [0.9, 0.1, 0.0], "T": 6.0}
    elif src == 2:
        names = [k for k in sorted(LC.TD_CATALOGUE) if len(LC.TD_CATALOGUE[k]["states"]) <= 3 or k == "SIR_constN"]
        c = _td_case_c20(r, names[j % len(names)], r.choice(sorted(LC.TD_SHAPES)))
    else:
        fn = _product_model if src == 1 else _general_model
        for _ in range(20):
            spec, states, params = fn(r)
            if len(states) <= 3:
                break
        c = {"kind": "products" if src == 1 else "general", "spec": spec, "states": states, "params": params,
             "theta": [r.randint(5, 60) / 100.0 for _ in params], "x0": [r.randint(5, 20) / 10.0 for _ in states], "T": r.choice([1.0, 2.0])}
    _select_setup(r, j, c["states"], c["params"], c)
    c["family"] = "select"
    if r.random() < 0.25:
        _session_setup(r, c)
    return c


def _timedep_case(r, i):
    names = [k for k in sorted(LC.TD_CATALOGUE) if LC.TD_CATALOGUE[k]["windowed"]]
    shapes = sorted(LC.TD_SHAPES)
    name = names[i % len(names)]
    c = _td_case_c20(r, name, shapes[(i // len(names)) % len(shapes)])
    _obs_setup(r, c["states"], c["params"], c)
    wp = LC.TD_CATALOGUE[name]["windowed"]
    if c["target"] is not None and wp not in c["target"]:
        c["target"] = c["target"][:-1] + [wp]           # the parameter that acts only during the window is always free
    c["family"] = "timedep"
    if r.random() < 0.3:
        _session_setup(r, c)
    return c


def _duplicate_case(r, i):
    """ROUND D (housekeeping after /repo fix 9e5845f, `np.add.at` in hessian): a state observed MORE THAN ONCE.  Systematic in i:
    source model (SIR_norm / products / general / time-dependent catalogue), pattern of the repetition, weights of the copies,
    target selection.  Everything is judged by the direct oracle of run_case, which takes one data column, one weight column and
    one sensitivity block PER ENTRY of state_name (`oidx` may repeat)."""
    src, j = i % 4, i // 4
    if src == 0:
        c = {"kind": "catalogue", "name": "SIR_norm", "states": ["S", "I", "R"], "params": ["beta", "gamma"],
             "theta": [r.uniform(0.8, 2.0), r.uniform(0.2, 0.6)], "x0": [0.9, 0.1, 0.0], "T": 6.0}
    elif src == 2:
        names = [k for k in sorted(LC.TD_CATALOGUE) if len(LC.TD_CATALOGUE[k]["states"]) <= 3 or k == "SIR_constN"]
        c = _td_case_c20(r, names[j % len(names)], r.choice(sorted(LC.TD_SHAPES)))
    else:
        fn = _product_model if src == 1 else _general_model
        for _ in range(20):
            spec, states, params = fn(r)
            if len(states) <= 3:
                break
        c = {"kind": "products" if src == 1 else "general", "spec": spec, "states": states, "params": params,
             "theta": [r.randint(5, 60) / 100.0 for _ in params], "x0": [r.randint(5, 20) / 10.0 for _ in states], "T": r.choice([1.0, 2.0])}
    states, params = c["states"], c["params"]
    nS, nP = len(states), len(params)
    a = states[r.randrange(nS)]
    others = [s_ for s_ in states if s_ != a]
    b = r.choice(others) if others else a
    pat = ["twice", "twice-around-another", "twice-after-another", "thrice", "two-pairs", "twice-before-another"][j % 6]
    obs = {"twice": [a, a], "twice-around-another": [a, b, a], "twice-after-another": [b, a, a], "thrice": [a, a, a],
           "two-pairs": [a, b, b, a], "twice-before-another": [a, a, b]}[pat]
    nobs = len(obs)
    n = r.randint(5, 8)
    wm = (j // 6 + j) % 5
    bnd = []
    base = [r.choice([0.5, 1.5, 2.0, 3.0]) for _ in obs]
    first, last = obs.index(a), nobs - 1 - obs[::-1].index(a)
    if wm in (0, 1, 4) and base[first] == base[last]:
        base[last] = base[first] + 1.0                   # the copies of one state carry DIFFERENT weights
    if wm == 0:
        wk, w = "per_state", base
    elif wm == 1:
        wk, w = "full", [[v * r.choice([0.5, 1.0, 1.5, 2.0]) for v in base] for _ in range(n)]
    elif wm == 2:
        wk, w = "none", None
    elif wm == 3:
        wk, w = "scalar", r.choice([0.5, 2.0, 3.0])
    else:
        base[r.choice([first, last])] = 0.0
        wk, w = "per_state", base
        bnd.append("weight-zero-for-one-copy")
    tm = (j // 2) % 3
    if tm == 0 or nP == 1:
        tgt = None
    elif tm == 1:
        pp = _perms(params)
        tgt = pp[j % len(pp)]
    else:
        tgt = sorted(r.sample(params, r.randint(1, nP - 1)), key=params.index, reverse=True)
    c.update({"obs": obs, "target": tgt, "weights": w, "wkind": wk, "n": n, "noise_seed": r.getrandbits(31), "boundary": bnd,
              "family": "duplicate", "duplicate": pat})
    if r.random() < 0.25:
        _session_setup(r, c)
    return c


EVAL_FNS = ["jtj", "jtj", "jtj_full", "hessian", "hessian_full"]
THETA_FORMS = ["list", "tuple", "array", "npscalars", "none"]
IV_ENTRIES = ["costIV", "costIV", "residualIV", "diff_lossIV", "sensitivityIV"]


def _session_setup(r, c):
    """the call history run on the live loss object after the first judgements, and the forms in which the constructor
    arguments are handed over.  Every choice is recorded in the case: a replay reproduces the session exactly."""
    states, params, tgt = c["states"], c["params"], c["target"]
    x0 = c["x0"]
    integral = all(float(v).is_integer() for v in x0)
    if integral and c["kind"] == "catalogue":   # SIR / SEIR: keep the alternative initial state integral as well
        k = r.randint(1, 4)
        x0b = list(x0); x0b[0] = float(x0[0] - k); x0b[-2 if len(x0) > 2 else -1] += float(k)
    else:
        x0b = [round(v * r.uniform(0.7, 1.3), 3) for v in x0]
    nontarget = [p for p in params if tgt is not None and p not in tgt]
    alt = "nontarget" if (nontarget and r.random() < 0.4) else "x0"
    ntp = None
    if alt == "nontarget":
        nm = r.choice(nontarget)
        ntp = {"name": nm, "value": round(c["theta"][params.index(nm)] * r.choice([0.7, 0.8, 1.25, 1.4]), 6)}
    ev = lambda fn=None: {"op": "eval", "fn": fn or r.choice(EVAL_FNS), "form": r.choice(THETA_FORMS)}
    move = (lambda to: {"op": "iv", "entry": r.choice(IV_ENTRIES), "to": to}) if alt == "x0" else (lambda to: {"op": "ode_param", "to": to})
    blocks = []
    fn = r.choice(EVAL_FNS)                       # A: write into what was returned, ask again
    blocks.append([ev(fn), {"op": "write", "how": r.choice(["row_grad", "damp", "fill"])}, ev(fn)])
    fn = r.choice(EVAL_FNS)                       # B: move the state, ask again, move back, ask again
    blocks.append([ev(fn), move("alt"), ev(fn), move("base"), ev(fn)])
    for _ in range(r.randint(1, 2)):              # C: things the result must not depend on
        fn = r.choice(EVAL_FNS)
        blocks.append([ev(fn), {"op": r.choice(["ode_scramble", "ode_iv", "theta2", "other_loss", "deepcopy"]), "fn": r.choice(EVAL_FNS)}, ev(fn)])
    if r.random() < 0.5:                          # B': moved state seen first by ANOTHER entry point than the one used before
        blocks.append([ev("jtj"), move("alt"), ev("hessian" if r.random() < 0.5 else "jtj_full"), move("base"), ev("jtj")])
    r.shuffle(blocks)
    ops = [o for b in blocks for o in b]
    forms = {"x0": r.choice(["list", "tuple", "array"] + (["int_list", "int_array"] if integral else [])),
             "y": r.choice(["array", "array", "list"]), "t": r.choice(["array", "list"]),
             "theta": r.choice(["list", "array", "tuple"]), "weights": r.choice(["asis", "asis", "array", "tuple", "int"])}
    c["session"] = {"alt": alt, "x0b": x0b, "ntp": ntp, "ops": ops, "forms": forms}
    return c


def make_cases(rng, tier, budget):
    cases = []
    for i in range(budget["catalogue"]):
        r = random.Random(rng.getrandbits(64))
        name = ["SIR_norm", "SIR", "SEIR"][i % 3]
        if name == "SIR_norm":
            states, params = ["S", "I", "R"], ["beta", "gamma"]
            theta = [r.uniform(0.8, 2.0), r.uniform(0.2, 0.6)]; x0 = [0.9, 0.1, 0.0]; T = 6.0
        elif name == "SIR":
            states, params = ["S", "I", "R"], ["beta", "gamma", "N"]
            theta = [r.uniform(0.8, 2.0), r.uniform(0.2, 0.6), 100.0]; x0 = [95.0, 5.0, 0.0]; T = 6.0
        else:
            states, params = ["S", "E", "I", "R"], ["beta", "alpha", "gamma", "N"]
            theta = [r.uniform(0.8, 2.0), r.uniform(0.5, 1.5), r.uniform(0.2, 0.6), 50.0]; x0 = [45.0, 2.0, 3.0, 0.0]; T = 6.0
        c = {"kind": "catalogue", "name": name, "states": states, "params": params, "theta": theta, "x0": x0, "T": T}
        _obs_setup(r, states, params, c)
        if "N" in params:    # N is not estimated: a target_param subset is the documented way
            cand = [p for p in params if p != "N"]
            tgt = r.sample(cand, r.randint(1, len(cand)))
            if r.random() < 0.7:
                tgt = sorted(tgt, key=params.index)
            c["target"] = tgt
        cases.append(_session_setup(r, c))
    for kind, fn in (("additive", _additive_model), ("general", _general_model), ("products", _product_model)):
        for i in range(budget.get(kind, 0)):
            r = random.Random(rng.getrandbits(64))
            spec, states, params = fn(r)
            c = {"kind": kind, "spec": spec, "states": states, "params": params,
                 "theta": [r.randint(5, 60) / 100.0 for _ in params], "x0": [r.randint(5, 20) / 10.0 for _ in states],
                 "T": r.choice([1.0, 2.0])}
            cases.append(_session_setup(r, _obs_setup(r, states, params, c)))
    for i in range(budget["one_state"]):
        r = random.Random(rng.getrandbits(64))
        # x' = -a x^2 + b   or   x' = -a x^2 + a b  (the second has d2f/da db != 0)
        src = E.var("b") if i % 2 == 0 else E.mul(E.var("a"), E.var("b"))
        spec = {"state": {"list": ["X"]}, "param": {"list": ["a", "b"]}, "derived": [],
                "ctor": {"event": [], "transition": [], "birth_death": [],
                         "ode": [{"type": "ODE", "origin": "X", "dest": None, "mag": E.num(1),
                                  "eq": E.add(E.neg(E.mul(E.mul(E.var("a"), E.var("X")), E.var("X"))), src)}]}, "then": []}
        c = {"kind": "one_state", "spec": spec, "states": ["X"], "params": ["a", "b"], "theta": [r.randint(20, 60) / 100.0, r.randint(20, 60) / 100.0],
             "x0": [r.randint(5, 20) / 10.0], "T": 2.0}
        cases.append(_session_setup(r, _obs_setup(r, ["X"], ["a", "b"], c)))
    shift = rng.randrange(1000)          # drawn after everything above: the earlier families are the same as before
    for i in range(budget.get("select", 0)):
        r = random.Random(rng.getrandbits(64))
        cases.append(_select_case(r, i + 4 * shift))
    for i in range(budget.get("timedep", 0)):
        r = random.Random(rng.getrandbits(64))
        cases.append(_timedep_case(r, i + shift))
    for i in range(budget.get("duplicate", 0)):       # after everything above: the earlier families are the same as before
        r = random.Random(rng.getrandbits(64))
        cases.append(_duplicate_case(r, i + 4 * shift))
    return cases


def search_cases(rng, tier, budget):
    return make_cases(rng, tier, {k: 2 * v for k, v in budget.items()})


# ---------------------------------------------------------------------------------------------------------
def _unpack(nS, nP, z):
    S = np.zeros((nS, nP)); X = np.zeros((nS, nP, nP))
    for i in range(nS):
        for a in range(nP):
            S[i, a] = z[nS + a * nS + i]
            for b in range(nP):
                X[i, a, b] = z[nS + nS * nP + (i * nP + a) * nP + b]
    return S, X


def _pack(nS, nP, n, f, dS, dX):
    out = np.zeros(n)
    out[:nS] = f
    for i in range(nS):
        for a in range(nP):
            out[nS + a * nS + i] = dS[i, a]
            for b in range(nP):
                out[nS + nS * nP + (i * nP + a) * nP + b] = dX[i, a, b]
    return out


def _second_order(J, G, D, M, P, S, X):
    """J X + D S S + M S (both orders) + P  with D[i][k][j] = d2f_i/dx_k dx_j, M[i][k][a] = d2f_i/dx_k dtheta_a,
    P[i][a][b] = d2f_i/dtheta_a dtheta_b"""
    dX = np.einsum("il,lab->iab", J, X) + np.einsum("ikj,ka,jb->iab", D, S, S)
    if M is not None:
        dX = dX + np.einsum("ikb,ka->iab", M, S) + np.einsum("ika,kb->iab", M, S)
    if P is not None:
        dX = dX + P
    return dX


def coded_ff_rhs(model, nS, nP, z, t, as_found=False):
    """the coded first + second order sensitivity system with explicit contractions (no kron / reshape tricks), from the
    model's own evaluators; as_found=True: the system before the repair of C20-hessian-mixed-terms (no grad_jacobian /
    grad_grad terms; calls neither)"""
    x = z[:nS]
    S, X = _unpack(nS, nP, z)
    f = np.asarray(model.ode(x, t), float).ravel()
    J = np.asarray(model.jacobian(x, t), float).reshape(nS, nS)
    G = np.asarray(model.grad(x, t), float).reshape(nS, nP)
    D = np.asarray(model.diff_jacobian(x, t), float).reshape(nS, nS, nS)      # D[i][k][j] = d2 f_i / dx_k dx_j
    M = P = None
    if not as_found:
        GJ = np.asarray(model.grad_jacobian(x, t), float).reshape(nP, nS, nS)  # GJ[a][i][k] = d/dx_k df_i/dtheta_a
        M = GJ.transpose(1, 2, 0)
        P = np.asarray(model.grad_grad(x, t), float).reshape(nS, nP, nP)       # row i*nP+a, column b
    return _pack(nS, nP, len(z), f, J @ S + G, _second_order(J, G, D, M, P, S, X))


class SymOracle:
    """the second-order sensitivity system derived HERE from `get_ode_eqn()` by sympy differentiation (independent of
    get_jacobian_eqn / get_grad_eqn / get_diff_jacobian_eqn / get_grad_jacobian_eqn / get_grad_grad_eqn and of every
    compiled evaluator); parameter values are an explicit argument"""

    def __init__(self, model):
        import sympy
        ode = list(model.get_ode_eqn())
        xs = list(model._iterStateList()); ps = list(model._iterParamList())
        self.nS, self.nP = len(xs), len(ps)
        tsym = getattr(model, "_t", sympy.Symbol("t"))
        args = xs + [tsym] + ps
        # one variable at a time: sympy 1.14 gets `diff(S*nu*Max(0, t - c), S, nu)` wrong (returns nu*Max(...)) when asked for both
        # derivatives in one call with pygom's time symbol (declared real=False); the nested form is right (Max(...))
        d = lambda e, *vs: (sympy.diff(e, vs[0]) if len(vs) == 1 else sympy.diff(sympy.diff(e, vs[0]), vs[1]))
        mk = lambda rows: sympy.lambdify(args, sympy.Matrix(rows), modules="numpy")
        self.f = mk([[e] for e in ode])
        self.J = mk([[d(e, x) for x in xs] for e in ode])
        self.G = mk([[d(e, p) for p in ps] for e in ode])
        self.D = mk([[d(e, xk, xj) for xj in xs] for e in ode for xk in xs])            # row i*nS+k, col j
        self.M = mk([[d(e, xk, p) for p in ps] for e in ode for xk in xs])              # row i*nS+k, col a
        self.P = mk([[d(e, pa, pb) for pb in ps] for e in ode for pa in ps])            # row i*nP+a, col b
        self.sym = {"M": [[d(e, xk, p) for p in ps] for e in ode for xk in xs], "P": [[d(e, pa, pb) for pb in ps] for e in ode for pa in ps]}

    def term_tags(self, tidx):
        """which parameter terms of the second-order equation are not identically zero for the target parameters"""
        import sympy
        nS, nP = self.nS, self.nP
        out = set()
        nz = lambda e: sympy.cancel(e) != 0
        if any(nz(self.sym["M"][r][a]) for r in range(nS * nS) for a in tidx):
            out.add("term:state-param")
        for i in range(nS):
            for a in tidx:
                for b in tidx:
                    if nz(self.sym["P"][i * nP + a][b]):
                        out.add("term:param-squared" if a == b else "term:param-param")
        return out

    def rhs(self, theta, z, t):
        nS, nP = self.nS, self.nP
        x = z[:nS]
        args = list(x) + [t] + list(theta)
        A = lambda fn, shape: np.asarray(fn(*args), float).reshape(shape)
        S, X = _unpack(nS, nP, z)
        J, G = A(self.J, (nS, nS)), A(self.G, (nS, nP))
        dX = _second_order(J, G, A(self.D, (nS, nS, nS)), A(self.M, (nS, nS, nP)), A(self.P, (nS, nP, nP)), S, X)
        return _pack(nS, nP, len(z), A(self.f, (nS,)), J @ S + G, dX)


def build_model(case):
    if case["kind"] == "td":
        return LC.build_td(case["td"])[0]
    if case["kind"] == "catalogue":
        from pygom import common_models
        from pygom.model import ode_utils
        m = getattr(common_models, case["name"])()
        m._SC = ode_utils.compileCode(backend="lambda")
        return m
    return pymodel.build(case["spec"], backend="lambda")


def _sig(base, nS, case=None, p_=None):
    s = base + (":nS=1" if nS == 1 else "")
    if case is not None and case.get("wkind") == "full" and p_ == 1 and base.endswith(":raises"):
        s += ":weight-vector-single-state"
    return s


def _run_session(case, sess, ops, L, model, SquareLoss, cx, viol, tags):
    ob, oalt, first_ok, th_arg, theta, x0, ts = cx["ob"], cx["oalt"], cx["first_ok"], cx["th_arg"], cx["theta"], cx["x0"], cx["ts"]
    p_, nT, nS, tnames, check_output = cx["p_"], cx["nT"], cx["nS"], cx["tnames"], cx["check_output"]
    x0b = [float(v) for v in sess["x0b"]]
    th2 = [float(v) * 1.15 for v in th_arg]
    seen = set(v["signature"] for v in viol)

    def report(what, sig, detail):
        if sig not in seen:                 # one report per signature and case
            seen.add(sig)
            viol.append({"what": what, "signature": sig, "detail": detail})

    def theta_in(form, theta_is_base):
        if form == "tuple":
            return tuple(th_arg)
        if form == "array":
            return np.array(th_arg, dtype=float)
        if form == "npscalars":
            return [np.float64(v) for v in th_arg]
        if form == "none" and theta_is_base:
            return None
        return list(th_arg)

    keep = []        # [label, returned object, copy taken when it was returned (or after OUR write)]
    live = []        # other loss objects / copies stay alive until the end

    def call(obj_, fn, arg):
        kw = {} if arg is None else {"theta": arg}
        if fn.endswith("_full"):
            return getattr(obj_, fn[:-5])(full_output=True, **kw)
        return getattr(obj_, fn)(**kw), None

    def evaluate(obj_, fn, form, orc, hist, theta_is_base, label):
        fam = "hessian" if fn.startswith("hessian") else "jtj"
        famsig = fam + (":full-output" if fn.endswith("_full") else "")
        arg = theta_in(form, theta_is_base)
        argc = None if arg is None else np.array(arg, dtype=float)
        try:
            M, out_ = call(obj_, fn, arg)
        except Exception as exc:
            report("%s raised %s: %s (%s)" % (fn, type(exc).__name__, str(exc)[:160], hist), "%s:raises:%s" % (famsig, hist), "theta form %s" % form)
            return None
        keep.append([label, M, np.array(M, dtype=float, copy=True)])
        if out_ is not None:
            for k in ("JTJ", "grad", "H"):
                if isinstance(out_.get(k), np.ndarray):
                    keep.append([label + "[%s]" % k, out_[k], np.array(out_[k], dtype=float, copy=True)])
        if argc is not None and not np.array_equal(np.array(arg, dtype=float), argc):
            tags.append("input-modified:theta")          # a side effect alone is not a violation of C20
        if orc is None or not first_ok.get(fam, False) or (fam == "hessian" and orc.get("H") is None):
            tags.append("session:not-judged:" + ("no-oracle" if orc is None or (fam == "hessian" and orc.get("H") is None) else "first-evaluation-already-reported"))
            return M
        Mf = np.asarray(M, float)
        scaleJ_ = float(np.max(np.abs(orc["JTJ"]))) + 1e-300
        tolJ_ = 1e-5 * scaleJ_ + 1e-10
        ref, tol_ = orc["JTJ"], tolJ_
        tolH_ = None
        if fam == "hessian":
            scaleH_ = max(float(np.max(np.abs(orc["H"]))), 2 * scaleJ_)
            tolH_ = 1e-3 * scaleH_ + 1e-4 * (1.0 + orc["cost"])
            ref, tol_ = orc["H"], tolH_
        if Mf.shape != ref.shape or not close_arr(Mf, ref, 0, tol_):
            report("%s(theta) called again with the same theta (%s; theta as %s) is not what the direct oracle gives for the CURRENT state of the "
                   "loss object (initial state %s, parameters of the ode as they are now)" % (fn, hist, form, label.split("@")[-1]),
                   "%s:value:%s" % (famsig, hist), (worst(Mf, ref) if Mf.shape == ref.shape else "shape %s" % (Mf.shape,)) + " ; " + label)
        elif fam == "jtj" and not close_arr(Mf, Mf.T, 0, 1e-12 * scaleJ_ + 1e-300):
            report("jtj not symmetric (%s)" % hist, "jtj:symmetry:" + hist, worst(Mf, Mf.T))
        else:
            tags.append("session:agrees:" + famsig)
            if out_ is not None:
                check_output(fam, out_, orc, ":" + hist, tolJ_, tolH_)
        return M

    cur = "base"                    # which state the loss object L is in
    hist = "repeat"
    theta_is_base = True
    nev = 0
    orc_of = lambda c_: ob if c_ == "base" else oalt
    try:
        for k, op in enumerate(ops):
            kind = op["op"]
            if kind == "eval":
                nev += 1
                evaluate(L, op["fn"], op["form"], orc_of(cur), hist, theta_is_base, "op%d:%s@%s" % (k, op["fn"], cur))
                hist, theta_is_base = "repeat", True
            elif kind == "write":
                tgt_ = next((e for e in reversed(keep) if "[" not in e[0]), None)
                if tgt_ is not None and isinstance(tgt_[1], np.ndarray) and tgt_[1].ndim == 2 and tgt_[1].flags.writeable:
                    A = tgt_[1]
                    if op["how"] == "row_grad":          # what confidence_interval._profileH does: H[i] = grad
                        A[0] = np.asarray(ob["grad"], float)[:A.shape[1]] + 1.0
                    elif op["how"] == "damp":            # Levenberg damping in place
                        A[np.diag_indices(A.shape[0])] += 1.0 + float(np.max(np.abs(A)))
                    else:
                        A[...] = -7.0
                    tgt_[2] = np.array(A, dtype=float, copy=True)
                    hist = "after-write-into-returned-matrix"
                    tags.append("session:write:" + op["how"])
            elif kind == "iv":
                to = op["to"]
                arg = list(th_arg) + (x0b if to == "alt" else [float(v) for v in x0])
                try:
                    getattr(L, op["entry"])(arg)
                    tags.append("session:iv:" + op["entry"])
                except Exception as exc:
                    tags.append("session:iv-entry-raises:%s:%s" % (op["entry"], type(exc).__name__))
                    L.costIV(arg)
                cur, hist, theta_is_base = to, ("after-iv-moved-initial-state" if to == "alt" else "after-iv-restored-initial-state"), True
            elif kind == "ode_param":
                to = op["to"]
                nm = sess["ntp"]["name"]
                model.parameters = {nm: (sess["ntp"]["value"] if to == "alt" else float(theta[case["params"].index(nm)]))}
                cur, hist = to, ("after-non-target-parameter-changed" if to == "alt" else "after-non-target-parameter-restored")
                tags.append("session:ode-param")
            elif kind == "ode_scramble":
                model.parameters = {nm: float(v) * 1.7 for nm, v in zip(tnames, th_arg)}
                hist = "after-ode-target-parameters-scrambled"
                tags.append("session:ode-scramble")
            elif kind == "ode_iv":
                model.initial_values = (list(x0b), 0.0)
                hist = "after-ode-initial-values-changed"
                tags.append("session:ode-iv")
            elif kind == "theta2":
                try:
                    M2, _ = call(L, op["fn"], list(th2))
                    keep.append(["op%d:%s@other-theta" % (k, op["fn"]), M2, np.array(M2, dtype=float, copy=True)])
                except Exception as exc:
                    tags.append("session:other-theta-raises:" + type(exc).__name__)
                hist, theta_is_base = "after-evaluation-at-another-theta", False
                tags.append("session:theta2")
            elif kind == "other_loss":
                kw = {"target_param": list(cx["tgt"])} if cx["tgt"] is not None else {}
                try:
                    L2 = SquareLoss(list(th_arg) if cx["tgt"] is not None else [float(v) for v in theta], model, list(x0b), 0.0, ts.copy(), cx["yarr"].copy(),
                                    list(cx["obs"]) if p_ > 1 else cx["obs"][0], state_weight=cx["wraw"], **kw)
                    live.append(L2)
                    # the second object lives at the alternative initial state: judged when that is the oracle we have
                    o2_ = oalt if (sess["alt"] == "x0" and cur == "base") else None
                    if sess["alt"] == "nontarget" and cur == "alt":
                        o2_ = None
                    evaluate(L2, op["fn"], "list", o2_, "other-loss-object-on-the-same-ode", True, "op%d:%s@second-object" % (k, op["fn"]))
                    tags.append("session:other-loss")
                except Exception as exc:
                    tags.append("session:other-loss-raises:" + type(exc).__name__)
                hist = "after-other-loss-object-on-the-same-ode"
            elif kind == "deepcopy":
                try:
                    Lc = copy.deepcopy(L)
                except Exception as exc:
                    tags.append("session:deepcopy-unsupported:" + type(exc).__name__)
                    continue
                live.append(Lc)
                evaluate(Lc, op["fn"], "list", orc_of(cur), "on-deepcopy", True, "op%d:%s@deepcopy-of-%s" % (k, op["fn"], cur))
                try:                 # move the copy elsewhere: the original must not follow
                    Lc.costIV(list(th2) + x0b)
                    Lc.jtj(list(th2))
                except Exception as exc:
                    tags.append("session:deepcopy-move-raises:" + type(exc).__name__)
                hist = "after-deepcopy-moved-elsewhere"
                tags.append("session:deepcopy")
    except Exception as exc:
        tags.append("session:aborted:%s" % type(exc).__name__)
    tags.append("session:evals=%d" % nev)
    # ---- kept results: nothing returned earlier may have been changed by a later call
    for label, ref, cp in keep:
        now = np.asarray(ref, float)
        if now.shape != cp.shape or not np.array_equal(now, cp):
            fam = "hessian" if "hessian" in label else "jtj"
            report("an array returned by an earlier %s call was changed by a later call (returned buffer is shared)" % fam,
                   fam + ":returned-array-changed-by-later-call", label + " : " + (worst(now, cp) if now.shape == cp.shape else "shape changed"))
            break
    # ---- the caller's own arrays
    for name, (objv, cp) in cx["given"].items():
        if not np.array_equal(np.array(objv, dtype=float), cp):
            tags.append("input-modified:" + name)         # side effect: a tag (every judged value above was checked on its own)


def run_case(case):
    tags, mism, viol = [], [], []
    states, params = case["states"], case["params"]
    nS, nP = len(states), len(params)
    model = build_model(case)
    if [str(s) for s in model.state_list] != states or [str(p) for p in model.param_list] != params:
        mism.append({"what": "names", "detail": "%s %s" % (model.state_list, model.param_list)})
        return {"nontrivial": False, "mismatches": mism, "violations": viol, "tags": tags}
    theta = np.array(case["theta"], float); x0 = np.array(case["x0"], float)
    obs, tgt = case["obs"], case["target"]
    oidx = [states.index(s) for s in obs]
    tnames = tgt if tgt is not None else params
    tidx = [params.index(p) for p in tnames]
    nT, p_ = len(tidx), len(oidx)
    n = case["n"]; T = case["T"]
    ts = np.linspace(0, T, n + 1)[1:]
    asc = (oidx == sorted(oidx)) and (tidx == sorted(tidx))
    tags += ["kind:" + case["kind"], "nS=%d" % nS, "nT=%d" % nT, "observed=%d" % p_, "order:" + ("ascending" if asc else "non-ascending"),
             "weights:" + case.get("wkind", "?"),
             "target:" + ("all" if tgt is None else "subset")]
    if case.get("family"):
        tags.append("family:" + case["family"])
    tags += ["boundary:" + b for b in case.get("boundary", [])]
    dup = len(set(oidx)) < p_
    if dup:
        tags += ["duplicate:observed-state-repeated", "duplicate:" + case.get("duplicate", "?")]
    if p_ == nS and nS > 1 and not dup:
        tags.append("select:all-states-observed:" + ("declared-order" if obs == states else "permuted") + (":target-none" if tgt is None else ""))
    elif p_ > 1 and oidx != sorted(oidx) and not dup:
        tags.append("select:subset-of-states:permuted")
    if tgt is not None and nT == nP and nP > 1:
        tags.append("select:target_param-all:" + ("declared-order" if tgt == params else "permuted"))
    td_rhs, td_brk, tq = None, [], 0.0
    if case["kind"] == "td":
        # time-dependent catalogue: the reference flow integrates the HAND-WRITTEN right-hand side piecewise between the
        # non-smooth time points (losscommon.ref_traj_td); the pointwise check of the second-order system is made at a time
        # inside the window (where the windowed parameter acts)
        td_rhs = LC.build_td(case["td"])[1]
        td_brk = LC.td_breaks(case["td"]["shape"], case["td"]["win"])
        tq = 0.5 * (case["td"]["win"][0] + case["td"]["win"][1]) if case["td"]["shape"] != LC.TD_AUTONOMOUS else 0.0
        tags += ["td-model:" + case["td"]["name"], "td-shape:" + case["td"]["shape"]]

    sess = case.get("session") or {}
    ops = sess.get("ops", [])
    forms = sess.get("forms", {})

    def make_oracle(x0_, theta_full, need_H, y_=None):
        """the direct oracle for the state (initial state x0_, full parameter vector theta_full): reference solution, finite-
        difference sensitivities of reference solutions, J'J, gradient, weighted residuals and (need_H) the central-difference
        Hessian of the reference gradient.  None when a reference integration fails.  Leaves model.parameters changed."""
        x0_ = np.array(x0_, float); theta_full = np.array(theta_full, float)

        def flow(th_t):
            th = theta_full.copy(); th[tidx] = th_t
            model.parameters = list(th)
            if td_rhs is not None:
                return LC.ref_traj_td(td_rhs, list(th), x0_, 0.0, ts, td_brk, lo=None, hi=1e6)
            return ref_solve(lambda t, yy: np.asarray(model.ode(yy, t), float).ravel(), x0_, 0.0, ts)

        th_t = theta_full[tidx].copy()
        sol = flow(th_t)
        if sol is None:
            return None
        yy = y_ if y_ is not None else None

        def sens_fd(v0):
            """S[i, state, target] by Richardson central differences of reference solutions"""
            S = np.zeros((n, nS, nT))
            for k in range(nT):
                def g(v):
                    r_ = flow(v)
                    if r_ is None:
                        raise FloatingPointError
                    return r_
                S[:, :, k] = richardson_dir(g, v0, k, 1e-3 * max(0.1, abs(v0[k])))
            return S

        o = {"flow": flow, "sol": sol, "sens_fd": sens_fd, "x0": x0_, "theta": theta_full}

        def finish(y):
            def grad_ref(v0):
                xr = flow(v0)
                if xr is None:
                    raise FloatingPointError
                S = sens_fd(v0)
                res = (y - xr[:, oidx]) * W
                return np.einsum("iq,iqk->k", -2.0 * res * W, S[:, oidx, :])
            try:
                S0 = sens_fd(th_t)
                H = None
                if need_H:
                    H = np.zeros((nT, nT))
                    for b in range(nT):
                        H[:, b] = richardson_dir(grad_ref, th_t, b, 2e-3 * max(0.1, abs(th_t[b])))
                    H = 0.5 * (H + H.T)
            except FloatingPointError:
                return None
            Sw = S0[:, oidx, :] * W[:, :, None]
            res = (y - sol[:, oidx]) * W
            o.update(S0=S0, H=H, JTJ=np.einsum("iqa,iqb->ab", Sw, Sw), resid=res,
                     grad=np.einsum("iq,iqk->k", -2.0 * res * W, S0[:, oidx, :]), cost=float(np.sum(res ** 2)))
            return o
        o["finish"] = finish
        return o if yy is None else finish(yy)

    th_t0 = theta[tidx].copy()
    ob = make_oracle(x0, theta, True)
    if ob is None:
        return {"nontrivial": False, "mismatches": mism, "violations": viol, "tags": tags + ["integration-skipped"]}
    base = ob["sol"]
    rs = np.random.default_rng(case["noise_seed"])
    y = base[:, oidx] * (1.0 + 0.3 * rs.standard_normal((n, p_))) + 0.1 * rs.standard_normal((n, p_))
    W = np.ones((n, p_))
    wraw = case["weights"]
    if wraw is not None:
        wa = np.asarray(wraw, float)
        W = W * (wa.reshape(n, p_) if wa.size == n * p_ and wa.ndim >= 1 and (wa.ndim == 2 or p_ == 1) else wa)
    if ob["finish"](y) is None:
        return {"nontrivial": False, "mismatches": mism, "violations": viol, "tags": tags + ["integration-skipped"]}
    S0, H_true, JTJ_true = ob["S0"], ob["H"], ob["JTJ"]
    # the alternative state the session visits (another initial state, or another value of a non-target parameter)
    oalt = None
    if ops:
        alt_needs_H, cur = False, "base"
        for o_ in ops:
            if o_["op"] in ("iv", "ode_param"):
                cur = o_["to"]
            elif o_["op"] == "eval" and cur == "alt" and o_["fn"].startswith("hessian"):
                alt_needs_H = True
        th_alt = theta.copy()
        if sess["alt"] == "nontarget":
            th_alt[params.index(sess["ntp"]["name"])] = sess["ntp"]["value"]
        oalt = make_oracle(sess["x0b"] if sess["alt"] == "x0" else x0, th_alt, alt_needs_H, y_=y)
        if oalt is None:
            tags.append("session:alt-state-integration-skipped")
    # what the code computes today when the selection is sorted (classification only)
    so, st = sorted(oidx), sorted(tidx)
    Sw_sorted = S0[:, so, :][:, :, [tidx.index(k) for k in st]] * W[:, :, None]
    JTJ_sorted = np.einsum("iqa,iqb->ab", Sw_sorted, Sw_sorted)

    # ---- the real loss object (constructor arguments in the forms the case names; the caller's objects are kept)
    model.parameters = list(theta)
    from pygom import SquareLoss

    def as_form(v, form):
        if form == "tuple":
            return tuple(v)
        if form == "array":
            return np.array(v, dtype=float)
        if form == "int_list":
            return [int(a) for a in v]
        if form == "int_array":
            return np.array([int(a) for a in v], dtype=int)
        return list(v)

    wform = forms.get("weights", "asis")
    warg = wraw
    if wraw is not None and not np.isscalar(wraw):
        if wform == "array":
            warg = np.array(wraw, dtype=float)
        elif wform == "tuple":
            warg = tuple(tuple(r_) if isinstance(r_, list) else r_ for r_ in wraw)
        elif wform == "int" and all(float(v).is_integer() for v in np.asarray(wraw, float).ravel()):
            warg = np.array(wraw, dtype=int)
            tags.append("form:weights=int-array")
    elif wraw is not None and wform == "int" and float(wraw).is_integer():
        warg = int(wraw)
        tags.append("form:weights=int-scalar")
    x0arg = as_form(x0, forms.get("x0", "list"))
    yarr = y if p_ > 1 else y.ravel()
    yarg = yarr.tolist() if forms.get("y") == "list" else yarr.copy()
    targ = ts.tolist() if forms.get("t") == "list" else ts.copy()
    th0arg = as_form(list(th_t0) if tgt is not None else list(theta), forms.get("theta", "list"))
    tags += ["form:x0=" + forms.get("x0", "list"), "form:theta0=" + forms.get("theta", "list")]
    given = {"x0": (x0arg, np.array(x0arg, dtype=float)), "y": (yarg, np.array(yarg, dtype=float)), "t": (targ, np.array(targ, dtype=float)),
             "theta0": (th0arg, np.array(th0arg, dtype=float))}
    if warg is not None and not np.isscalar(warg):
        given["weights"] = (warg, np.array(warg, dtype=float))
    try:
        kw = {}
        if tgt is not None:
            kw["target_param"] = list(tgt)
        L = SquareLoss(th0arg, model, x0arg, 0.0, targ, yarg, list(obs) if p_ > 1 else obs[0], state_weight=warg, **kw)
    except Exception as exc:
        viol.append({"what": "SquareLoss(...) raised %s: %s" % (type(exc).__name__, str(exc)[:160]), "signature": _sig("loss-constructor:raises", nS),
                     "detail": json.dumps({k: case[k] for k in ("obs", "target", "weights")}) + " forms=%s" % forms})
        return {"nontrivial": False, "mismatches": mism, "violations": viol, "tags": tags}
    if not close_arr(np.asarray(L._weight, float).reshape(n, p_), W, 1e-12, 0):
        mism.append({"what": "weights", "detail": "harness W differs from loss._weight"})
    th_arg = list(th_t0)

    def check_output(fn, out_, orc, where, tolJ_, tolH_):
        """the entries of a full_output dictionary that the docstrings name, each against its own reference (direct oracle)"""
        scale_g = float(np.max(np.abs(orc["grad"]))) + 1e-300
        refs = {"grad": (orc["grad"], 1e-5 * scale_g + 1e-6 * (1.0 + orc["cost"])),
                # weighted residuals: the error of pygom's own integration (1e-9 on smooth right-hand sides; up to ~5e-7 observed
                # across the non-smooth time points of the time-dependent catalogue) times the largest weight
                "resid": (orc["resid"] if p_ > 1 else orc["resid"].ravel(),
                          (1e-5 if case["kind"] == "td" else 1e-7) * (1.0 + float(np.max(np.abs(orc["sol"])))) * max(1.0, float(np.max(W)))),
                "JTJ": (orc["JTJ"], tolJ_)}
        if fn == "hessian" and orc.get("H") is not None:
            full = np.asarray(out_.get("H", np.zeros((0, 0))), float)
            if full.shape == (nP, nP):
                got = full[tidx][:, tidx]
                if not close_arr(got, orc["H"] - 2 * orc["JTJ"], 0, tolH_):
                    viol.append({"what": "hessian(full_output=True)['H'] (rows/columns of the target parameters) is not the second-order part "
                                         "H_true - 2 J'J of the Hessian of the cost", "signature": "hessian:output-dict:H" + where,
                                 "detail": worst(got, orc["H"] - 2 * orc["JTJ"])})
            else:
                viol.append({"what": "hessian(full_output=True)['H'] has shape %s" % (full.shape,), "signature": "hessian:output-dict:H:shape", "detail": ""})
        # sensitivities of the observed states in the target parameters, in the documented parameter-major layout
        Sref = np.concatenate([orc["S0"][:, oidx, k] for k in range(nT)], axis=1)
        sens = np.asarray(out_.get("sens", np.zeros((0, 0))), float)
        if fn == "jtj" and sens.ndim == 2 and sens.shape[1] == nS + nS * nP:       # jac's dictionary: the whole integrated array
            sens = sens[:, [i + (a + 1) * nS for a in tidx for i in oidx]]
        refs["sens"] = (Sref, 1e-5 * (float(np.max(np.abs(Sref))) + 1e-300) + 1e-9)
        for key, (ref, tol_) in refs.items():
            if key == "JTJ" and fn == "jtj":
                continue
            got = sens if key == "sens" else out_.get(key)
            if got is None:
                viol.append({"what": "%s(full_output=True) has no entry %r" % (fn, key), "signature": "%s:output-dict:%s:missing" % (fn, key), "detail": str(sorted(out_))})
            elif np.asarray(got, float).size != ref.size or not close_arr(np.asarray(got, float).reshape(ref.shape), ref, 0, tol_):
                viol.append({"what": "%s(full_output=True)[%r] differs from its reference (direct oracle: reference solutions and their finite-difference "
                                     "sensitivities)" % (fn, key), "signature": "%s:output-dict:%s%s" % (fn, key, where),
                             "detail": worst(np.asarray(got, float).reshape(ref.shape) if np.asarray(got, float).size == ref.size else np.asarray(got, float), ref)
                             + " weights=%s" % case.get("wkind")})

    # ---- a state observed more than once: the cost and the gradient the curvature is meant to describe (sum over the observed
    # COLUMNS, one data / weight column per entry of state_name) - judged here only for these selections (C06 / C07 own the rest)
    if dup:
        loose = 1e-4 if case["kind"] == "td" else 1e-6
        for nm, f_, ref_, tol_ in (("cost", lambda: L.cost(th_arg), np.array(ob["cost"]), loose * (1.0 + ob["cost"])),
                                   ("gradient", lambda: L.gradient(th_arg), ob["grad"],
                                    1e-5 * (float(np.max(np.abs(ob["grad"]))) + 1e-300) + loose * (1.0 + ob["cost"]))):
            try:
                got = np.asarray(f_(), float)
            except Exception as exc:
                viol.append({"what": "%s raised %s: %s" % (nm, type(exc).__name__, str(exc)[:160]), "signature": nm + ":duplicate-observed-state:raises", "detail": "obs=%s" % obs})
                continue
            if got.size != ref_.size or not close_arr(got.reshape(ref_.shape), ref_, 0, tol_):
                viol.append({"what": "%s(theta) with a state observed more than once is not the %s of the weighted square loss summed over every observed column"
                                     % (nm, nm), "signature": nm + ":duplicate-observed-state:value",
                             "detail": (worst(got.reshape(ref_.shape), ref_) if got.size == ref_.size else "shape %s" % (got.shape,)) + " obs=%s weights=%s" % (obs, case.get("wkind"))})
            else:
                tags.append("duplicate:%s-agrees" % nm)

    # ---- jtj
    nviol_before_jtj = len(viol)
    scaleJ = float(np.max(np.abs(JTJ_true))) + 1e-300
    tolJ = 1e-5 * scaleJ + 1e-10
    cost0 = float(np.sum(((y - base[:, oidx]) * W) ** 2))
    try:
        Jp, out = L.jtj(th_arg, full_output=True)
        Jp = np.asarray(Jp, float)
        err = None
    except Exception as exc:
        Jp, err = None, "%s: %s" % (type(exc).__name__, str(exc)[:160])
    if err:
        viol.append({"what": "jtj raised " + err, "signature": _sig("jtj:raises", nS, case, p_), "detail": ""})
    else:
        if Jp.shape != (nT, nT):
            viol.append({"what": "jtj has shape %s, expected %s" % (Jp.shape, (nT, nT)), "signature": _sig("jtj:shape", nS), "detail": ""})
        else:
            if not close_arr(Jp, JTJ_true, 0, tolJ):
                if not asc and close_arr(Jp, JTJ_sorted, 0, tolJ):
                    viol.append({"what": "jtj is computed for the SORTED state/parameter selection, not the supplied order", "signature": "jtj:sens-index-order",
                                 "detail": worst(Jp, JTJ_true) + " obs=%s target=%s" % (obs, tgt)})
                else:
                    viol.append({"what": "jtj != sum of outer products of the weighted sensitivities (finite differences of reference solutions)",
                                 "signature": _sig("jtj:value", nS), "detail": worst(Jp, JTJ_true) + " obs=%s target=%s" % (obs, tgt)})
            if not close_arr(Jp, Jp.T, 0, 1e-12 * scaleJ + 1e-300):
                viol.append({"what": "jtj not symmetric", "signature": "jtj:symmetry", "detail": worst(Jp, Jp.T)})
            ev = np.linalg.eigvalsh(0.5 * (Jp + Jp.T))
            if ev.min() < -1e-10 * np.linalg.norm(Jp):
                viol.append({"what": "jtj not positive semi-definite: min eigenvalue %.3e" % ev.min(), "signature": "jtj:psd", "detail": str(ev)})
            # model tie: the Lean sens_to_jtj on the very array the code integrated
            idx = L._getTargetParamSensIndex()
            sens_sel = np.asarray(out["sens"], float)[:, idx]
            lj = to_float(layout("sensToJtj", numS=p_, w=fmat(W.tolist()), sens=fmat(sens_sel.tolist())))
            if not close_arr(Jp, lj.reshape(nT, nT), 1e-9, 1e-9 * scaleJ + 1e-14):
                mism.append({"what": "sens_to_jtj vs Lean sensToJtj", "detail": worst(Jp, lj.reshape(nT, nT))})
            check_output("jtj", out, ob, "", tolJ, None)

    first_ok = {"jtj": len(viol) == nviol_before_jtj}
    # ---- forward-forward right-hand side, pointwise
    try:
        sym = SymOracle(model)
        terms = sym.term_tags(tidx)
    except Exception as exc:
        sym, terms = None, set()
        mism.append({"what": "harness SymOracle", "detail": "%s: %s" % (type(exc).__name__, str(exc)[:200])})
    tags += sorted(terms) if terms else ["term:none"]
    missing = [nm for nm in ("grad_jacobian", "grad_grad") if not hasattr(model, nm)]
    if missing:
        # the modelled source has these evaluators: their absence is a broken correspondence, not a crash of the harness
        mism.append({"what": "evaluator missing: " + ",".join(missing),
                     "detail": "the Lean model (Sens.evalForwardForward) mirrors eval_forwardforward WITH the grad_jacobian / grad_grad terms"})
    # time-dependent models: once at a time inside the window and once outside it (where the windowed parameter's column of
    # d f / d theta is exactly zero but S and X are not: an evaluator that skips "inactive" parameters is wrong there)
    tqs = [tq]
    if case["kind"] == "td" and case["td"]["shape"] != LC.TD_AUTONOMOUS:
        a_, b_ = case["td"]["win"]
        tqs.append(0.5 * a_ if case["td"]["shape"].startswith("late") else b_ + 0.5)
    for tq in tqs:
        rz = random.Random(case["noise_seed"])
        zq = [Fraction(rz.randint(1, 30), 10) for _ in range(nS)] + [Fraction(rz.randint(-20, 20), 8) for _ in range(nS * nP + nS * nP * nP)]
        z = np.array([float(q) for q in zq])
        xq = z[:nS]
        model.parameters = list(theta)
        Fq = lambda arr, r_, c_: [[Fraction(float(v)) for v in row] for row in np.asarray(arr, float).reshape(r_, c_)]
        fq = [Fraction(float(v)) for v in np.asarray(model.ode(xq, tq), float).ravel()]
        Jq = Fq(model.jacobian(xq, tq), nS, nS)
        Gq = Fq(model.grad(xq, tq), nS, nP)
        Dq = Fq(model.diff_jacobian(xq, tq), nS * nS, nS)
        try:
            real = np.asarray(model.ode_and_forwardforward(z, tq), float).ravel()
            if not missing:
                GJq = Fq(model.grad_jacobian(xq, tq), nP * nS, nS)
                GGq = Fq(model.grad_grad(xq, tq), nS * nP, nP)
                lo = to_float(layout("odeAndForwardForward", nS=nS, nP=nP, f=fvec(fq), J=fmat(Jq), G=fmat(Gq), DJ=fmat(Dq),
                                     GJ=fmat(GJq), GG=fmat(GGq), z=fvec(zq)))
                sc = 1.0 + float(np.max(np.abs(lo)))
                if not close_arr(real, lo, 1e-10, 1e-10 * sc):
                    mism.append({"what": "ode_and_forwardforward vs Lean odeAndForwardForward", "detail": worst(real, lo)})
                mine = coded_ff_rhs(model, nS, nP, z, tq)
                if not close_arr(mine, lo, 1e-10, 1e-10 * sc):
                    mism.append({"what": "harness coded_ff_rhs vs Lean odeAndForwardForward", "detail": worst(mine, lo)})
            # the as-found variant of the harness and of the Lean model agree (it is used for classification below)
            lo_af = to_float(layout("odeAndForwardForwardAsFound", nS=nS, nP=nP, f=fvec(fq), J=fmat(Jq), G=fmat(Gq), DJ=fmat(Dq), z=fvec(zq)))
            mine_af = coded_ff_rhs(model, nS, nP, z, tq, as_found=True)
            if not close_arr(mine_af, lo_af, 1e-10, 1e-10 * (1.0 + float(np.max(np.abs(lo_af))))):
                mism.append({"what": "harness coded_ff_rhs(as_found) vs Lean odeAndForwardForwardAsFound", "detail": worst(mine_af, lo_af)})
            # independent oracle: derivatives taken here from get_ode_eqn()
            if sym is not None:
                orc = sym.rhs(theta, z, tq)
                sco = 1.0 + float(np.max(np.abs(orc)))
                if not close_arr(real, orc, 1e-9, 1e-9 * sco):
                    if close_arr(real, mine_af, 1e-9, 1e-9 * sco):
                        what = "ode_and_forwardforward omits the grad_jacobian / grad_grad terms (equals the as-found system)"
                    else:
                        what = "ode_and_forwardforward is not the second-order sensitivity equation (derivatives of get_ode_eqn() taken independently)"
                    viol.append({"what": what, "signature": SIG_RHS + (":nS=1" if nS == 1 else ""),
                                 "detail": worst(real, orc) + " terms=%s" % sorted(terms)})
                else:
                    tags.append("ff-rhs:agrees-with-independent-derivation" + (":outside-the-time-window" if tq != tqs[0] else ""))
        except Exception as exc:
            viol.append({"what": "ode_and_forwardforward raised %s: %s" % (type(exc).__name__, str(exc)[:160]), "signature": "forwardforward:raises", "detail": ""})

    # ---- hessian
    nontriv_h = False
    nviol_before_h = len(viol)
    model.parameters = list(theta)
    try:
        Hp = np.asarray(L.hessian(th_arg), float)
        err = None
    except Exception as exc:
        Hp, err = None, "%s: %s" % (type(exc).__name__, str(exc)[:160])
    if err:
        viol.append({"what": "hessian raised " + err, "signature": _sig("hessian:raises", nS, case, p_), "detail": ""})
    elif Hp.shape != (nT, nT):
        viol.append({"what": "hessian has shape %s, expected %s" % (Hp.shape, (nT, nT)), "signature": _sig("hessian:shape", nS), "detail": ""})
    else:
        scaleH = max(float(np.max(np.abs(H_true))), 2 * scaleJ)
        # model tie of the assembly itself: the code's own integrated forward-forward block, residuals and JTJ pushed
        # through the Lean `hessian` must reproduce the code's value (as coded, or with the sign/weight repair)
        try:
            Hf, o2 = L.hessian(th_arg, full_output=True)
            Hf = np.asarray(Hf, float)
            dl2 = (-2.0 * np.asarray(o2["resid"], float)).reshape(n, p_)
            a2 = dict(nS=nS, nP=nP, ff=[fvec([Fraction(float(v)) for v in row]) for row in np.asarray(o2["hess"], float)],
                      stateIdx=[int(k) for k in np.atleast_1d(L._stateIndex)], paramIdx=[int(k) for k in L._getTargetParamIndex()],
                      dl=fmat([[Fraction(float(v)) for v in row] for row in dl2]), w=fmat([[Fraction(float(v)) for v in row] for row in W]),
                      JTJ=fmat([[Fraction(float(v)) for v in row] for row in np.asarray(o2["JTJ"], float).reshape(nT, nT)]))
            lv = to_float(layout("hessian", variant="source", **a2)).reshape(nT, nT)
            if not close_arr(Hf, lv, 1e-9, 1e-9 * scaleH + 1e-12):
                lva = to_float(layout("hessian", variant="as_found", **a2)).reshape(nT, nT)
                lvo = to_float(layout("hessian", variant="overwrite", **a2)).reshape(nT, nT)
                mism.append({"what": "hessian assembly vs Lean Sens.hessian" + (" (equals Sens.hessianAsFound)" if close_arr(Hf, lva, 1e-9, 1e-9 * scaleH + 1e-12) else
                                                                                " (equals Sens.hessianOverwrite: buffered += over repeated observed states)" if close_arr(Hf, lvo, 1e-9, 1e-9 * scaleH + 1e-12) else ""),
                             "detail": worst(Hf, lv)})
            else:
                tags.append("hessian-assembly:agrees" + (":repeated-stateIndex" if dup else ""))
        except Exception as exc:
            Hf = o2 = None
            mism.append({"what": "hessian(full_output=True) raised", "detail": "%s: %s" % (type(exc).__name__, str(exc)[:200])})
        tolH = 1e-3 * scaleH + 1e-4 * (1.0 + cost0)
        if Hf is not None:
            # DIRECT ORACLE on the full_output form (the one confidence_interval uses): same reference as the plain call
            if Hf.shape != (nT, nT) or not close_arr(Hf, H_true, 0, tolH):
                same = Hf.shape == Hp.shape and close_arr(Hf, Hp, 0, 1e-9 * scaleH + 1e-12)
                if not same or close_arr(Hp, H_true, 0, tolH):
                    viol.append({"what": "hessian(theta, full_output=True)[0] != second derivatives of the square-loss cost (central differences of the "
                                         "reference gradient)" + ("" if same else "; it also differs from hessian(theta)"),
                                 "signature": _sig("hessian:full-output:value", nS),
                                 "detail": (worst(Hf, H_true) if Hf.shape == (nT, nT) else "shape %s" % (Hf.shape,)) + " weights=%s obs=%s target=%s" % (case.get("wkind"), obs, tgt)})
            else:
                tags.append("hessian-full-output:agrees")
            if close_arr(Hp, H_true, 0, tolH):      # otherwise the plain call is already reported below, with its classification
                check_output("hessian", o2, ob, "", tolJ, tolH)
        second_true = H_true - 2 * JTJ_true
        nontriv_h = bool(np.max(np.abs(second_true)) > 1e-2 * scaleH and scaleH > 1e-2 * (1.0 + cost0))
        if not close_arr(Hp, H_true, 0, tolH):
            # DIAGNOSTICS ONLY (the verdict is already: violation).  Which known defective variant predicts this value?
            # integrate the as-found system (no grad_jacobian / grad_grad terms) and the independent true system
            model.parameters = list(theta)
            z0 = np.append(x0, np.zeros(nS * nP + nS * nP * nP))
            def _solve(rhs):
                try:
                    return ref_solve(rhs, z0, 0.0, ts, rtol=1e-11, atol=1e-12)
                except Exception:
                    return None
            sol_af = _solve(lambda t, z: coded_ff_rhs(model, nS, nP, z, t, as_found=True))
            sol_tr = _solve(lambda t, z: sym.rhs(theta, z, t)) if sym is not None else None
            dl = -2.0 * (y - base[:, oidx]) * W
            def _assemble(sol, variant):
                ffrows = [[Fraction(float(v)) for v in row[nS + nS * nP:]] for row in sol]
                args = dict(nS=nS, nP=nP, ff=[fvec(r_) for r_ in ffrows], stateIdx=oidx, paramIdx=tidx,
                            dl=fmat([[Fraction(float(v)) for v in row] for row in dl]),
                            w=fmat([[Fraction(float(v)) for v in row] for row in W]),
                            JTJ=fmat([[Fraction(float(v)) for v in row] for row in JTJ_true]))
                return to_float(layout("hessian", variant=variant, **args)).reshape(nT, nT)
            classified = False
            dsort = 2 * (JTJ_sorted - JTJ_true)
            H_af = _assemble(sol_af, "source") if sol_af is not None else None
            H_sign = _assemble(sol_tr, "as_found") if sol_tr is not None else None
            if terms and H_af is not None and close_arr(Hp, H_af, 0, tolH) and not close_arr(H_af, H_true, 0, tolH):
                viol.append({"what": "hessian omits the second derivatives of the ODE that involve a parameter (value = the as-found forward-forward "
                                     "system without the grad_jacobian / grad_grad terms, integrated independently)",
                             "signature": SIG_MIXED, "detail": worst(Hp, H_true) + " ; vs as-found prediction: " + worst(Hp, H_af) + " terms=%s" % sorted(terms)})
                classified = True
            elif dup and sol_tr is not None and close_arr(Hp, _assemble(sol_tr, "overwrite"), 0, tolH):
                viol.append({"what": "hessian keeps only the LAST column of a state that is observed more than once in its second-order term "
                                     "(buffered E[stateIndex] += ... instead of np.add.at; Lean: hessian_overwrite_asFound_counterexample)",
                             "signature": "hessian:duplicate-observed-state:last-column-only", "detail": worst(Hp, H_true) + " obs=%s weights=%s" % (obs, case.get("wkind"))})
                classified = True
            elif H_sign is not None and close_arr(Hp, H_sign, 0, tolH):
                viol.append({"what": "hessian has the wrong sign (and weight power) on its second-order term: value = 2*JTJ - sum diff_loss*X",
                             "signature": "hessian:second-order-term-sign", "detail": worst(Hp, H_true) + " ; vs as-found-sign prediction: " + worst(Hp, H_sign)})
                classified = True
            elif not asc and any(Hv is not None and close_arr(Hp, Hv + dsort, 0, tolH) for Hv in (H_af, H_sign, H_true)):
                viol.append({"what": "hessian adds 2*JTJ of the SORTED selection to H of the supplied order", "signature": "hessian:sens-index-order",
                             "detail": worst(Hp, H_true) + " obs=%s target=%s" % (obs, tgt)})
                classified = True
            if not classified:
                viol.append({"what": "hessian != second derivatives of the square-loss cost (central differences of the reference gradient)",
                             "signature": _sig("hessian:other", nS),
                             "detail": worst(Hp, H_true) + " obs=%s target=%s weights=%s terms=%s" % (obs, tgt, case.get("wkind"), sorted(terms))})
        else:
            tags.append("hessian:agrees" + (":second-order-part-significant" if nontriv_h else ""))

    first_ok["hessian"] = len(viol) == nviol_before_h
    # ---- the public accumulators handed the caller's OWN sensitivity array, twice (family 1: arguments must come back
    # unchanged; the Lean `sensToJtj` is a function of (weights, sens) and has nothing to overwrite)
    if first_ok["jtj"] and Jp is not None and isinstance(out.get("sens"), np.ndarray):
        idx = L._getTargetParamSensIndex()
        dl_ = np.asarray(out["diff_loss"], float)
        tolg = 1e-5 * (float(np.max(np.abs(ob["grad"]))) + 1e-300) + 1e-6 * (1.0 + ob["cost"])
        for nm, f_, ref_, tol_ in (("sens_to_jtj", lambda S_: L.sens_to_jtj(S_), JTJ_true, tolJ),
                                   ("sens_to_grad", lambda S_: L.sens_to_grad(S_, dl_), ob["grad"], tolg)):
            S_ = np.ascontiguousarray(np.asarray(out["sens"], float)[:, idx])
            Sc_ = S_.copy()
            try:
                A_ = np.asarray(f_(S_), float); changed = not np.array_equal(S_, Sc_); B_ = np.asarray(f_(S_), float)
            except Exception as exc:
                viol.append({"what": "%s raised %s: %s" % (nm, type(exc).__name__, str(exc)[:160]), "signature": nm + ":raises", "detail": ""})
                continue
            # "do not demand more than the property states": a VIOLATION only when the function the property names
            # (mechanism anchor BaseLoss.sens_to_jtj) RETURNS A WRONG VALUE; a changed argument alone, and everything about
            # sens_to_grad (C07's function), is a tag
            wrong1 = A_.shape != ref_.shape or not close_arr(A_, ref_, 0, tol_)
            wrong2 = B_.shape != ref_.shape or not close_arr(B_, ref_, 0, tol_)
            if changed:
                tags.append("input-modified:%s-argument" % nm)
            if nm == "sens_to_jtj" and wrong1:
                viol.append({"what": "sens_to_jtj(sens) of the integrated sensitivities differs from the direct oracle", "signature": nm + ":value",
                             "detail": worst(A_, ref_) if A_.shape == ref_.shape else "shape %s" % (A_.shape,)})
            elif nm == "sens_to_jtj" and wrong2:
                viol.append({"what": "sens_to_jtj(sens) called a second time with the same caller-owned array returns another, wrong value: the first "
                                     "call multiplied the array by the weights IN PLACE (weights applied twice)",
                             "signature": nm + ":argument-modified", "detail": "second call: " + worst(B_, ref_) + " weights=%s" % case.get("wkind")})
            elif wrong1 or wrong2:
                tags.append("%s:wrong-value-on-%s-call(not judged here)" % (nm, "first" if wrong1 else "second"))
            elif not changed:
                tags.append(nm + ":argument-unchanged")

    # ---- the session: call histories on the one live object, kept results, forms of theta (see the module docstring).
    # Each evaluation is judged against the direct oracle of the state that is CURRENT when it is made; a family
    # (jtj / hessian) is judged here only when its very first evaluation above agreed with the oracle, so that what is
    # reported is what depends on history or form.
    if ops:
        _run_session(case, sess, ops, L, model, SquareLoss, dict(ob=ob, oalt=oalt, first_ok=first_ok, th_arg=th_arg, theta=theta, x0=x0, ts=ts,
                                                                 yarr=yarr, obs=obs, tgt=tgt, tnames=tnames, wraw=wraw, p_=p_, nT=nT, nS=nS,
                                                                 check_output=check_output, given=given), viol, tags)
    rank = int(np.linalg.matrix_rank(JTJ_true)) if np.all(np.isfinite(JTJ_true)) else 0
    return {"nontrivial": bool(rank >= 1 and nontriv_h), "mismatches": mism, "violations": viol, "tags": tags,
            "sample": {k: case[k] for k in ("kind", "states", "params", "theta", "x0", "obs", "target", "weights", "n", "T")}}
