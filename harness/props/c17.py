"""
C17 - ABC keeps only particles inside the prior support and under the tolerance.

Correspondence (model <-> code): a real ABC run (rejection / SMC with a tolerance list / quantile schedule /
nearest-neighbour kernels / continue_posterior_sample) is recorded trial by trial by wrapping, on the live objects,
`Parameter.density`, `obj.cost`, `dmvnorm` (as seen from the ABC module) and `ABC._perform_generation`.  The very
stream of trials (exact rationals of the floats) is replayed through the Lean model `Pygom.ABC.runCall`; accepted
particles, stored distances, rejection counts, weights, tolerances, final_tol, next_tol and raised assertions must
agree.  `par_order` and the name binding (incl. the 10** back-transform) are compared with what `obj._theta` /
`obj._x0` held at every cost evaluation.

Direct oracle (no Lean): for every particle after every call: prior density (scipy, evaluated here) > 0; the cost
RECOMPUTED by a loss object built from scratch (fresh model, parameters bound by name in a different order) equals
abc.dist[i] and is < the tolerance of the generation that produced it; weight positive and finite (= prior density
for rejection ABC); tolerances never increase under quantile scheduling (incl. across continue calls).

HISTORIES, FORMS, KEPT RESULTS (STRENGTHEN_GUIDE families 1-5).
 * the tolerance is handed over in the FORM the call names (`tol_form`): Python float / int, numpy float64 / float32 /
   int64 scalars, np.inf, `abc.next_tol`, and for schedules list / tuple / float ndarray / integer ndarray / list of ints
   (integer forms: rounded up for a fresh run, rounded down - when that keeps 90% of the value - for a continued one).
   Every stored distance is compared with the tolerance RECORDED for its generation (`abc.tolerances`) and with the
   tolerance actually APPLIED (what `_perform_generation` was handed, seen by the harness recorder); recorded and applied
   must be the same number in every generation, and `final_tol` the last of them.
 * sequences on one ABC object are get -> continue* and also get -> ... -> a FRESH get -> continue (nothing of the
   earlier run may survive the fresh call); a second ABC object sharing the loss object and the Parameter objects may
   run in between; at the end a `copy.deepcopy` of the ABC object is continued one generation further and judged by the
   same oracle while the original's arrays must stay what they were.
 * the arrays read after each call (`res`, `dist`, `w`, `tolerances`, `acceptance_rate`) are KEPT together with copies;
   `tolerances` / `acceptance_rate` are re-created by every call and `res` / `dist` / `w` by every fresh
   `get_posterior_sample`, so the kept ones must not change afterwards (a continued run overwrites `res` / `dist` / `w` in
   place - that is the code as it is, tagged and not judged).
 In the Lean model (`ABC.runCall`) a call is a function of (its arguments, the state left by the previous call, the trial
 stream).  `C17.get_forgets_state`: a fresh `get_posterior_sample` reads nothing of the previous state but `numParam` (and
 carries `next_tol` over when `q` is None).  `C17.continue_reads_only_N_finalTol`: a continued run reads of the previous
 state exactly `N` and `final_tol` (its two asserts); the stored population `res` / `w` / `dist` enters only THROUGH THE TRIAL
 STREAM - the real code resamples the proposals from `res_old` with `w_old` and computes `w2 = sum w_old K(res_old; x)`,
 both recorded per trial and handed to the model - and through nothing else (`genLoop_ignores_initial_dist`: the first
 tolerance of a call is the caller's, later ones are quantiles of distances produced in this very call).  The tolerance is
 a rational (or +inf) whatever Python type carried it.
"""
import copy
import json
import logging
import math
import random
import time

import numpy as np

from .. import bootstrap, leanio
from . import est_common as EC
from . import losscommon as LC

PROP = "C17"
LEAN = {"module": "Pygom.Props.C17",
        "required": ["Pygom.C17.accepted_particle", "Pygom.C17.run_particles", "Pygom.C17.weights_pos_finite",
                     "Pygom.C17.quantile_tolerances_step", "Pygom.C17.quantile_tolerances_antitone",
                     "Pygom.C17.quantileLinear_le_maxL", "Pygom.C17.par_order_binds_by_name_partial",
                     "Pygom.C17.par_order_direct_loss_counterexample", "Pygom.C17.parOrderBy_binds_by_name",
                     "Pygom.C17.get_forgets_state", "Pygom.C17.continue_reads_only_N_finalTol", "Pygom.C17.genLoop_ignores_initial_dist"]}
BUDGET = {"quick": {"runs": 72, "direct": 10, "malformed": 8, "nanregion": 10, "rare": 3, "N": (30, 45), "Gmax": 3},
          "thorough": {"runs": 800, "direct": 80, "malformed": 40, "nanregion": 100, "rare": 20, "N": (30, 60), "Gmax": 4}}
RULE = ("(plus 3 quick / 20 thorough RARE-ACCEPTANCE cases: one free parameter, 3-4 particles, one generation, tolerance = third smallest of 3000 pilot costs, i.e. about a thousand proposals per particle) real ABC runs on SIR_norm/SIR/SIS/SEIR with SquareLoss/NormalLoss/PoissonLoss, 1-3 inferred parameters (+ optionally an "
        "inferred initial state, a population constraint), uniform/gamma/normal priors, log-scale flags, Parameter list in "
        "random order; schedules: rejection, tolerance list, quantile, MNN (M<N-1 and M=N-1), followed by 0-2 "
        "continue_posterior_sample calls (next_tol, shrunk final_tol, tolerance list, deliberately too large); every run "
        "seeded from the case.  Plus loss objects built directly (target_param None / other order) and malformed argument "
        "sets.  A case is non-trivial when it has a generation with a finite tolerance and every such generation rejected at "
        "least one trial (a first generation with tol=inf accepts every prior draw by construction).  Tolerances are handed over "
        "as float / int / numpy float64, float32, int64 scalars, np.inf, abc.next_tol, list / tuple / float array / int array / "
        "list of ints (tags tol-form:*); 30% of the sequences contain a second FRESH get_posterior_sample (+ continue) on the same "
        "object; a quarter let a second ABC object on the same loss object run in between; 35% end with a deepcopy of the ABC object "
        "continued one generation (tag deepcopy-continued); the arrays read after every call are kept and compared later.")
ASSUMPTIONS = ["np.quantile(l, q) <= max(l) (proved for numpy's linear-interpolation definition, quantileLinear_le_maxL; the real "
               "np.quantile is compared with that definition to 1e-12 on every generation)",
               "the perturbation kernel density (scipy multivariate_normal.pdf) is positive: w2 > 0 (checked on every accepted trial)",
               "prior densities are >= 0 (checked on every trial)",
               "the recomputation oracle uses pygom's own integrator and loss kernel through a freshly built loss object "
               "(C02/C06/C14 cover those)"]
TRUSTED = ["harness recorders (instance-level wrappers of Parameter.density, obj.cost, dmvnorm, _perform_generation)",
           "exact float->rational conversion (fractions.Fraction)", "Lean driver JSON codec",
           "QuantileBelowMax Q is the only hypothesis on np.quantile in the Lean theorems"]

MODELS = ["SIR_norm", "SIR", "SIS", "SEIR"]
SCALAR_FORMS = ["float", "float", "int", "int", "np_float64", "np_int64", "np_float32"]
LIST_FORMS = ["list", "list", "tuple", "array_float", "array_int", "list_int"]
MAX_TRIALS = 3000
MAX_SECONDS = 15.0


class _Budget(Exception):
    pass


# ---------------------------------------------------------------------------------------------------------
# case generation
# ---------------------------------------------------------------------------------------------------------

def _prior_for(rng, true_value, logscale):
    """a prior whose bulk contains the target (so that ABC terminates) - on the sampling scale"""
    target = math.log10(true_value) if logscale else true_value
    kind = rng.choice(["unif", "unif", "gamma", "norm"]) if not logscale else rng.choice(["unif", "unif", "norm"])
    if kind == "unif":
        if logscale:
            lo = round(target - rng.uniform(0.3, 1.0), 3); hi = round(target + rng.uniform(0.3, 0.8), 3)
        else:
            lo = round(max(0.0, target * rng.uniform(0.0, 0.6)), 4); hi = round(target * rng.uniform(1.5, 3.0), 4)
        return ["unif", lo, hi]
    if kind == "gamma":
        shape = rng.choice([1.5, 2.0, 3.0, 4.0])
        rate = round(shape / (target * rng.uniform(0.8, 1.6)), 4)
        return ["gamma", shape, rate]
    sd = round(abs(target) * rng.uniform(0.3, 0.8) + (0.2 if logscale else 0.0), 4)
    return ["norm", round(target * rng.uniform(0.85, 1.15), 4), sd]


def _schedule(rng, budget, allow_continue=True):
    N = rng.randint(*budget["N"])
    kind = rng.choice(["rejection", "tol_list", "quantile", "quantile", "mnn", "mnn_all"])
    first = {"cont": False, "N": N, "M": None, "q": None}
    if kind == "rejection":
        first.update(G=1, tol={"pilot": rng.choice([0.3, 0.4, 0.5])})
        if rng.random() < 0.3:
            first["q"] = rng.choice([0.4, 0.5])       # G = 1 with a quantile: only next_tol is computed
    elif kind == "tol_list":
        G = rng.randint(2, budget["Gmax"])
        ps = sorted([rng.uniform(0.25, 0.7) for _ in range(G)], reverse=True)
        first.update(G=G, tol={"pilot_list": [round(p, 3) for p in ps]})
    else:
        G = rng.randint(2, budget["Gmax"])
        first.update(G=G, q=rng.choice([0.3, 0.4, 0.5, 0.6, 0.75]), tol=rng.choice(["inf", "inf", {"pilot": 0.7}]))
        if kind == "mnn":
            first["M"] = rng.randint(6, N - 2)
        elif kind == "mnn_all":
            first["M"] = N - 1
    calls = [first]
    if allow_continue:
        for _ in range(rng.choice([0, 1, 1, 2])):
            c = {"cont": True, "N": N, "M": first["M"] if rng.random() < 0.7 else None, "q": None}
            style = rng.choice(["next_tol", "next_tol", "shrink", "shrink_list", "too_big"])
            if style == "next_tol":
                c.update(G=rng.randint(1, 2), q=rng.choice([0.4, 0.5, 0.6]), tol="next_tol")
            elif style == "shrink":
                G = rng.randint(1, 2)
                c.update(G=G, q=(rng.choice([0.4, 0.5, 0.6]) if (G > 1 or rng.random() < 0.5) else None), tol={"shrink": round(rng.uniform(0.05, 0.3), 3)})
            elif style == "shrink_list":
                c.update(G=2, tol={"shrink_list": [round(rng.uniform(0.02, 0.1), 3), round(rng.uniform(0.12, 0.3), 3)]})
            else:
                c.update(G=1, tol={"too_big": True})
            calls.append(c)
            if style == "too_big":
                break
    # --- a FRESH get_posterior_sample later on the same object (and possibly one more continue after it)
    if allow_continue and calls[-1]["tol"] != {"too_big": True} and rng.random() < 0.3:
        G = rng.randint(2, budget["Gmax"])
        again = {"cont": False, "N": N, "M": first["M"] if rng.random() < 0.5 else None, "G": G, "q": rng.choice([0.4, 0.5, 0.6]),
                 "tol": rng.choice([{"pilot": 0.7}, {"pilot": 0.8}, "inf"])}
        calls.append(again)
        if rng.random() < 0.5:
            calls.append({"cont": True, "N": N, "M": again["M"], "G": rng.randint(1, 2), "q": rng.choice([0.4, 0.5]), "tol": "next_tol"})
    # --- the form in which each tolerance is handed over
    for c in calls:
        t = c["tol"]
        if isinstance(t, dict) and ("pilot_list" in t or "shrink_list" in t):
            c["tol_form"] = rng.choice(LIST_FORMS)
        elif isinstance(t, dict) and ("pilot" in t or "shrink" in t):
            c["tol_form"] = rng.choice(SCALAR_FORMS)
        elif isinstance(t, dict) and "pilot_rare" in t:
            c["tol_form"] = "float"
        else:
            c["tol_form"] = "asis"
    return calls


def gen_run(rng, budget, direct=False):
    model = rng.choice(MODELS)
    cat = EC.CATALOGUE[model]
    vals, x0, t = EC.draw_setup(rng, model, n_obs=rng.randint(8, 14))
    loss = rng.choice(["SquareLoss", "SquareLoss", "NormalLoss", "PoissonLoss"])
    if loss == "PoissonLoss" and cat["scale"] != "N":
        loss = "SquareLoss"
    states = cat["states"]
    obs = rng.choice([["I"], ["I", "R"] if "R" in states else ["S", "I"], ["I"]])
    est = list(cat["true"])
    rng.shuffle(est)
    est = est[:rng.choice([1, 2, 2, 3, 3])]
    if direct and len(est) < 2:
        est = list(cat["true"])[:2]
    plist = []
    for name in est:
        logscale = rng.random() < 0.35
        plist.append({"name": name, "prior": _prior_for(rng, vals[name], logscale), "logscale": logscale})
    constraint = None
    infer_state = (not direct) and rng.random() < 0.3
    if infer_state:
        s = "I"
        i0 = x0[states.index("I")]
        logscale = rng.random() < 0.3
        pr = _prior_for(rng, i0, logscale)
        while pr[0] == "norm":          # an initial state needs a prior with positive support
            pr = _prior_for(rng, i0, logscale)
        plist.append({"name": s, "prior": pr if not logscale else
                      ["unif", round(math.log10(i0) - 0.4, 3), round(math.log10(i0) + 0.4, 3)], "logscale": logscale})
        if rng.random() < 0.5 and model != "SIS":
            constraint = [float(sum(x0)), "S"]
    rng.shuffle(plist)
    case = {"kind": "direct" if direct else "create_loss", "model": model, "values": vals, "x0": x0, "t": t, "loss": loss,
            "obs": obs, "sigma": round(rng.uniform(0.5, 2.0), 3) if loss == "NormalLoss" else None,
            "noise": rng.choice(["none", "noisy"]), "noise_seed": rng.getrandbits(31),
            "params": plist, "constraint": constraint, "seed": rng.getrandbits(31),
            "calls": _schedule(rng, budget, allow_continue=not direct)}
    case["extras"] = {"second_abc": (not direct) and rng.random() < 0.25, "deepcopy": rng.random() < 0.35}
    if direct:
        names = [p["name"] for p in plist]
        how = rng.choice(["none", "reversed", "same"])
        if how == "none":
            # target_param=None: every model parameter must be a Parameter, in a random order
            plist2 = []
            for name in cat["params"]:
                got = next((p for p in plist if p["name"] == name), None)
                if got is None:
                    v = vals[name]
                    got = {"name": name, "prior": ["unif", round(0.5 * v, 4), round(1.5 * v, 4)], "logscale": False}
                plist2.append(got)
            rng.shuffle(plist2)
            case["params"] = plist2
            case["direct"] = {"target_param": None}
        elif how == "reversed":
            case["direct"] = {"target_param": list(reversed(names))}
        else:
            case["direct"] = {"target_param": list(names)}
        N = case["calls"][0]["N"]
        case["calls"] = [{"cont": False, "N": N, "M": None, "q": rng.choice([0.5, 0.6, 0.75]), "G": 2,
                          "tol": rng.choice(["inf", {"pilot": 0.8}]), "tol_form": rng.choice(SCALAR_FORMS)}]
    return case


def gen_nanregion(rng, budget):
    """ROUND D: a loss that is NOT A NUMBER over part of the prior region.  PoissonLoss on the infectious compartment of SIR / SIS /
    SEIR (head counts) over twice the usual horizon, with a recovery-rate prior reaching far above the truth: where the epidemic
    dies out quickly the integrator undershoots zero (-1e-12) and the Poisson log-pmf of a negative mean is NaN.  Such a trial has no
    distance: it must never be stored.  Tolerances as rejection / list (a quantile of distances that may contain wrong zeros
    would make a broken tree spin instead of fail)."""
    case = gen_run(rng, budget)
    model = rng.choice(["SIR", "SIS", "SEIR"])
    cat = EC.CATALOGUE[model]
    vals, x0, t = EC.draw_setup(rng, model, n_obs=rng.randint(8, 14))
    t = [round(2.0 * v, 6) for v in t]
    plist = [{"name": "gamma", "prior": ["unif", 0.0, round(rng.uniform(2.0, 4.0), 3)], "logscale": False}]
    logscale = rng.random() < 0.4
    plist.append({"name": "beta", "prior": _prior_for(rng, vals["beta"], logscale), "logscale": logscale})
    rng.shuffle(plist)
    N = rng.randint(*budget["N"])
    if rng.random() < 0.4:
        calls = [{"cont": False, "N": N, "M": None, "q": None, "G": 1, "tol": {"pilot": rng.choice([0.5, 0.6, 0.7])}, "tol_form": rng.choice(SCALAR_FORMS)}]
    else:
        G = rng.randint(2, 3)
        ps = sorted([rng.uniform(0.35, 0.8) for _ in range(G)], reverse=True)
        calls = [{"cont": False, "N": N, "M": None, "q": None, "G": G, "tol": {"pilot_list": [round(v, 3) for v in ps]}, "tol_form": rng.choice(LIST_FORMS)}]
    if rng.random() < 0.4:
        calls.append({"cont": True, "N": N, "M": None, "q": None, "G": 1, "tol": {"shrink": round(rng.uniform(0.1, 0.3), 3)}, "tol_form": rng.choice(SCALAR_FORMS)})
    case.update({"kind": "create_loss", "model": model, "values": vals, "x0": x0, "t": t, "loss": "PoissonLoss", "obs": rng.choice([["I"], ["I"], ["I", "R"] if "R" in cat["states"] else ["I"]]),
                 "sigma": None, "noise": "noisy", "params": plist, "constraint": None, "calls": calls, "nanregion": True,
                 "extras": {"second_abc": False, "deepcopy": rng.random() < 0.3}})
    case.pop("direct", None)
    return case


def gen_rare(rng, budget):
    """ROUND E: a generation whose per-trial acceptance probability is about 1/1000, so that some particle needs more than a
    thousand consecutive proposals (rejection ABC with a tight tolerance against a wide prior).  One free parameter, a handful of
    particles, one generation; the tolerance is the third smallest of 3000 pilot costs.  Whatever the code does when a particle
    takes that long (the source carries a "should be some timeout on this" note), every stored distance must be below the
    tolerance RECORDED for its generation."""
    case = gen_run(rng, budget)
    model = rng.choice(["SIR", "SIS"])
    vals, x0, t = EC.draw_setup(rng, model, n_obs=rng.randint(6, 9))
    name = rng.choice(["beta", "gamma"])
    v = vals[name]
    plist = [{"name": name, "prior": ["unif", round(0.1 * v, 5), round(6.0 * v, 5)], "logscale": False}]
    calls = [{"cont": False, "N": rng.randint(3, 4), "M": None, "q": None, "G": 1, "tol": {"pilot_rare": 2}, "tol_form": "float"}]
    case.update({"kind": "create_loss", "model": model, "values": vals, "x0": x0, "t": t, "loss": "SquareLoss", "obs": ["I"], "sigma": None,
                 "noise": "noisy", "params": plist, "constraint": None, "calls": calls, "rare": True, "pilot_size": 3000,
                 "max_trials": 30000, "max_seconds": 60.0, "extras": {"second_abc": False, "deepcopy": False}})
    case.pop("direct", None)
    case.pop("nanregion", None)
    return case


def gen_malformed(rng, budget):
    case = gen_run(rng, budget)
    N = case["calls"][0]["N"]
    kind = rng.choice(["list_with_G1", "list_wrong_len", "scalar_no_q", "M_ge_N", "continue_first", "continue_other_N", "list_with_q"])
    base = {"cont": False, "N": N, "M": None, "q": None}
    if kind == "list_with_G1":
        calls = [dict(base, G=1, tol={"pilot_list": [0.5, 0.4]})]
    elif kind == "list_wrong_len":
        calls = [dict(base, G=3, tol={"pilot_list": [0.5, 0.4]})]
    elif kind == "scalar_no_q":
        calls = [dict(base, G=2, tol={"pilot": 0.5})]
    elif kind == "M_ge_N":
        calls = [dict(base, G=2, q=0.5, tol="inf", M=N)]
    elif kind == "list_with_q":
        calls = [dict(base, G=2, q=0.5, tol={"pilot_list": [0.5, 0.4]})]
    elif kind == "continue_first":
        calls = [dict(base, cont=True, G=1, tol={"pilot": 0.5})]
    else:
        calls = [dict(base, G=1, tol={"pilot": 0.5}), dict(base, cont=True, N=N + 1, G=1, tol={"shrink": 0.1})]
    case["calls"] = calls
    case["malformed"] = kind
    return case


def make_cases(rng, tier, budget):
    cases = []
    for _ in range(budget["runs"]):
        cases.append(gen_run(random.Random(rng.getrandbits(64)), budget))
    for _ in range(budget["direct"]):
        cases.append(gen_run(random.Random(rng.getrandbits(64)), budget, direct=True))
    for _ in range(budget["malformed"]):
        cases.append(gen_malformed(random.Random(rng.getrandbits(64)), budget))
    for _ in range(budget.get("nanregion", 0)):          # drawn last: the earlier cases are the same as before
        cases.append(gen_nanregion(random.Random(rng.getrandbits(64)), budget))
    for _ in range(budget.get("rare", 0)):
        cases.append(gen_rare(random.Random(rng.getrandbits(64)), budget))
    return cases


def search_cases(rng, tier, budget):
    return [(gen_nanregion if i % 6 == 5 else gen_run)(random.Random(rng.getrandbits(64)), budget, **({} if i % 6 == 5 else {"direct": (i % 5 == 0)}))
            for i in range(budget["runs"] * 2)]


# ---------------------------------------------------------------------------------------------------------
# independent pieces of the oracle
# ---------------------------------------------------------------------------------------------------------

def prior_pdf(prior, x):
    """scipy density of a prior spec at x (evaluated here, not through pygom.utilR)"""
    import scipy.stats as st
    kind = prior[0]
    if kind == "unif":
        return float(st.uniform.pdf(x, loc=prior[1], scale=prior[2] - prior[1]))
    if kind == "gamma":
        return float(st.gamma.pdf(x, a=prior[1], scale=1.0 / prior[2]))
    if kind == "norm":
        return float(st.norm.pdf(x, loc=prior[1], scale=prior[2]))
    raise ValueError(kind)


def prior_sample(prior, rs):
    if prior[0] == "unif":
        return rs.uniform(prior[1], prior[2])
    if prior[0] == "gamma":
        return rs.gamma(prior[1], 1.0 / prior[2])
    return rs.normal(prior[1], prior[2])


class Recomputer:
    """cost of a named particle by a loss object built from scratch (fresh model; parameters in ALPHABETICAL order,
    bound by name; inferred initial states and the population constraint applied here)"""

    def __init__(self, case, y):
        self.case, self.y = case, y
        cat = EC.CATALOGUE[case["model"]]
        self.states = cat["states"]
        self.pnames = sorted(p["name"] for p in case["params"] if p["name"] in cat["params"])
        self.snames = [p["name"] for p in case["params"] if p["name"] in cat["states"]]

    def natural(self, particle):
        """sampling-scale vector (user order) -> {name: value on the natural scale}"""
        # the back-transform is evaluated with the same numpy expression on the same array shape as the code under test:
        # numpy's vectorised pow and the scalar pow differ by 1 ulp on ~5% of inputs, and a 1-ulp change of a parameter can
        # move the adaptive integrator's result at its tolerance level (1e-10), i.e. beyond a 1e-9 comparison
        vals = np.array([float(v) for v in particle], dtype=float)
        mask = np.array([bool(p["logscale"]) for p in self.case["params"]])
        vals[mask] = 10 ** vals[mask]
        return {p["name"]: float(v) for p, v in zip(self.case["params"], vals)}

    def build(self, nat):
        """a loss object from scratch for the initial state implied by `nat`"""
        c = self.case
        x0 = list(c["x0"])
        for s in self.snames:
            x0[self.states.index(s)] = nat[s]
        if c.get("constraint"):
            tot, cs = c["constraint"]
            k = self.states.index(cs)
            x0[k] = tot - sum(v for i, v in enumerate(x0) if i != k)
        return EC.fresh_loss(c["loss"], c["model"], c["values"], x0, c["t"], self.y, c["obs"], self.pnames,
                             [nat[n] for n in self.pnames], sigma=c.get("sigma"))

    def cost(self, particle, obj=None):
        """`obj`: a from-scratch object to reuse when the initial state does not depend on the particle"""
        nat = self.natural(particle)
        if obj is None or self.snames or self.case.get("constraint"):
            obj = self.build(nat)
        return float(obj.cost([nat[n] for n in self.pnames]))

    def scratch(self):
        if self.snames or self.case.get("constraint"):
            return None
        return self.build({n: self.case["values"][n] for n in self.pnames})

    # ---- ROUND D: the cost at a particle WITHOUT BaseLoss.cost (and without any loss object): a trajectory of a fresh model and
    # the closed-form negative log-likelihood / sum of squares of the named loss (losscommon.ref_cost, the formulas C06 / C14 use).
    # `BaseLoss.cost` post-processes its value (`nan_to_num` of +inf): a recomputation through a fresh loss object inherits whatever
    # that post-processing does (seeded C17-d1: NaN -> 0.0, accepted at every tolerance with stored distance 0).
    def _x0_values(self, nat):
        c = self.case
        x0 = list(c["x0"])
        for s in self.snames:
            x0[self.states.index(s)] = nat[s]
        if c.get("constraint"):
            tot, cs = c["constraint"]
            k = self.states.index(cs)
            x0[k] = tot - sum(v for i, v in enumerate(x0) if i != k)
        vals = dict(c["values"])
        for n in self.pnames:
            vals[n] = nat[n]
        return x0, vals

    def _closed(self, yhat):
        c = self.case
        oidx = [self.states.index(s) for s in c["obs"]]
        yh = np.asarray(yhat, float)[:, oidx]
        y2 = np.asarray(self.y, float).reshape(yh.shape)
        cls = {"SquareLoss": "Square", "NormalLoss": "Normal", "PoissonLoss": "Poisson"}[c["loss"]]
        spread = c.get("sigma") if cls == "Normal" else None
        with np.errstate(all="ignore"):
            return LC.ref_cost(cls, y2, yh, 1.0, spread), (cls, y2, yh, spread)

    def cost_closed(self, particle):
        """closed-form loss of the trajectory pygom's own integrator (ode_utils.integrateFuncJac, the one the loss objects use)
        returns for a FRESH model at the particle; no loss object involved"""
        from pygom.model import ode_utils
        nat = self.natural(particle)
        x0, vals = self._x0_values(nat)
        m = EC.make_model(self.case["model"], vals)
        t = self.case["t"]
        sol = ode_utils.integrateFuncJac(m.ode_T, m.jacobian_T, np.array(x0, float), t[0], np.array(t[1:], float), full_output=False, method=m._intName)
        return self._closed(sol)

    def cost_reference(self, particle):
        """the same closed form on a reference trajectory (DOP853, rtol 1e-12): independent of pygom's integrator as well"""
        from scipy.integrate import solve_ivp
        nat = self.natural(particle)
        x0, vals = self._x0_values(nat)
        m = EC.make_model(self.case["model"], vals)
        t = self.case["t"]
        sol = solve_ivp(lambda tt, xx: np.asarray(m.ode(xx, tt), float).ravel(), (t[0], t[-1]), np.array(x0, float), method="DOP853",
                        t_eval=np.array(t[1:], float), rtol=1e-12, atol=1e-13 * (1.0 + max(abs(v) for v in x0)))
        if not sol.success:
            return None, None
        return self._closed(sol.y.T)


def make_data(case):
    ref = EC.reference(case["model"], case["values"], case["x0"], case["t"])
    st = EC.CATALOGUE[case["model"]]["states"]
    y = ref[:, [st.index(s) for s in case["obs"]]].copy()
    rs = np.random.RandomState(case["noise_seed"])
    if case["loss"] == "PoissonLoss":
        y = rs.poisson(np.maximum(y, 1e-9)).astype(float) if case["noise"] == "noisy" else np.round(y)
    elif case["noise"] == "noisy":
        y = y * (1.0 + 0.05 * rs.standard_normal(y.shape))
    if y.shape[1] == 1:
        y = y[:, 0]
    return y


# ---------------------------------------------------------------------------------------------------------
# recording a real run
# ---------------------------------------------------------------------------------------------------------

class Recorder:
    def __init__(self, abc, pgabc, nparam, max_trials=None, max_seconds=None):
        self.abc, self.pgabc, self.nparam = abc, pgabc, nparam
        self.max_trials = max_trials or MAX_TRIALS
        self.max_seconds = max_seconds or MAX_SECONDS
        self.events = []          # flat event list of the current _perform_generation call
        self.slots = []           # one entry per _perform_generation call
        self.ntrials = 0
        self.t0 = time.time()
        self._orig = {}

    def install(self):
        abc, pgabc = self.abc, self.pgabc
        for k, p in enumerate(abc.parameters):
            orig = p.density

            def dens(x, _o=orig, _k=k):
                v = _o(x)
                if _k == 0:
                    self.ntrials += 1
                    if self.ntrials > self.max_trials or (self.ntrials % 50 == 0 and time.time() - self.t0 > self.max_seconds):
                        raise _Budget()
                self.events.append(("d", _k, float(x), float(v)))
                return v
            p.density = dens
        obj = abc.obj
        ocost = obj.cost

        def cost(*a, **k):
            c = ocost(*a, **k)
            th = obj._theta
            th = {str(n): float(v) for n, v in th.items()} if isinstance(th, dict) else [float(v) for v in np.asarray(th).ravel()]
            self.events.append(("c", float(c), th, [float(v) for v in obj._x0]))
            return c
        obj.cost = cost
        self._orig["dmvnorm"] = pgabc.dmvnorm

        def dmv(x, mean=None, sigma=None):
            wk = self._orig["dmvnorm"](x, mean=mean, sigma=sigma)
            self.events.append(("k", np.array(wk, dtype=float).copy()))
            return wk
        pgabc.dmvnorm = dmv
        opg = abc._perform_generation

        def pg(generation, sigma_list, tolerance, par_update, res_old, w_old):
            self.events = []
            entry = {"generation": int(generation), "tolerance": float(tolerance), "dist_before": np.array(abc.dist, dtype=float).copy(),
                     "w_old": np.array(w_old, dtype=float).copy()}
            try:
                ret = opg(generation=generation, sigma_list=sigma_list, tolerance=tolerance, par_update=par_update,
                          res_old=res_old, w_old=w_old)
            finally:
                entry["events"] = self.events
                self.slots.append(entry)
            entry["ret"] = (float(ret[0]), int(ret[1]), [float(v) for v in np.atleast_1d(ret[2])], float(ret[3]))
            return ret
        abc._perform_generation = pg

    def uninstall(self):
        self.pgabc.dmvnorm = self._orig["dmvnorm"]
        for o_, name in [(self.abc, "_perform_generation"), (self.abc.obj, "cost")] + [(p, "density") for p in self.abc.parameters]:
            try:
                delattr(o_, name)             # instance attribute set by install(): the class method shows again
            except AttributeError:
                pass

    def trials_of(self, entry):
        """parse the flat event list of one _perform_generation call into trials"""
        out, ev, i, n = [], entry["events"], 0, self.nparam
        while i < len(ev):
            grp = ev[i:i + n]
            if len(grp) < n or any(e[0] != "d" for e in grp) or [e[1] for e in grp] != list(range(n)):
                raise RuntimeError("unexpected recorder event order at %d: %s" % (i, [e[0] for e in ev[i:i + n + 2]]))
            i += n
            tr = {"x": [e[2] for e in grp], "dens": [e[3] for e in grp], "w1": float(np.prod([e[3] for e in grp])),
                  "cost": None, "theta": None, "x0": None, "w2": None}
            if i < len(ev) and ev[i][0] == "c":
                tr["cost"], tr["theta"], tr["x0"] = ev[i][1], ev[i][2], ev[i][3]
                i += 1
                if i < len(ev) and ev[i][0] == "k":
                    tr["w2"] = float(np.dot(ev[i][1], entry["w_old"]))
                    i += 1
            out.append(tr)
        return out


def resolve_tol(spec, pilot, abc):
    """symbolic tolerance spec -> python value handed to the real call"""
    if spec == "inf":
        return np.inf
    if spec == "next_tol":
        return float(abc.next_tol) if hasattr(abc, "next_tol") else np.inf
    if isinstance(spec, dict):
        if "pilot" in spec:
            return float(np.quantile(pilot, spec["pilot"]))
        if "pilot_rare" in spec:
            # the k-th smallest pilot cost: per-trial acceptance probability of about k / len(pilot)
            return float(sorted(pilot)[int(spec["pilot_rare"])])
        if "pilot_list" in spec:
            return [float(np.quantile(pilot, p)) for p in spec["pilot_list"]]
        ft = float(getattr(abc, "final_tol", np.inf))
        ref = ft if math.isfinite(ft) else float(np.max(abc.dist))
        if "shrink" in spec:
            return ref - spec["shrink"] * abs(ref) - 1e-9
        if "shrink_list" in spec:
            return [ref - f * abs(ref) - 1e-9 for f in spec["shrink_list"]]
        if "too_big" in spec:
            return (ft + 0.5 * abs(ft) + 1.0) if math.isfinite(ft) else np.inf
    raise ValueError(spec)


def apply_form(tol, form, cont, tags):
    """hand the (float / list of floats) tolerance over in the named form.  Integer forms change the VALUE: rounded up for a
    fresh run (a looser first tolerance), rounded down for a continued run and only when that keeps >= 90% of every entry
    (the run must stay feasible and `tol <= final_tol`); otherwise the float form is used and the fallback tagged."""
    if form in (None, "asis") or (not hasattr(tol, "__len__") and not math.isfinite(float(tol))):
        return tol
    def to_int(v):
        k = int(math.floor(v)) if cont else int(math.ceil(v))
        return k if (k > 0 and (not cont or k >= 0.9 * v)) else None
    if hasattr(tol, "__len__"):
        vals = [float(v) for v in tol]
        if form in ("array_int", "list_int"):
            iv = [to_int(v) for v in vals]
            if any(k is None for k in iv):
                tags.append("tol-form:%s->float(fallback)" % form)
                return vals
            tags.append("tol-form:" + form)
            return np.array(iv, dtype=int) if form == "array_int" else iv
        tags.append("tol-form:" + form)
        return tuple(vals) if form == "tuple" else (np.array(vals, dtype=float) if form == "array_float" else vals)
    v = float(tol)
    if form in ("int", "np_int64"):
        k = to_int(v)
        if k is None:
            tags.append("tol-form:%s->float(fallback)" % form)
            return v
        tags.append("tol-form:" + form)
        return k if form == "int" else np.int64(k)
    tags.append("tol-form:" + form)
    if form == "np_float64":
        return np.float64(v)
    if form == "np_float32":
        f = np.float32(v)
        return f if (not cont or float(f) <= v) else np.float32(np.nextafter(f, np.float32(-np.inf)))
    return v


def tol_json(tol):
    if hasattr(tol, "__len__"):
        return [EC.frac(v) for v in tol]
    return EC.frac(tol)


# ---------------------------------------------------------------------------------------------------------
# one case
# ---------------------------------------------------------------------------------------------------------

def run_case(case):
    bootstrap.init()
    logging.disable(logging.WARNING)
    from pygom import approximate_bayesian_computation as pgabc
    import importlib
    pgmod = importlib.import_module("pygom.approximate_bayesian_computation.approximate_bayesian_computation")
    tags, mism, viol = [], [], []
    cat = EC.CATALOGUE[case["model"]]
    y = make_data(case)
    ode = EC.make_model(case["model"], case["values"])
    plist = case["params"]
    parameters = [pgabc.Parameter(p["name"], p["prior"][0], *p["prior"][1:], logscale=p["logscale"]) for p in plist]
    nparam = len(plist)
    user = [p["name"] for p in plist]
    klass = case["kind"]
    order_differs = False
    np.random.seed(case["seed"])
    if klass == "direct":
        tp = case["direct"]["target_param"]
        consumer = list(tp) if tp is not None else list(cat["params"])
        order_differs = [n for n in consumer if n in user] != user
        theta0 = [case["values"][n] for n in consumer]
        L = EC.loss_class(case["loss"])
        kw = {"target_param": tp}
        if case["loss"] == "NormalLoss":
            kw["sigma"] = case["sigma"]
        obj = L(theta0, ode, list(case["x0"]), case["t"][0], case["t"][1:], y, list(case["obs"]), **kw)
    else:
        obj = pgabc.create_loss(case["loss"], parameters, ode, list(case["x0"]), case["t"][0], case["t"][1:], y, list(case["obs"]),
                                sigma=case["sigma"])
    abc = pgabc.ABC(obj, parameters, constraint=tuple(case["constraint"]) if case.get("constraint") else None)
    sig_class = "%s%s" % ("direct-loss-order-differs" if order_differs else ("direct-loss" if klass == "direct" else "create_loss"),
                          ":constraint" if case.get("constraint") else "")
    tags += ["model:" + case["model"], "loss:" + case["loss"], "kind:" + klass, "nparam=%d" % nparam,
             "noise:" + case["noise"]] + ["prior:" + p["prior"][0] for p in plist]
    if any(p["logscale"] for p in plist): tags.append("logscale")
    if any(p["name"] in cat["states"] for p in plist): tags.append("infers_state")
    if case.get("constraint"): tags.append("constraint")
    if order_differs: tags.append("direct_order_differs")
    if case.get("malformed"): tags.append("malformed:" + case["malformed"])
    if case.get("nanregion"): tags.append("family:nan-region")

    # --- par_order and the name binding against the model ------------------------------------------------
    drv = leanio.driver()
    tparam = obj._targetParam
    tstate = obj._targetState
    po = drv.call({"op": "parOrder", "user": user, "log": [bool(p["logscale"]) for p in plist], "paramList": list(cat["params"]),
                   "stateList": list(cat["states"]), "targetParam": [str(s) for s in tparam] if tparam is not None else None,
                   "targetState": [str(s) for s in tstate] if tstate is not None else None, "x": [str(i) for i in range(nparam)]})
    real_po = [int(i) for i in abc.par_order]
    bind_key = "bindings"
    if real_po != po["par_order"]:
        if real_po == po["par_order_by_consumer"]:
            tags.append("par_order:follows-consumer(repaired tree)")
            bind_key = "bindings_by_consumer"
        else:
            mism.append({"what": "par_order", "detail": "python %s lean %s (by consumer %s) user=%s" % (real_po, po["par_order"], po["par_order_by_consumer"], user)})
    bindings = [(b[0], int(b[1]), int(b[2])) for b in po[bind_key]]        # (name, index into user vector, #back-transforms)
    if [bool(v) for v in abc.log] != [bool(p["logscale"]) for p in plist]:
        mism.append({"what": "log flags", "detail": "python %s" % list(abc.log)})

    # --- pilot costs (own sampler, own loss object) to place the tolerances --------------------------------
    rec_cost = Recomputer(case, y)
    rs = np.random.RandomState(case["seed"] ^ 0x5A5A5A)
    pilot = []
    pobj = rec_cost.scratch()
    for _ in range(int(case.get("pilot_size", 50))):
        v = [prior_sample(p["prior"], rs) for p in plist]
        try:
            # (nan-region cases: the pilot costs without BaseLoss.cost as well - a wrong 0.0 there would put the tolerances at 0)
            c = rec_cost.cost_closed(v)[0] if case.get("nanregion") else rec_cost.cost(v, pobj)
        except Exception:
            c = float("nan")
        if math.isfinite(c):
            pilot.append(c)
    if len(pilot) < 10:
        return {"nontrivial": False, "mismatches": mism, "violations": viol, "tags": tags + ["pilot-failed"]}

    rec = Recorder(abc, pgmod, nparam, max_trials=case.get("max_trials"), max_seconds=case.get("max_seconds"))
    rec.install()
    lean_calls, stream, py_calls = [], [], []
    kept, run_id = [], 0
    history_tols = []
    nontrivial = True
    finite_gens = 0
    try:
        for ci, call in enumerate(case["calls"]):
            n_before = len(rec.slots)
            tol = resolve_tol(call["tol"], pilot, abc) if not (call["cont"] and not hasattr(abc, "res")) else resolve_tol({"pilot": 0.5}, pilot, abc)
            tol = apply_form(tol, call.get("tol_form"), call["cont"], tags)
            prev_final = float(abc.final_tol) if hasattr(abc, "final_tol") else None
            tol_snap = [float(v) for v in tol] if hasattr(tol, "__len__") else None
            err = None
            try:
                if call["cont"]:
                    abc.continue_posterior_sample(N=call["N"], tol=tol, G=call["G"], q=call["q"], M=call["M"])
                else:
                    abc.get_posterior_sample(N=call["N"], tol=tol, G=call["G"], q=call["q"], M=call["M"])
            except AssertionError:
                err = "AssertionError"
            except AttributeError:
                err = "AttributeError"
            except _Budget:
                tags.append("trial-budget-exceeded")
                return {"nontrivial": False, "mismatches": mism, "violations": viol, "tags": tags}
            except Exception as exc:
                # numerical failure inside the run (singular kernel covariance with a small population, the integrator
                # giving up on a wild prior draw): the call did not complete, there is no posterior to examine
                tags.append("raised:" + type(exc).__name__)
                return {"nontrivial": False, "mismatches": mism, "violations": viol, "tags": tags}
            slots = rec.slots[n_before:]
            N, G = call["N"], call["G"]
            if tol_snap is not None and [float(v) for v in tol] != tol_snap:
                tags.append("input-modified:tol")        # a side effect alone is not a violation of C17
            tags.append("call:%s:G=%d:%s%s%s" % ("continue" if call["cont"] else "get", G, "q" if call["q"] is not None else
                                                 ("list" if hasattr(tol, "__len__") else "scalar"),
                                                 ":M" if call["M"] is not None else "", ":" + err if err else ""))
            # trials, per generation
            qtable = []
            gens = []
            if err is None:
                if len(slots) != N * G:
                    mism.append({"what": "recorder", "detail": "%d _perform_generation calls for N=%d G=%d" % (len(slots), N, G)})
                    break
                for g in range(G):
                    sl = slots[g * N:(g + 1) * N]
                    gen_trials = []
                    for e in sl:
                        tr = rec.trials_of(e)
                        gen_trials.append(tr)
                        stream += tr
                    gens.append({"tol": sl[0]["tolerance"], "dist_before": sl[0]["dist_before"], "slots": sl, "trials": gen_trials})
                    if g > 0 and call["q"] is not None:
                        qtable.append([[EC.frac(v) for v in sl[0]["dist_before"]], EC.frac(sl[0]["tolerance"])])
                    if math.isfinite(sl[0]["tolerance"]):
                        finite_gens += 1
                        if sum(e["ret"][1] for e in sl) == 0:
                            nontrivial = False
                if call["q"] is not None:
                    qtable.append([[EC.frac(v) for v in abc.dist], EC.frac(abc.next_tol)])
            lean_calls.append({"cont": bool(call["cont"]), "N": N, "G": G, "tol": tol_json(tol), "quant": call["q"] is not None,
                               "q": EC.frac(call["q"]) if call["q"] is not None else None, "M": call["M"], "qtable": qtable})
            py_calls.append({"err": err, "gens": gens, "tolerances": [float(v) for v in abc.tolerances] if err is None else None,
                             "res": np.array(abc.res, dtype=float).copy() if err is None else None,
                             "dist": np.array(abc.dist, dtype=float).copy() if err is None else None,
                             "w": np.array(abc.w, dtype=float).copy() if err is None else None,
                             "final_tol": float(abc.final_tol) if err is None else None,
                             "next_tol": float(abc.next_tol) if (err is None and hasattr(abc, "next_tol")) else None,
                             "acc": [float(v) for v in abc.acceptance_rate] if err is None else None,
                             "prev_final": prev_final, "tol_arg": tol, "call": call})
            if err is not None:
                break
            if not call["cont"]:
                history_tols = []
            history_tols += [float(v) for v in abc.tolerances]
            # ---------------- kept results (family 1) ------------------------------------------------------------
            if call["cont"]:
                # a continued run writes the new population into the arrays of the run it continues: the code as it is
                if any(nm in ("res", "dist", "w") and run == run_id for run, nm, _r, _c, _ci in kept):
                    tags.append("continue-overwrites-res-dist-w-in-place(not judged)")
                kept = [e for e in kept if not (e[1] in ("res", "dist", "w") and e[0] == run_id)]
            else:
                run_id += 1
            check_kept(kept, viol, sig_class)
            for nm in ("res", "dist", "w", "tolerances", "acceptance_rate"):
                kept.append((run_id, nm, getattr(abc, nm), np.array(getattr(abc, nm), dtype=float, copy=True), ci))
            # ---------------- direct oracle on the attributes after this call (no Lean) ----------------------
            oracle(case, ci, call, abc, rec_cost, plist, history_tols, prev_final, sig_class, viol, tags, stream,
                   applied=[float(g["tol"]) for g in gens])
            if viol:
                break
            # ---------------- a second ABC object on the same loss object and Parameter objects runs in between ----
            if ci == 0 and (case.get("extras") or {}).get("second_abc") and len(case["calls"]) > 1:
                try:
                    abc2 = pgabc.ABC(obj, parameters, constraint=tuple(case["constraint"]) if case.get("constraint") else None)
                    abc2.get_posterior_sample(N=max(10, call["N"] // 3), tol=float(np.quantile(pilot, 0.6)), G=1)
                    tags.append("second-abc-object-on-the-same-loss")
                except _Budget:
                    tags.append("trial-budget-exceeded")
                    return {"nontrivial": False, "mismatches": mism, "violations": viol, "tags": tags}
                except Exception as exc:
                    tags.append("second-abc:raised:" + type(exc).__name__)
    finally:
        rec.uninstall()
    if not viol:
        check_kept(kept, viol, sig_class)
    if not viol and py_calls and py_calls[-1]["err"] is None and (case.get("extras") or {}).get("deepcopy"):
        deepcopy_probe(case, abc, rec_cost, plist, sig_class, viol, tags, stream)

    # --- model <-> code -------------------------------------------------------------------------------------
    if any(tr["cost"] is not None and math.isinf(tr["cost"]) and tr["cost"] < 0 for tr in stream):
        tags.append("cost-neg-inf(not representable)")
        return {"nontrivial": False, "mismatches": mism, "violations": viol, "tags": tags}
    req = {"op": "abc", "numParam": nparam, "calls": lean_calls,
           "stream": [{"x": [EC.frac(v) for v in tr["x"]], "w1": EC.frac(tr["w1"]) if math.isfinite(tr["w1"]) else "1",
                       "cost": (EC.frac(tr["cost"]) if (tr["cost"] is not None and math.isfinite(tr["cost"])) else None),
                       "w2": EC.frac(tr["w2"]) if (tr["w2"] is not None and math.isfinite(tr["w2"])) else "1"} for tr in stream]}
    if any(not math.isfinite(tr["w1"]) for tr in stream):
        tags.append("w1-not-finite")
    lr = drv.call(req)
    compare(lr, py_calls, stream, mism, tags)
    check_bindings(bindings, stream, cat, case, mism, tags)
    # stream-level assumptions of the theorems, observed
    for tr in stream:
        if any(d < 0 for d in tr["dens"]):
            viol.append({"what": "negative prior density", "signature": "prior-density-negative", "detail": str(tr["dens"])})
            break
    ntr = len(stream)
    tags.append("trials<=%d" % (10 ** len(str(ntr))))
    sample = {"model": case["model"], "loss": case["loss"], "params": plist, "calls": case["calls"], "trials": ntr,
              "tolerances": history_tols[:8]}
    return {"nontrivial": bool(nontrivial and finite_gens > 0 and not case.get("malformed")) or bool(case.get("malformed") and lean_calls),
            "mismatches": mism, "violations": viol, "tags": tags, "sample": sample}


def check_kept(kept, viol, sig_class):
    """arrays read after an earlier call (and not legitimately overwritten by a continued run) still hold what they held"""
    for run, nm, ref, cp, ci in kept:
        now = np.asarray(ref, dtype=float)
        if now.shape != cp.shape or not np.array_equal(now, cp, equal_nan=True):
            viol.append({"what": "abc.%s as read after call %d was changed by a later call that creates its own arrays" % (nm, ci + 1),
                         "signature": "kept-result-changed:%s:%s" % (nm, sig_class), "detail": "%s -> %s" % (cp.ravel()[:6].tolist(), now.ravel()[:6].tolist())})
            return


def deepcopy_probe(case, abc, rec_cost, plist, sig_class, viol, tags, stream):
    """copy.deepcopy of the ABC object, continued one generation further: the copy is judged by the same direct oracle, the
    original's arrays must stay what they were"""
    N = int(abc.N)
    keep = {nm: np.array(getattr(abc, nm), dtype=float, copy=True) for nm in ("res", "dist", "w", "tolerances")}
    try:
        cp = copy.deepcopy(abc)
    except Exception as exc:
        tags.append("deepcopy-unsupported:" + type(exc).__name__)
        return
    count = {"n": 0, "t0": time.time()}
    ocost = cp.obj.cost

    def guarded(*a, **k):
        count["n"] += 1
        if count["n"] > MAX_TRIALS // 2 or (count["n"] % 50 == 0 and time.time() - count["t0"] > MAX_SECONDS / 2):
            raise _Budget()
        return ocost(*a, **k)
    cp.obj.cost = guarded
    np.random.seed(case["seed"] ^ 0x3C3C3C)
    tolc = float(np.quantile(np.asarray(abc.dist, dtype=float), 0.75))
    prev_final = float(abc.final_tol)
    try:
        cp.continue_posterior_sample(N=N, tol=tolc, G=1, q=0.5)
    except _Budget:
        tags.append("deepcopy:trial-budget-exceeded")
        return
    except Exception as exc:
        tags.append("deepcopy:raised:" + type(exc).__name__)
        return
    tags.append("deepcopy-continued")
    for nm, was in keep.items():
        now = np.asarray(getattr(abc, nm), dtype=float)
        if now.shape != was.shape or not np.array_equal(now, was, equal_nan=True):
            viol.append({"what": "abc.%s of the ORIGINAL changed when a deepcopy of the ABC object was continued" % nm,
                         "signature": "kept-result-changed:deepcopy:%s:%s" % (nm, sig_class), "detail": ""})
            return
    call = {"N": N, "G": 1, "q": 0.5, "cont": True, "M": None}
    oracle(dict(case, calls=[call]), 0, call, cp, rec_cost, plist, [float(v) for v in cp.tolerances], prev_final, sig_class + ":deepcopy", viol, tags, stream,
           applied=[tolc])


def oracle(case, ci, call, abc, rec_cost, plist, history_tols, prev_final, sig_class, viol, tags, stream, applied=None):
    N = call["N"]
    res = np.atleast_2d(np.asarray(abc.res, dtype=float))
    dist = np.asarray(abc.dist, dtype=float)
    w = np.asarray(abc.w, dtype=float)
    tols = [float(v) for v in abc.tolerances]
    loss = case["loss"]
    if res.shape != (N, len(plist)) or dist.shape != (N,) or w.shape != (N,) or len(tols) != call["G"]:
        viol.append({"what": "shapes of res/dist/w/tolerances", "signature": "abc-shapes:" + sig_class,
                     "detail": "%s %s %s %d" % (res.shape, dist.shape, w.shape, len(tols))})
        return
    if float(abc.final_tol) != tols[-1]:
        viol.append({"what": "final_tol is not the last tolerance", "signature": "final-tol:" + sig_class,
                     "detail": "%r vs %r" % (abc.final_tol, tols)})
    gen_tol = tols[-1]
    gen_applied = None
    if applied is not None:
        # the tolerance RECORDED for each generation is the tolerance that generation APPLIED (harness recorder: the argument
        # _perform_generation received), whatever Python type the caller's tolerance had
        if len(applied) != len(tols) or any(float(a) != float(b) for a, b in zip(applied, tols)):
            viol.append({"what": "abc.tolerances does not record the tolerances the generations applied", "signature": "tolerance-recorded-not-applied:" + sig_class,
                         "detail": "recorded %s (dtype %s) applied %s ; tol argument form %s" % (tols, getattr(abc.tolerances, "dtype", "?"), applied, call.get("tol_form"))})
        gen_applied = float(applied[-1])
    first_fresh = (not call["cont"]) and call["G"] == 1
    scratch = rec_cost.scratch()      # built from scratch for this check
    for i in range(N):
        dens = [prior_pdf(p["prior"], res[i, k]) for k, p in enumerate(plist)]
        pd = float(np.prod(dens))
        if not (pd > 0 and math.isfinite(pd)):
            viol.append({"what": "particle outside the prior support", "signature": "particle-outside-prior:" + sig_class,
                         "detail": "particle %d = %s prior densities %s" % (i, list(res[i]), dens)})
            return
        c = rec_cost.cost(res[i], scratch)
        if not EC.rel_close(c, dist[i], rel=1e-9, abs_=1e-12) and EC.rel_close(c, dist[i], rel=1e-6, abs_=1e-12) \
                and inputs_differ_by_rounding(case, rec_cost, res[i], stream):
            # the loss object held values that differ from ours in the last bits (another pow / sum rounding): the adaptive
            # integrator may then differ at its own tolerance (1e-10 relative per step); compare at 1e-6 instead
            tags.append("recompute:inputs-differ-by-rounding")
        elif not EC.rel_close(c, dist[i], rel=1e-9, abs_=1e-12):
            viol.append({"what": "stored distance is not the cost recomputed at the particle (fresh loss object, parameters bound by name)",
                         "signature": "dist-not-recomputed-cost:%s:%s" % (sig_class, loss),
                         "detail": "particle %d = %s : abc.dist=%r recomputed=%r ; names %s" % (
                             i, dict(zip([p["name"] for p in plist], [float(v) for v in res[i]])), float(dist[i]), c, [p["name"] for p in plist])})
            return
        # ROUND D: the same comparison WITHOUT BaseLoss.cost - closed-form loss of a fresh model's trajectory (NaN is not 0)
        bad = closed_cost_check(rec_cost, res[i], float(dist[i]), tags)
        if bad is not None:
            viol.append({"what": "stored distance is not the loss at the particle recomputed without BaseLoss.cost (fresh model trajectory + closed-form "
                                 "%s of the observations): %s" % ("sum of squares" if loss == "SquareLoss" else "negative log-likelihood", bad[1]),
                         "signature": "dist-not-closed-form-cost:%s:%s:%s" % (bad[0], sig_class, loss),
                         "detail": "particle %d = %s : abc.dist=%r ; %s" % (i, dict(zip([p["name"] for p in plist], [float(v) for v in res[i]])), float(dist[i]), bad[2])})
            return
        if not (dist[i] < gen_tol):
            viol.append({"what": "stored distance not below the tolerance recorded for its generation (abc.tolerances[-1])", "signature": "dist-not-below-tolerance:" + sig_class,
                         "detail": "particle %d dist=%r recorded tolerance=%r applied=%r tol argument form %s" % (i, float(dist[i]), gen_tol, gen_applied, call.get("tol_form"))})
            return
        if gen_applied is not None and not (dist[i] < gen_applied):
            viol.append({"what": "stored distance not below the tolerance its generation applied", "signature": "dist-not-below-applied-tolerance:" + sig_class,
                         "detail": "particle %d dist=%r applied tolerance=%r" % (i, float(dist[i]), gen_applied)})
            return
        if not (w[i] > 0 and math.isfinite(w[i])):
            viol.append({"what": "weight not positive and finite", "signature": "weight-nonpositive:" + sig_class,
                         "detail": "particle %d w=%r" % (i, float(w[i]))})
            return
        if first_fresh and not EC.rel_close(w[i], pd, rel=1e-10, abs_=0.0):
            viol.append({"what": "rejection-ABC weight is not the prior density of the particle", "signature": "weight-not-prior-density:" + sig_class,
                         "detail": "particle %d w=%r prior=%r" % (i, float(w[i]), pd)})
            return
    if call["q"] is not None:
        for a, b in zip(tols, tols[1:]):
            if not (b <= a):
                viol.append({"what": "tolerance increased under quantile scheduling", "signature": "tolerance-increased:" + sig_class,
                             "detail": "tolerances %s" % tols})
                return
        if not (float(abc.next_tol) <= float(np.max(dist)) + 1e-12 * abs(float(np.max(dist)))):
            viol.append({"what": "next_tol above the largest stored distance", "signature": "next-tol-above-max:" + sig_class,
                         "detail": "next_tol %r max dist %r" % (float(abc.next_tol), float(np.max(dist)))})
    if call["cont"] and prev_final is not None and not (tols[0] <= prev_final):
        viol.append({"what": "continued run starts above the previous final tolerance", "signature": "tolerance-increased:continue:" + sig_class,
                     "detail": "first %r previous final %r" % (tols[0], prev_final)})
    # the whole history since the last fresh run never increases when every call used a quantile (or had one generation)
    since = max([k for k in range(ci + 1) if not case["calls"][k]["cont"]] or [0])     # the last fresh get_posterior_sample
    if all((c["q"] is not None or c["G"] == 1) for c in case["calls"][since:ci + 1]):
        for a, b in zip(history_tols, history_tols[1:]):
            if not (b <= a):
                viol.append({"what": "tolerance increased along a get/continue sequence", "signature": "tolerance-increased:sequence:" + sig_class,
                             "detail": "history %s" % history_tols})
                return


def closed_cost_check(rec_cost, particle, d, tags):
    """None when the stored distance `d` is the closed-form loss at the particle, else (class, what, detail).
    Stage 1: trajectory by pygom's integrator on a fresh model (what the loss object integrates, so normally equal to rounding).
    Stage 2 (only when stage 1 is not a number or disagrees): reference trajectory (DOP853 1e-12); tolerance = losscommon.cost_tolerance
    (1e-6 of the summed absolute terms + the change of the loss under a perturbation of the prediction by 1e-7 (1+|yhat|))."""
    try:
        cc, (cls, y2, yh, spread) = rec_cost.cost_closed(particle)
    except Exception as exc:
        tags.append("closed-cost:raised:" + type(exc).__name__)
        return None
    def tol_of(yh_):
        with np.errstate(all="ignore"):
            tl = LC.cost_tolerance(cls, y2, yh_, 1.0, spread)
        return tl if math.isfinite(tl) else 0.0
    if math.isfinite(cc) and math.isfinite(d) and abs(cc - d) <= tol_of(yh):
        tags.append("closed-cost:agrees")
        return None
    if math.isinf(cc) and cc > 0 and d >= 1e300:
        tags.append("closed-cost:+inf-stored-as-largest-float")     # BaseLoss.cost's documented nan_to_num of +inf
        return None
    try:
        cr, pack = rec_cost.cost_reference(particle)
    except Exception as exc:
        cr, pack = None, None
    if cr is not None and math.isfinite(cr) and math.isfinite(d) and abs(cr - d) <= tol_of(pack[2]):
        tags.append("closed-cost:agrees-with-reference-trajectory-only")
        return None
    neg = int(np.sum(yh < 0))
    if not math.isfinite(cc):
        return ("cost-not-a-number", "the loss there is %r (pygom's trajectory has %d negative predictions) but a number is stored" % (cc, neg),
                "closed form on pygom's trajectory %r, on the reference trajectory %r" % (cc, cr))
    return ("value", "closed form %r" % cc, "closed form on pygom's trajectory %r, on the reference trajectory %r, tolerance %.3g" % (cc, cr, tol_of(yh)))


def inputs_differ_by_rounding(case, rec_cost, particle, stream):
    """True iff the recorded trial with this vector fed the loss object values equal to ours to 1e-14 but not bit for bit"""
    x = [float(v) for v in particle]
    nat = rec_cost.natural(particle)
    cat = EC.CATALOGUE[case["model"]]
    for tr in reversed(list(stream)):
        if tr["x"] == x and tr["theta"] is not None:
            pairs = []
            for name, v in nat.items():
                if name in cat["states"]:
                    pairs.append((tr["x0"][cat["states"].index(name)], v))
                elif isinstance(tr["theta"], dict):
                    if name not in tr["theta"]:
                        return False
                    pairs.append((tr["theta"][name], v))
                else:
                    pairs.append((tr["theta"][cat["params"].index(name)], v))
            close = all(EC.rel_close(a, b, rel=1e-14, abs_=0.0) for a, b in pairs)
            return close and any(a != b for a, b in pairs)
    return False


def compare(lr, py_calls, stream, mism, tags):
    """Lean model of the run vs the recorded real run"""
    lcalls = lr.get("calls", [])
    if len(lcalls) != len(py_calls):
        mism.append({"what": "abc:number of calls answered", "detail": "lean %d python %d : %s" % (len(lcalls), len(py_calls), json.dumps(lcalls)[:300])})
        return
    for ci, (lc, pc) in enumerate(zip(lcalls, py_calls)):
        lerr = lc.get("err")
        if (lerr is None) != (pc["err"] is None) or (lerr is not None and lerr != pc["err"]):
            mism.append({"what": "abc:accept/reject of the call", "detail": "call %d lean=%s python=%s tol=%r prev_final=%r" % (
                ci, lerr, pc["err"], pc["tol_arg"], pc["prev_final"])})
            return
        if lerr is not None:
            tags.append("both-raise:" + lerr)
            continue
        ltol = [EC.unfrac(v) for v in lc["tolerances"]]
        if ltol != pc["tolerances"]:
            mism.append({"what": "abc:tolerances", "detail": "call %d lean %s python %s" % (ci, ltol, pc["tolerances"])})
            return
        if EC.unfrac(lc["final_tol"]) != pc["final_tol"]:
            mism.append({"what": "abc:final_tol", "detail": "lean %s python %s" % (lc["final_tol"], pc["final_tol"])})
        if pc["call"]["q"] is not None:
            if EC.unfrac(lc["next_tol"]) != pc["next_tol"]:
                mism.append({"what": "abc:next_tol", "detail": "lean %s python %s" % (lc["next_tol"], pc["next_tol"])})
            # numpy's quantile against the Lean definition (linear interpolation), exact rational vs float
            lin = [EC.unfrac(v) for v in lc["tol_linear"]] + [EC.unfrac(lc["next_tol_linear"])]
            real = pc["tolerances"][1:] + [pc["next_tol"]]
            for a, b in zip(lin, real):
                if not EC.rel_close(a, b, rel=1e-12, abs_=1e-300):
                    mism.append({"what": "abc:np.quantile vs quantileLinear", "detail": "lean %r numpy %r" % (a, b)})
                    return
        for g, (lg, pg) in enumerate(zip(lc["gens"], pc["gens"])):
            if len(lg["parts"]) != len(pg["slots"]):
                mism.append({"what": "abc:particles per generation", "detail": "lean %d python %d" % (len(lg["parts"]), len(pg["slots"]))})
                return
            for i, (lp, sl) in enumerate(zip(lg["parts"], pg["slots"])):
                w, rej, x, cost = sl["ret"]
                lx = [EC.unfrac(v) for v in lp["x"]]
                if lx != x or lp["rej"] != rej:
                    mism.append({"what": "abc:accepted trial", "detail": "call %d gen %d slot %d: lean x=%s rej=%d ; python x=%s rej=%d" % (
                        ci, g, i, lx, lp["rej"], x, rej)})
                    return
                if EC.unfrac(lp["dist"]) != cost:
                    mism.append({"what": "abc:stored distance", "detail": "call %d gen %d slot %d: lean %r python %r" % (ci, g, i, EC.unfrac(lp["dist"]), cost)})
                    return
                if not EC.rel_close(EC.unfrac(lp["w"]), w, rel=1e-12, abs_=0.0):
                    mism.append({"what": "abc:weight", "detail": "call %d gen %d slot %d: lean %r python %r" % (ci, g, i, EC.unfrac(lp["w"]), w)})
                    return
            ntr = sum(len(t) for t in pg["trials"])
            if not EC.rel_close(100.0 * len(pg["slots"]) / max(1, ntr), pc["acc"][g], rel=1e-12):
                mism.append({"what": "abc:acceptance_rate", "detail": "python %r, %d trials recorded" % (pc["acc"][g], ntr)})
        # attributes after the call
        if [[EC.unfrac(v) for v in r] for r in lc["res"]] != [list(map(float, r)) for r in np.atleast_2d(pc["res"])]:
            mism.append({"what": "abc:res after call", "detail": "call %d" % ci})
        if [EC.unfrac(v) for v in lc["dist"]] != list(map(float, pc["dist"])):
            mism.append({"what": "abc:dist after call", "detail": "call %d" % ci})
        if not all(EC.rel_close(EC.unfrac(a), b, rel=1e-12, abs_=0.0) for a, b in zip(lc["w"], pc["w"])):
            mism.append({"what": "abc:w after call", "detail": "call %d" % ci})
    if lr.get("unconsumed", 0) != 0:
        mism.append({"what": "abc:stream not consumed exactly", "detail": "%d trials left" % lr["unconsumed"]})


def check_bindings(bindings, stream, cat, case, mism, tags):
    """what the loss object held at every cost evaluation vs the model's name binding of the trial vector"""
    con = case.get("constraint")
    for tr in stream:
        if tr["theta"] is None:
            continue
        for name, j, npow in bindings:
            v = tr["x"][j]
            exp = v
            for _ in range(npow):
                exp = float(10 ** np.float64(exp))
            if name in cat["states"]:
                got = tr["x0"][cat["states"].index(name)]
            elif isinstance(tr["theta"], dict):
                got = tr["theta"].get(name)
            else:
                got = tr["theta"][cat["params"].index(name)]
            if got is None or not (got == exp or EC.rel_close(got, exp, rel=1e-15, abs_=0.0)):
                mism.append({"what": "binding of trial vector to names", "detail": "name %s: loss object holds %r, model says %s(x[%d]=%r) = %r" % (
                    name, got, "10**" if npow else "", j, v, exp)})
                return
        if con:
            k = cat["states"].index(con[1])
            tot = con[0] - sum(v for i, v in enumerate(tr["x0"]) if i != k)
            if not EC.rel_close(tr["x0"][k], tot, rel=1e-12, abs_=1e-12):
                mism.append({"what": "population constraint", "detail": "x0=%s total=%r" % (tr["x0"], con[0])})
                return
