"""
History / sharing / input-form probes of the loss layer, shared by C06 (cost side) and C07 (gradient side).

WHAT IS PROBED.  The Lean model (Pygom/Loss.lean, Pygom/Sens.lean) takes `cost`, `residual`, the gradient and the
Jacobian as PURE FUNCTIONS of (theta, x0, data, layout): nothing in it remembers an earlier call.  The real loss
object is stateful (it keeps the last parameter values and the last initial values it was given, and it shares the
model object with its caller), so the correspondence only holds if every entry point, after ANY history of calls,
returns the pure function applied to the values the object currently holds.  A case of kind "history" is a SCRIPT
of operations

    new       build a loss object (any combination of target_param / target_state, any input form / dtype)
    call      one of the eleven entry points cost residual diff_loss sensitivity gradient jac  (parameter part)
              costIV residualIV diff_lossIV sensitivityIV jacIV  (parameters followed by initial values),
              with explicit arguments in some container form or with theta=None
    set_model the user re-assigns parameters of the (shared) model object
    deepcopy  copy.deepcopy of a loss object (what pygom.loss.confidence_interval does), both used afterwards

run in lock step on the real objects and on the SPECIFICATION STATE MACHINE below, which is the direct oracle's
view of "the values the object currently holds" (no Lean, no pygom code):

    model m   : a full assignment name -> value (set by the user, and by every evaluation of a loss object on m,
                which binds that object's free parameters to the object's stored values BY NAME)
    object o  : stored values of its free parameters (those of `target_param`, else all), stored initial state x0
    new       : stored values := the constructor's theta, x0 := the constructor's x0; the model is not touched
    call f(a) : a given -> the parameter part of `a` replaces the stored values (in the order of target_param),
                the initial-value part (IV entry points only) replaces x0 at the positions of `target_state`
                (else all of x0);  then model[free parameters] := stored values;  the result must be the loss /
                residual / derivative for (all of model m's current values, x0) - a missing argument means "at the
                stored values"
    set_model : model[k] := v for the pairs given
    deepcopy  : an independent object AND an independent model with the same current values

Every judged result is compared with the independent reference (DOP853 at 1e-12 on the right-hand side that does
not come from pygom, scipy.stats log-densities, finite differences of those) FOR THE CURRENT VALUES; in addition
  * a call repeated in the same specification state must reproduce the first result (rel 1e-9),
  * every returned array is kept, and compared at the end of the script with a copy taken when it was returned
    (a returned view of an internal buffer that a later call overwrites),
  * every array the caller passed in (theta, y, t, x0, weights, spread) is compared at the end with a copy
    taken before the call.  The properties speak about RETURNED VALUES only, so a write into a caller's array is by
    itself not a violation: it is tagged (`side-effect:...`) and reported as a MISMATCH with the pure Lean model
    (whose inputs cannot change).  Its consequences are judged: the x0 / grid containers handed to the first loss
    object are handed, as the same Python objects, to every later loss object of the case (as a user who keeps
    his arrays around does), while the specification gives the later object the ORIGINAL values - if pygom wrote
    into them the later object returns wrong values and that is the violation.
Input forms: list / tuple / float ndarray / list of numpy scalars / list of Python ints / int ndarray for every
argument whose values are integral in the case, a one-element `target_param` / `target_state` / `state_name` given
as a bare string, t0 != 0 given as float, int or numpy scalar.  A form the unchanged pygom rejects with an error at
construction is tagged and the case is not judged; a form it accepts must give right answers.
"""
import copy
import json
import random

import numpy as np

from . import losscommon as LC

PARAM_FNS = ["cost", "residual", "diff_loss", "sensitivity", "gradient", "jac"]
IV_FNS = ["costIV", "residualIV", "diff_lossIV", "sensitivityIV", "jacIV"]
ALL_FNS = PARAM_FNS + IV_FNS
FAMILIES = ["pairs", "pairs", "random", "user-params", "shared-model", "two-instances", "deepcopy", "forms"]
SPREAD_RANGE = {"Normal": (0.3, 2.0), "Gamma": (1.0, 5.0), "NegBinom": (0.5, 5.0)}
INT_SPREAD = {"Normal": (1, 2), "Gamma": (1, 4), "NegBinom": (1, 4)}
ARG_FORMS = ["list", "tuple", "ndarray", "npscalars"]
Y_FORMS = ["ndarray", "int-ndarray", "int-list", "list"]
X0_FORMS = ["list", "ndarray", "tuple", "npscalars", "int-list", "int-ndarray"]
T_FORMS = ["ndarray", "list", "int-ndarray", "int-list"]


# --------------------------------------------------------------------------- container forms

def _is_int(v):
    return float(v).is_integer()


def conv(vals, form):
    """nested list of numbers (or one number) -> the container form"""
    if not isinstance(vals, (list, tuple)):
        if form in ("int-list", "int-ndarray", "int"):
            return int(vals)
        if form == "npscalars":
            return np.float64(vals)
        return float(vals)
    if form == "ndarray":
        return np.array(vals, float)
    if form == "int-ndarray":
        return np.array(vals, float).astype(int)
    if form == "tuple":
        return tuple(conv(v, form) if isinstance(v, (list, tuple)) else float(v) for v in vals)
    if form == "npscalars":
        return [conv(v, form) if isinstance(v, (list, tuple)) else np.float64(v) for v in vals]
    if form == "int-list":
        return [conv(v, form) if isinstance(v, (list, tuple)) else int(v) for v in vals]
    return [conv(v, form) if isinstance(v, (list, tuple)) else float(v) for v in vals]


def all_int(vals):
    if isinstance(vals, (list, tuple)):
        return all(all_int(v) for v in vals)
    return vals is not None and _is_int(vals)


# --------------------------------------------------------------------------- generator

def _layout(r, s, combo):
    """target_param / target_state for one object; combo in 0..3 = (tp given) + 2 (ts given)"""
    params, states = s["params"], s["states"]
    tp = ts = None
    if combo & 1:
        tp = r.sample(params, r.randint(1, len(params)))
    if combo & 2:
        ts = r.sample(states, r.randint(1, len(states)))
    if tp is not None and ts is None and len(tp) + len(states) == len(params):
        # theta-and-x0 of that length is read as "parameters only" and refused by the unchanged code: not a layout
        tp = tp[:-1] if len(tp) > 1 else tp + [k for k in params if k not in tp][:1]
    return tp, ts


def _obj_spec(r, s, model, combo, cls=None, int_forms=True, obs=None):
    n = len(s["times"])
    obs = list(obs if obs is not None else s["obs"])
    p = len(obs)
    tp, ts = _layout(r, s, combo)
    cls = cls or r.choice(LC.CLASSES)
    forms = {"y": "ndarray", "x0": "list", "t": "ndarray", "theta0": "list", "w": "list", "spread": "list", "names": "list", "t0": "float"}
    if r.random() < 0.5:
        forms["y"] = r.choice(Y_FORMS)
        forms["theta0"] = r.choice(["list", "tuple", "ndarray"])
        forms["names"] = r.choice(["list", "str"])
        forms["x0"] = r.choice(X0_FORMS if all_int(s["x0"]) else X0_FORMS[:4])
        forms["t"] = r.choice(T_FORMS if all_int(s["times"]) else T_FORMS[:2])
        forms["t0"] = r.choice(["float", "npscalar"] + (["int"] if _is_int(s["t0"]) else []))
    if not int_forms:
        forms["y"] = forms["y"].replace("int-ndarray", "ndarray").replace("int-list", "list")
    weighted = cls in ("Square", "Normal")
    if weighted and r.random() < 0.6:
        integer = r.random() < 0.4
        w = list(LC.gen_shaped(r, n, p, 1 if integer else 0.5, 3 if integer else 2.0, integer=integer, allow_none=False))
        forms["w"] = r.choice(["list", "ndarray"] + (["int-list", "int-ndarray"] if integer else []))
    else:
        w = ["none", None]
    spread = ["default", None]
    if cls in SPREAD_RANGE and r.random() < 0.85:
        integer = r.random() < 0.35
        lo, hi = INT_SPREAD[cls] if integer else SPREAD_RANGE[cls]
        spread = list(LC.gen_shaped(r, n, p, lo, hi, integer=integer, allow_none=False))
        forms["spread"] = r.choice(["list", "ndarray"] + (["int-list", "int-ndarray"] if integer else []))
    return {"model": model, "cls": cls, "obs": obs, "tp": tp, "ts": ts, "weights": w, "spread": spread, "forms": forms}


def _arg(s, spec, fn, th, x0, short=False):
    """explicit argument of entry point `fn` for object `spec` at full parameter values `th` and full initial state `x0`"""
    fp = spec["tp"] if spec["tp"] is not None else s["params"]
    fs = spec["ts"] if spec["ts"] is not None else s["states"]
    a = [th[s["params"].index(k)] for k in fp]
    if fn in IV_FNS:
        if short and spec["tp"] is None and spec["ts"] is not None:
            a = []                                   # documented short form: the targeted initial values only
        a = a + [x0[s["states"].index(k)] for k in fs]
    return a


def _call(r, s, specs, o, fn, th, x0, none=False, short=False):
    if none:
        return {"op": "call", "obj": o, "fn": fn, "arg": None}
    return {"op": "call", "obj": o, "fn": fn, "arg": _arg(s, specs[o], fn, th, x0, short), "form": r.choice(ARG_FORMS)}


def gen_history(r, index, e1_pool, family=None):
    """one history case.  `index` drives the systematic part (family, pair of entry points, layout combination);
    everything else comes from r.  e1_pool: the entry points the calling check judges."""
    family = family or FAMILIES[index % len(FAMILIES)]
    j = index // len(FAMILIES)
    if family == "pairs":                       # two slots per round: consecutive pair indices
        j = 2 * j + (index % len(FAMILIES)) % 2
    # round d: a fifth of the scripts run on a model whose rates DEPEND ON t (losscommon.TD_CATALOGUE: window shapes, seasonal forcing,
    # a smooth pulse) with the clock of the loss object moved away from zero (t0 positive / negative / non-integer / large) - the
    # combination that tells an integration in the real time from one on an elapsed-time clock
    td = r.random() < 0.2
    if td:
        s = LC.gen_setup_td_shifted(r)
        s["obs"] = s["obs"][:3]
    else:
        s = LC.gen_setup(r, catalogue_share=0.5)
    cat = s["model"]["src"] == "catalogue"
    # integer-valued variants (so that int containers are admissible): initial state, grid, t0
    if r.random() < (0.6 if family == "forms" else 0.25):
        s["x0"] = [float(max(1, round(v))) if (cat and s["model"]["name"] != "FitzHugh") or not cat else float(round(v)) for v in s["x0"]]
    if cat and r.random() < (0.6 if family == "forms" else 0.25):
        n = len(s["times"])
        hi = max(n + 1, int(LC.CATALOGUE[s["model"]["name"]]["T"][1]))
        s["times"] = [float(v) for v in sorted(r.sample(range(1, hi + 1), n))]
        s["grid"] = "integer"
    if r.random() < (0.6 if family == "forms" else 0.3) and not td:
        first = s["times"][0]
        s["t0"] = r.choice([round(first * r.uniform(0.2, 0.8), 3), round(first * r.uniform(0.2, 0.8), 3), -1.0])
    # replicate observations (a time observed twice or three times) and grids far from the time origin (both signs; the models of
    # gen_setup are autonomous, the reference integrates in the real time all the same)
    c = r.random()
    if c < 0.15:
        for _ in range(r.randint(1, 2)):
            k = r.randrange(len(s["times"]))
            s["times"] = s["times"][:k + 1] + [s["times"][k]] + s["times"][k + 1:]
        s["replicates"] = True
    if 0.1 < c < 0.25 and not td:
        shift = r.choice([738000.0, -738000.0, 10000.0, -10000.0, 1.0e6])
        s["t0"] = float(s["t0"]) + shift
        s["times"] = [float(v) + shift for v in s["times"]]
        s["far"] = True
    sc = lambda lo, hi: r.uniform(lo, hi)
    pts = {"A": list(s["theta_eval"]), "B": [round(v * sc(0.8, 1.25), 4) for v in s["theta_true"]],
           "U": [round(v * sc(0.85, 1.2), 4) for v in s["theta_true"]],
           "X": list(s["x0"]), "Y": list(s["x0_eval"])}
    specs = []
    combo = (j + index) % 4 if family != "forms" else r.randrange(4)
    cls0 = LC.CLASSES[j % 5] if family == "forms" else None
    specs.append(_obj_spec(r, s, 0, combo, cls=cls0))
    if family == "forms":
        specs[0]["forms"]["y"] = Y_FORMS[(j // 5) % 4]
        specs[0]["forms"]["x0"] = r.choice(X0_FORMS if all_int(s["x0"]) else X0_FORMS[:4])
        specs[0]["forms"]["t"] = r.choice(T_FORMS if all_int(s["times"]) else T_FORMS[:2])
    models = [{"theta": list(s["theta_true"])}]
    ops = [{"op": "new", "obj": 0}]
    e1 = e1_pool[j % len(e1_pool)]
    e2 = ALL_FNS[(j // len(e1_pool)) % len(ALL_FNS)]
    A, B, U, X, Y = pts["A"], pts["B"], pts["U"], pts["X"], pts["Y"]
    C = lambda o, fn, th, x0, **kw: _call(r, s, specs, o, fn, th, x0, **kw)
    rnd_fn = lambda: r.choice(e1_pool) if r.random() < 0.6 else r.choice(ALL_FNS)

    def random_ops(k, objs):
        out = []
        for _ in range(k):
            c = r.random()
            o = r.choice(objs)
            if c < 0.12:
                m = specs[o]["model"] if specs[o]["model"] < len(models) else 0
                ks = r.sample(s["params"], r.randint(1, len(s["params"])))
                src = r.choice([U, s["theta_true"], B])
                out.append({"op": "set_model", "model": m, "values": [[k_, src[s["params"].index(k_)]] for k_ in ks], "form": r.choice(["pairs", "dict"])})
            else:
                out.append(C(o, rnd_fn(), r.choice([A, B]), r.choice([X, Y]), none=r.random() < 0.2, short=r.random() < 0.3))
        return out

    if family in ("pairs", "forms"):
        # systematic: same theta / other x0, other theta / same x0, both other
        th2, x2 = [(A, Y), (B, X), (B, Y)][(j // (len(e1_pool) * len(ALL_FNS))) % 3]
        ops += [C(0, e1, A, X), C(0, e2, th2, x2), C(0, e1, A, X)]
        if e2 in IV_FNS and e1 not in IV_FNS:
            ops.append(C(0, r.choice(IV_FNS), A, X))           # restore the initial state through an IV entry point
        ops += [C(0, e1, A, X), C(0, e1, A, X, none=True)]
        ops += random_ops(r.randint(1, 3), [0])
    elif family == "random":
        ops += random_ops(r.randint(7, 11), [0])
    elif family == "user-params":
        fp = specs[0]["tp"] if specs[0]["tp"] is not None else s["params"]
        fixed = [k for k in s["params"] if k not in fp] or list(s["params"])
        chg = sorted(set(r.sample(fixed, r.randint(1, len(fixed))) + r.sample(s["params"], r.randint(0, len(s["params"])))), key=s["params"].index)
        setm = lambda src: {"op": "set_model", "model": 0, "values": [[k, src[s["params"].index(k)]] for k in chg], "form": r.choice(["pairs", "dict"])}
        ops += [C(0, e1, A, X), setm(U), C(0, e1, A, X, none=True), C(0, e1, A, X), C(0, e2, B, Y), setm(s["theta_true"]),
                C(0, e1, A, X, none=True), C(0, e1, A, X)]
        ops += random_ops(r.randint(0, 2), [0])
    elif family in ("shared-model", "two-instances"):
        other = 0 if family == "shared-model" else 1
        if other:
            models.append({"theta": list(U)})
        obs2 = r.sample(s["states"], r.randint(1, min(2, len(s["states"]))))
        specs.append(_obj_spec(r, s, other, r.randrange(4), obs=obs2))
        if r.random() < 0.7:                         # the user hands the same x0 / grid containers to both objects
            specs[1]["forms"]["x0"], specs[1]["forms"]["t"] = specs[0]["forms"]["x0"], specs[0]["forms"]["t"]
        ops += [C(0, e1, A, X)] + ([C(0, r.choice(IV_FNS), B, Y)] if r.random() < 0.5 else [])
        ops += [{"op": "new", "obj": 1}, C(0, e1, A, X, none=True), C(1, e1, A, Y), C(0, e1, A, X, none=True), C(1, e2, B, Y), C(0, e1, A, X, none=True),
                C(1, e2, B, Y, none=True), C(0, e1, A, X), C(1, rnd_fn(), U, X), C(0, rnd_fn(), A, Y), C(1, e2, B, Y, none=True),
                C(0, e1, A, X, none=True)]
        ops += random_ops(r.randint(0, 3), [0, 1])
    elif family == "deepcopy":
        specs.append(dict(specs[0], model=1))          # the copy: same layout, its own model
        # the user then re-parameterises the ORIGINAL's model: the copy has its own model and must not notice
        setm = {"op": "set_model", "model": 0, "values": [[k_, U[s["params"].index(k_)]] for k_ in s["params"]], "form": "dict"}
        ops += [C(0, e1, A, X), {"op": "deepcopy", "src": 0, "obj": 1}, C(1, e1, A, X, none=True), C(1, e2, B, Y), C(0, e1, A, X, none=True),
                C(1, e2, B, Y, none=True), setm, C(1, e1, B, Y, none=True), C(0, e1, A, X, none=True), C(0, e1, A, X), C(1, e1, B, Y, none=True)]
        ops += random_ops(r.randint(0, 3), [0, 1])
    return {"kind": "history", "family": family, "setup": s, "points": pts, "models": models, "objects": specs, "ops": ops,
            "noise_seed": r.getrandbits(32), "pair": [e1, e2]}


# --------------------------------------------------------------------------- executor

class Context(object):
    """reference side of one case: trajectories (cached), data, expanded weights / spreads per object"""

    def __init__(self, case, rhs):
        self.case, self.s, self.rhs = case, case["setup"], rhs
        self.box = LC.box_any(self.s)
        self._tr = {}
        s = self.s
        self.tr_true = self.traj(s["theta_true"], s["x0"])
        self.obj = {}

    t0_override = None          # set while a wrong value is being diagnosed ("integrated from a truncated t0")

    def traj(self, theta, x0):
        s = self.s
        t0 = s["t0"] if self.t0_override is None else self.t0_override
        key = (tuple(float(v) for v in theta), tuple(float(v) for v in x0), float(t0))
        if key not in self._tr:
            self._tr[key] = LC.ref_traj_any(s, self.rhs, key[0], key[1], t0, s["times"], **self.box)
        return self._tr[key]

    def prepare(self, k):
        """data and expanded weights for object k (None when the class' domain does not allow the true trajectory)"""
        if k in self.obj:
            return self.obj[k]
        s, spec = self.s, self.case["objects"][k]
        n, p = len(s["times"]), len(spec["obs"])
        out = None
        if self.tr_true is not None:
            data = LC.make_data(dict(s, obs=spec["obs"]), self.tr_true, [spec["cls"]], "perturbed", self.case["noise_seed"] + 7 * spec["model"])
            if spec["cls"] in data:
                y = data[spec["cls"]]
                if spec["forms"]["y"].startswith("int"):
                    y = np.rint(y)
                    if spec["cls"] == "Gamma":
                        y = np.maximum(y, 1.0)
                W = LC.expand(spec["weights"][0], spec["weights"][1], n, p)
                spread = None
                if spec["cls"] in LC.SPREAD_KW:
                    default = {"Normal": 1.0, "Gamma": 2.0, "NegBinom": 1.0}[spec["cls"]]
                    sk, sv = spec["spread"]
                    spread = LC.expand(sk, sv if sk != "default" else default, n, p)
                out = {"y": y, "W": W, "spread": spread, "idx": [s["states"].index(o) for o in spec["obs"]], "n": n, "p": p}
        self.obj[k] = out
        return out


def int_marks(spec, s):
    """which arguments of the object were given in an integer container (part of the violation signature)"""
    f = spec["forms"]
    m = []
    for k in ("x0", "t", "y", "w", "spread"):
        if f[k].startswith("int"):
            m.append("int-" + k)
    if f["t0"] == "int":
        m.append("int-t0")
    if not _is_int(s["t0"]) and f["t"].startswith("int"):
        m.append("fractional-t0")
    return m


def layout_name(spec):
    return {(False, False): "all", (True, False): "tp", (False, True): "ts", (True, True): "tp+ts"}[(spec["tp"] is not None, spec["ts"] is not None)]


def build_object(case, k, model, ctx, keep, shared):
    """the real loss object for objects[k]; `keep` collects (label, array passed in, copy) for the caller's-array check;
    `shared`: containers already handed to an earlier object of the case, by (argument, form) - handed over again"""
    s, spec = case["setup"], case["objects"][k]
    d = ctx.prepare(k)
    f = spec["forms"]
    fp = spec["tp"] if spec["tp"] is not None else s["params"]
    theta0 = conv([case["models"][spec["model"]]["theta"][s["params"].index(k_)] for k_ in fp], f["theta0"])
    y = d["y"][:, 0].tolist() if d["p"] == 1 else d["y"].tolist()
    y = conv(y, f["y"])
    x0 = shared.setdefault(("x0", f["x0"]), conv(list(s["x0"]), f["x0"]))
    t = shared.setdefault(("t", f["t"]), conv(list(s["times"]), f["t"]))
    t0 = {"float": float, "int": int, "npscalar": np.float64}[f["t0"]](s["t0"])
    one = lambda names: names[0] if (f["names"] == "str" and len(names) == 1) else list(names)
    kw = {}
    if spec["weights"][0] != "none":
        kw["state_weight"] = conv(spec["weights"][1], f["w"])
    if spec["cls"] in LC.SPREAD_KW and spec["spread"][0] != "default":
        kw[LC.SPREAD_KW[spec["cls"]]] = conv(spec["spread"][1], f["spread"])
    if spec["tp"] is not None:
        kw["target_param"] = one(spec["tp"])
    if spec["ts"] is not None:
        kw["target_state"] = one(spec["ts"])
    for label, a in (("theta0", theta0), ("y", y), ("x0", x0), ("t", t), ("weights", kw.get("state_weight")), ("spread", kw.get(LC.SPREAD_KW.get(spec["cls"], "-")))):
        if isinstance(a, (np.ndarray, list)) and not any(a is e[2] for e in keep):
            keep.append(("%s of object %d" % (label, k), label, a, copy.deepcopy(a)))
    return LC.loss_class(spec["cls"])(theta0, model, x0, t0, t, y, one(spec["obs"]), **kw)


def _same(a, b):
    try:
        if isinstance(a, np.ndarray) or isinstance(b, np.ndarray):
            a_, b_ = np.asarray(a), np.asarray(b)
            return a_.shape == b_.shape and a_.dtype == b_.dtype and bool(np.array_equal(a_, b_, equal_nan=a_.dtype.kind == "f"))
        if isinstance(a, (list, tuple)):
            return type(a) is type(b) and len(a) == len(b) and all(_same(x, y) for x, y in zip(a, b))
        return type(a) is type(b) and (a == b or (a != a and b != b))
    except Exception:
        return False


def execute(case, judge, judged_fns):
    """run the script.  judge(ev) -> list of violations (without signature suffix) for a judged call, None when it cannot judge;
    ev = dict(i, fn, k (object), spec, d (prepared data), th (full current parameter values), x0 (current initial
    state), ctx, got).  Returns dict(nontrivial, violations, mismatches, tags, margins)"""
    s = case["setup"]
    viol, tags, mism = [], [], []
    tags += ["history:" + case["family"], "t0:" + ("zero" if s["t0"] == 0 else "far" if s.get("far") else "nonzero")]
    if s.get("replicates"):
        tags.append("grid:replicate-times")
    if s["model"]["src"] == "td":
        tags += ["rates-depend-on-t:t0%s0" % ("!=" if s["t0"] != 0 else "="), "td-model:" + s["model"]["name"], "td-shape:" + s["model"]["shape"]]
    models, rhs = [], None
    for m in case["models"]:
        model, rhs, err = LC.build_model_any(s)
        if err:
            return {"nontrivial": False, "mismatches": [{"what": "build", "detail": err}], "violations": [], "tags": ["build_error"]}
        LC.set_params(model, s["params"], m["theta"])
        models.append(model)
    ctx = Context(case, rhs)
    if ctx.tr_true is None:
        return {"nontrivial": False, "mismatches": [], "violations": [], "tags": tags + ["reference-failed-or-outside-box"]}
    params, states = s["params"], s["states"]
    mref = [dict(zip(params, m["theta"])) for m in case["models"]]
    objs, oref = {}, {}
    keep_in, keep_out, first, shared = [], [], {}, {}
    judged = 0
    dead = set()

    def sig(fn, spec, what):
        marks = int_marks(spec, s) if what in ("wrong-value", "not-reproducible") else []
        if s["model"]["src"] == "td" and what == "wrong-value":
            marks = marks + ["time-dependent-model"]
        return "history:%s:%s:%s%s" % (fn, what, layout_name(spec), (":" + "+".join(marks)) if marks else "")

    seen_x0, seen_th = {}, {}          # per object / per model: the distinct values held so far (for the diagnosis)

    def diagnose(ev, st):
        """a wrong value is classified by asking the same judge whether the result is RIGHT for some other values:
        initial values / parameters held earlier (a stale cache), initial values or t0 truncated to integers"""
        hyp, late = [], []
        tr = [float(int(v)) for v in ev["x0"]]
        if tr != ev["x0"]:           # asked first when the initial state was given in an integer container, last otherwise
            (hyp if ev["spec"]["forms"]["x0"].startswith("int") else late).append(("initial-values-truncated-to-int", ev["th"], tr, None))
        if float(int(s["t0"])) != float(s["t0"]):
            (hyp if ev["spec"]["forms"]["t"].startswith("int") else late).append(("t0-truncated-to-int", ev["th"], ev["x0"], float(int(s["t0"]))))
        for x_old in reversed(seen_x0.get(ev["k"], [])[-5:]):
            if x_old != ev["x0"]:
                hyp.append(("stale-initial-values", ev["th"], x_old, None))
        for t_old in reversed(seen_th.get(st["model"], [])[-6:]):
            if t_old != ev["th"]:
                hyp.append(("stale-parameters", t_old, ev["x0"], None))
        for x_old in reversed(seen_x0.get(ev["k"], [])[-3:]):
            for t_old in reversed(seen_th.get(st["model"], [])[-4:]):
                if x_old != ev["x0"] and t_old != ev["th"]:
                    hyp.append(("stale-parameters-and-initial-values", t_old, x_old, None))
        for name, th_, x0_, t0_ in hyp + late:
            ctx.t0_override = t0_
            try:
                r_ = judge(dict(ev, th=list(th_), x0=list(x0_), tags=[]))
            except Exception:
                r_ = None
            finally:
                ctx.t0_override = None
            if r_ == []:
                return name
        return "wrong-value"

    for i, op in enumerate(case["ops"]):
        kind = op["op"]
        if kind == "set_model":
            vals = [(str(k), float(v)) for k, v in op["values"]]
            mref[op["model"]].update(dict(vals))
            # a partial assignment is only accepted as a dict; the pairs form gives every parameter (changed or not)
            models[op["model"]].parameters = dict(vals) if op["form"] == "dict" else [(k, float(mref[op["model"]][k])) for k in params]
            seen_th.setdefault(op["model"], []).append([mref[op["model"]][k_] for k_ in params])
            tags.append("op:set_model")
            continue
        if kind == "new":
            k = op["obj"]
            spec = case["objects"][k]
            if ctx.prepare(k) is None:
                tags.append("skipped:%s:trajectory-not-positive" % spec["cls"])
                dead.add(k)
                continue
            try:
                objs[k] = build_object(case, k, models[spec["model"]], ctx, keep_in, shared)
            except Exception as exc:
                # a form refused at construction is not judged (STRENGTHEN_GUIDE: tagged); with every argument in its
                # default float form a refusal is a violation
                nondefault = {a: b for a, b in spec["forms"].items() if b not in ("ndarray", "list", "float")}
                if type(exc).__name__ == "InputError" and ctx.traj([mref[spec["model"]][k_] for k_ in params], s["x0"]) is None:
                    # the constructor integrates once with the values the (shared) model object holds at that moment; when the
                    # reference itself does not exist for them (finite-time blow-up inside the horizon) the refusal is right
                    tags.append("constructor-refuses:no-reference-solution-for-the-model's-current-values")
                elif s.get("replicates") and type(exc).__name__ == "InputError":
                    # unchanged pygom: the constructor's trial integrate2 re-chooses the integrator from the eigenvalues after every
                    # step; when that is dopri5 the zero-length step between replicate times fails ("unable to integrate")
                    tags.append("constructor-refuses:replicate-times:InputError")
                elif nondefault:
                    tags.append("constructor-refuses:%s:%s" % (type(exc).__name__, "+".join(sorted("%s=%s" % ab for ab in nondefault.items()))))
                else:
                    viol.append({"what": "%sLoss constructor raised %s: %s" % (spec["cls"], type(exc).__name__, str(exc)[:200]),
                                 "signature": sig("constructor", spec, "raises:" + type(exc).__name__), "detail": json.dumps(spec)[:800]})
                dead.add(k)
                continue
            fp = spec["tp"] if spec["tp"] is not None else params
            oref[k] = {"theta": {k_: case["models"][spec["model"]]["theta"][params.index(k_)] for k_ in fp}, "x0": list(s["x0"]), "model": spec["model"]}
            seen_x0.setdefault(k, []).append(list(s["x0"]))
            for a, b in spec["forms"].items():
                tags.append("form:%s=%s" % (a, b))
            tags += ["layout:" + layout_name(spec), "cls:" + spec["cls"]]
            continue
        if kind == "deepcopy":
            if op["src"] in dead or op["src"] not in objs:
                dead.add(op["obj"])
                continue
            try:
                objs[op["obj"]] = copy.deepcopy(objs[op["src"]])
            except Exception as exc:
                viol.append({"what": "copy.deepcopy of a %sLoss object raised %s: %s" % (case["objects"][op["src"]]["cls"], type(exc).__name__, str(exc)[:200]),
                             "signature": sig("deepcopy", case["objects"][op["src"]], "raises:" + type(exc).__name__), "detail": ""})
                dead.add(op["obj"])
                continue
            src = oref[op["src"]]
            mref.append(dict(mref[src["model"]]))
            oref[op["obj"]] = {"theta": dict(src["theta"]), "x0": list(src["x0"]), "model": len(mref) - 1}
            ctx.obj[op["obj"]] = ctx.prepare(op["src"])
            tags.append("op:deepcopy")
            continue
        # ---- call
        k, fn = op["obj"], op["fn"]
        if k in dead or k not in objs:
            continue
        spec, st = case["objects"][k], oref[k]
        fp = spec["tp"] if spec["tp"] is not None else params
        fs = spec["ts"] if spec["ts"] is not None else states
        arg = op["arg"]
        if arg is not None:
            a = list(arg)
            if fn in IV_FNS:
                nx = len(fs)
                xs, a = a[len(a) - nx:], a[:len(a) - nx]
                for name, v in zip(fs, xs):
                    st["x0"][states.index(name)] = float(v)
            if a:
                st["theta"] = dict(zip(fp, [float(v) for v in a]))
        mref[st["model"]].update(st["theta"])
        th = [mref[st["model"]][k_] for k_ in params]
        x0 = list(st["x0"])
        for book, key_, val in ((seen_x0, k, x0), (seen_th, st["model"], th)):
            if val not in book.setdefault(key_, []):
                book[key_].append(list(val))
        tags.append("call:%s%s" % (fn, "(None)" if arg is None else ""))
        passed = None if arg is None else conv(list(arg), op.get("form", "list"))
        passed_copy = copy.deepcopy(passed)
        got = exc_ = None
        try:
            got = getattr(objs[k], fn)() if arg is None else getattr(objs[k], fn)(passed)
        except Exception as exc:
            exc_ = exc
        if passed is not None and not _same(passed, passed_copy):
            # a side effect, not a wrong returned value: tag + mismatch with the pure model (see the module docstring)
            tags.append("side-effect:argument-modified:" + fn)
            mism.append({"what": "side-effect:argument-modified", "detail": "%s wrote to the argument array of its caller; op %d: passed %r, afterwards %r" % (fn, i, passed_copy, passed)})
        if fn not in judged_fns:
            continue
        d = ctx.prepare(k)
        ref = ctx.traj(th, x0)
        if ref is None or (spec["cls"] in LC.NEEDS_POSITIVE and ref[:, d["idx"]].min() < 0.02):
            tags.append("unjudged:reference-failed-or-outside-domain")
            continue
        where = "op %d of %s" % (i, json.dumps([(o.get("fn") or o["op"]) + ("" if o.get("arg", 0) is not None else "()") for o in case["ops"]]))
        if s.get("replicates") and (type(exc_).__name__ == "IntegrationError" or
                                    (isinstance(got, np.ndarray) and got.size and np.all(got == np.finfo(float).max))):
            # unchanged pygom / scipy: the zero-length step between replicate times can be refused by the integrator (e.g. when the
            # right-hand side is identically zero); `residual` turns the failure into an array of the largest float
            tags.append("unjudged:replicate-times:integration-refused")
            continue
        if exc_ is not None:
            viol.append({"what": "%s of %sLoss raised %s: %s" % (fn, spec["cls"], type(exc_).__name__, str(exc_)[:200]),
                         "signature": sig(fn, spec, "raises:" + type(exc_).__name__), "detail": where})
            continue
        ev = {"i": i, "fn": fn, "k": k, "spec": spec, "d": d, "th": th, "x0": x0, "ctx": ctx, "got": got, "arg": arg, "tags": tags}
        verdict = judge(ev)
        if verdict is None:                       # the reference for this call does not exist (see the tag the judge left)
            continue
        if verdict and s["model"]["src"] == "td" and LC.scipy_lsoda_off(ctx.rhs, th, x0, s["t0"], s["times"], ref):
            # time-dependent rates: scipy's own lsoda (oracle right-hand side, no pygom) is off the reference on this very instance
            # (a right-hand side that vanishes until the window opens lets it stride over the window): nothing to judge
            tags.append("unjudged:scipy-lsoda-inaccurate-on-this-instance")
            continue
        judged += 1
        for v in verdict:
            cls_ = v.pop("class", "wrong-value")
            if cls_ == "wrong-value":
                cls_ = diagnose(ev, st)
                v["what"] += {"wrong-value": "", "initial-values-truncated-to-int": " (it is right for the initial values truncated to integers)",
                              "t0-truncated-to-int": " (it is right for an integration started at t0 truncated to an integer)",
                              "stale-initial-values": " (it is right for initial values the object held earlier)",
                              "stale-parameters": " (it is right for parameter values that were current earlier)",
                              "stale-parameters-and-initial-values": " (it is right for parameter and initial values held earlier)"}[cls_]
            v["signature"] = sig(fn, spec, cls_)
            v["detail"] = (v.get("detail", "") + " | " + where + " | current theta=%s x0=%s target_param=%s target_state=%s obs=%s" % (
                th, x0, spec["tp"], spec["ts"], spec["obs"]))[:3000]
            viol.append(v)
        # kept results and repeated calls
        if isinstance(got, np.ndarray):
            keep_out.append((i, fn, spec, got, got.copy()))
        state_key = (k, fn, tuple(th), tuple(x0))
        flat = np.asarray(got, float).ravel() if not isinstance(got, tuple) else None
        if flat is not None:
            if state_key in first:
                j0, f0 = first[state_key]
                if f0.shape != flat.shape or not np.all(np.abs(f0 - flat) <= 1e-9 * (1e-3 + np.maximum(np.abs(f0), np.abs(flat))) + 1e-12 * (1 + np.max(np.abs(f0), initial=0.0))):
                    viol.append({"what": "%s repeated with the object in the same state (ops %d and %d) does not reproduce its first result" % (fn, j0, i),
                                 "signature": sig(fn, spec, "not-reproducible"), "detail": "first %s now %s | %s" % (f0.tolist()[:12], flat.tolist()[:12], where)})
            else:
                first[state_key] = (i, flat.copy())
    for i, fn, spec, arr, cp in keep_out:
        if not _same(arr, cp):
            viol.append({"what": "the array returned by %s (op %d) was changed by later calls" % (fn, i), "signature": sig(fn, spec, "returned-array-aliased"),
                         "detail": "returned %s now %s" % (cp.ravel().tolist()[:12], arr.ravel().tolist()[:12])})
    for label, short, arr, cp in keep_in:
        if not _same(arr, cp):
            tags.append("side-effect:caller-array-modified:" + short)
            mism.append({"what": "side-effect:caller-array-modified", "detail": "the caller's %s was modified: before %r after %r" % (label, cp, arr)})
    return {"nontrivial": judged >= 2, "violations": viol, "mismatches": mism, "tags": sorted(set(tags)), "judged": judged}
