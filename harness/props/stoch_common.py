"""
Shared machinery of C04 / C11 / C15 (stochastic simulation).

* generators of bounded-rate event models with integer initial states (`gen_sim_case`);
* `traced_run`: runs the REAL `solve_stochast` while recording every numpy.random.exponential /
  poisson call, every evaluation of eventRateVector / vMat / transitionMean / transitionVar /
  pureOdeVector (wrappers installed on the model object for the duration of the run) and what
  `_jump` returned (raw path incl. the per-step dt that solve_stochast drops);
* `segment`: cuts the recorded stream into loop iterations;
* `tie_steps`: per iteration, sends the OBSERVED pre-state, evaluator values and that iteration's
  draws to the Lean driver (`step_exact` / `step_tau`) and compares post-state, counts, dt, tau,
  success flag and branch with what the real code recorded;
* Lean-independent direct oracles (`oracle_c04`, `oracle_c11`, `oracle_c15`).

The Lean model follows the REPAIRED code for two defects found by these checks
(proposed_fixes/C15-*.diff, proposed_fixes/C11-*.diff).  To make the model follow a tree that does not
carry a repair set the corresponding flag to True (the Lean side keeps both behaviours).
"""
import contextlib
import io
import re
from fractions import Fraction

import numpy as np

from .. import exprs as E
from .. import gen, leanio, pymodel

import os
_LEGACY = os.environ.get("VERIF_STOCH_LEGACY", "")    # e.g. VERIF_STOCH_LEGACY=counts,lims  (development aid only)
LEGACY_EXACT_COUNTS = "counts" in _LEGACY   # True: model `_addJumpsBetweenTime` exact branch as np.histogram(t, bins) unweighted
LEGACY_STATE_LIMS = "lims" in _LEGACY       # True: model `_state_lims` as one entry per declared entry (range names unexpanded)

MAX_STEPS = 300
RATE_CAP = 2000.0      # total event rate beyond which a run is cut (the properties are about bounded-rate models)
RTOL = 1e-12


# ----------------------------------------------------------------------------- numbers
def q(v):
    """exact rational string of a float / int"""
    if not isinstance(v, (Fraction, int, np.integer)) and np.isinf(float(v)):
        # an exponential variate with scale 1/denormal is +inf; any finite draw beats it, as in np.argmin
        return ("-" if float(v) < 0 else "") + "1" + "0" * 400
    f = v if isinstance(v, Fraction) else (Fraction(int(v)) if isinstance(v, (int, np.integer)) else Fraction(float(v)))
    return str(f.numerator) if f.denominator == 1 else "%d/%d" % (f.numerator, f.denominator)


def qs(a):
    return [q(v) for v in np.asarray(a).ravel().tolist()]


def fr(s):
    return Fraction(s)


def close(a, b, rel=RTOL, abs_=0.0):
    a = float(a); b = float(b)
    return abs(a - b) <= abs_ + rel * max(abs(a), abs(b))


def same_vec(lean_strs, arr, tol=None):
    """Lean rationals against a float array: exactly when tol is None"""
    arr = np.asarray(arr, float).ravel().tolist()
    if len(lean_strs) != len(arr):
        return False
    if tol is None:
        return all(Fraction(s) == Fraction(v) for s, v in zip(lean_strs, arr))
    return all(close(Fraction(s), v, rel=tol, abs_=tol) for s, v in zip(lean_strs, arr))


# ----------------------------------------------------------------------------- declared limits (harness side)
def declared_entries(spec):
    d = spec["state"]
    if "str" in d:
        return [(n, (0, None)) for n in re.split(r",|\s", d["str"]) if n.strip()]
    out = []
    for it in d["list"]:
        out.append((it, (0, None)) if isinstance(it, str) else (it[0], (it[1][0], it[1][1])))
    return out


def declared_limits(spec):
    """[(state name, (lo, hi))] per EXPANDED state: a range-style entry's limit holds for each of its states;
    a bare name has (0, None).  This is the property's reading, independent of pygom and of Lean."""
    out = []
    for n, l in declared_entries(spec):
        for s in gen.expand_decl([n]):
            out.append((s, l))
    return out


def within(lims, x, slack=0.0):
    bad = []
    for i, ((name, (lo, hi)), v) in enumerate(zip(lims, x)):
        if lo is not None and v < lo - slack:
            bad.append((i, name, float(v), "below", lo))
        if hi is not None and v > hi + slack:
            bad.append((i, name, float(v), "above", hi))
    return bad


# ----------------------------------------------------------------------------- generator
PARAM_VALUES = [0.01, 0.02, 0.05, 0.1, 0.2, 0.3, 0.5, 1.0]


def total_rate(spec, meta, x0, pv):
    env = {s: Fraction(int(v)) for s, v in zip(meta["states"], x0)}
    env.update({p: Fraction(v).limit_denominator(1000) for p, v in pv.items()})
    env["t"] = Fraction(0)
    try:
        denv = gen.derived_env(spec.get("derived", []), env)
        return float(sum(E.ev(p["rate"], denv) for p in meta["procs"]))
    except E.Undefined:
        return None


def gen_sim_case(rng, *, limits=False, max_x0=30, ode_share=0.0, single_share=0.25):
    """a bounded-rate event model + integer initial state + parameters; None when the draw is unusable"""
    shape = rng.random()
    kw = {}
    if shape < single_share / 2:
        kw = dict(min_states=1, max_states=1)                    # single state
    elif shape < single_share:
        kw = dict(max_events=1)                                   # single event
    allow_ode = rng.random() < ode_share
    spec, meta = gen.gen_model(rng, allow_time=False, sym_mag=False, allow_ode=allow_ode,
                               allow_derived=rng.random() < 0.5, min_events=1, limits=False, **kw)
    nS = len(meta["states"])
    x0 = [rng.randint(0, max_x0) if rng.random() < 0.85 else 0 for _ in range(nS)]
    if sum(x0) == 0:
        x0[rng.randrange(nS)] = rng.randint(1, max_x0)
    pv = {p: rng.choice(PARAM_VALUES) for p in meta["params"]}
    tot = total_rate(spec, meta, x0, pv)
    k = 0
    while tot is not None and tot > 50 and k < 8:
        pv = {p: v / 2 for p, v in pv.items()}
        tot = total_rate(spec, meta, x0, pv)
        k += 1
    if tot is None:
        return None
    if limits:
        set_limits(rng, spec, meta, x0)
    return {"spec": spec, "meta": meta, "x0": x0, "params": pv, "tot0": tot, "has_ode": bool(meta["odes"])}


def set_limits(rng, spec, meta, x0):
    """lower / upper / two-sided / absent / default limits per declared entry, compatible with x0.
    A state without a lower limit is only allowed when no rate depends on it (rates stay >= 0)."""
    names = [n for n, _ in declared_entries(spec)]
    in_rates = set()
    for p in meta["procs"]:
        in_rates |= E.free_vars(p["rate"])
    for o in meta["odes"]:
        in_rates |= E.free_vars(o["expr"])
    idx = {s: i for i, s in enumerate(meta["states"])}
    lims = []
    for n in names:
        sts = gen.expand_decl([n])
        vals = [x0[idx[s]] for s in sts]
        lo_free = not any(s in in_rates for s in sts)
        hi = max(vals) + rng.choice([0, 1, 2, 3, 5, 8, 20])
        kind = rng.choice(["default", "zero", "upper", "two", "two", "none", "lower1"])
        if kind == "default":
            lims.append(None)
        elif kind == "zero":
            lims.append((0, None))
        elif kind == "upper":
            lims.append((None, hi) if lo_free else (0, hi))
        elif kind == "two":
            lims.append((0, hi))
        elif kind == "none":
            lims.append((None, None) if lo_free else (0, None))
        else:
            lims.append((1, None) if min(vals) >= 1 else (0, None))
    spec["state"] = {"list": [[n, list(l)] if l is not None else n for n, l in zip(names, lims)]}


def sim_settings(rng, base, mode, *, big_tau=False, steps=None):
    """horizon / tau / epsilon / numpy seed for one run of a generated model (`steps`: choices of expected event counts)"""
    tot = max(base["tot0"], 1e-3)
    steps = rng.choice(list(steps or [20, 40, 80, 150]))
    t0 = rng.choice([0.0, 0.0, 1.0, 2.5])
    T = t0 + min(20.0 * max(1.0, steps / 150.0), steps / tot)
    s = {"mode": mode, "t0": t0, "T": float(T), "np_seed": rng.randrange(2 ** 31), "epsilon": None, "pre_tau": None}
    if mode == "tau_fixed":
        mean_events = rng.choice([2, 5, 10]) if big_tau else rng.choice([0.3, 1, 2])
        s["pre_tau"] = float(min(mean_events / tot, T - t0))
    if mode != "exact" and rng.random() < 0.5:
        s["epsilon"] = rng.choice([0.01, 0.03, 0.1, 0.3])
    return s


# ----------------------------------------------------------------------------- input FORMS (the value is the same, the object differs)
# initial state: what the caller hands to `initial_values` / `initial_state`
X0_FORMS = ("arr_int", "arr_f64", "list_int", "list_float", "tuple_int", "tuple_float", "arr_i32", "scalar")
NARROW_INT_FORMS = ("arr_i32",)
# initial time.  The unchanged pygom needs a numpy scalar (`self._t0.tolist()` in `_jump`): the two Python forms are rejected there
# with AttributeError, which is tagged and not judged; a tree that accepts them must give right answers.
T0_FORMS = ("np_f64", "np_i64", "np_f32", "py_float", "py_int")
SCALAR_TIME_KINDS = ("float", "int", "np_f64", "np_i64", "list1", "list1_int", "tuple1")
GRID_KINDS = ("list", "tuple", "array", "list_int", "tuple_int", "array_int")
# boolean options of solve_stochast (`exact`, `full_output`): the same truth value as a Python bool, as 1 / 0, or as the numpy.bool_
# a comparison of arrays gives (`exact = x0.sum() <= 1000`).  The unchanged pygom tests truthiness everywhere, so every form is accepted
# and must give the answer of the literal True / False.
FLAG_FORMS = ("bool", "int", "np_bool")


def flag_obj(value, form):
    """the object handed over for a boolean option with truth value `value`"""
    value = bool(value)
    return {"bool": lambda: value, "int": lambda: int(value), "np_bool": lambda: np.bool_(value)}[form or "bool"]()


def add_flag_forms(r, ops, *, share=0.5, full_output_false=0.0):
    """vary the FORM of the boolean options of the `run` ops of a session (in place; every choice from `r`): `exact` / `full_output`
    as 1 / 0 or numpy.bool_ instead of the literal, and (share `full_output_false`) full_output switched off - the call then returns
    the list of state arrays only.  A repeated call (`repeat_of`) draws its own form: the result may depend on the truth value only."""
    for op in ops:
        if op.get("op") != "run":
            continue
        if r.random() < share:
            op["exact_form"] = r.choice(["int", "np_bool"])
        if r.random() < share:
            op["full_output_form"] = r.choice(["int", "np_bool"])
        if r.random() < full_output_false:
            op["full_output"] = False
        if op.get("repeat_of") is not None:
            # a repeated call is compared array by array with the first one: it returns the same pieces (the FORMS are its own)
            op.pop("full_output", None)
            if not ops[op["repeat_of"]].get("full_output", True):
                op["full_output"] = False
    return ops


def make_x0(values, form):
    """the object handed to pygom for the initial state `values` (a list of Python ints kept by the harness)"""
    vals = [int(v) for v in values]
    if form == "scalar" and len(vals) == 1:
        return vals[0]
    return {"arr_int": lambda: np.array(vals), "arr_f64": lambda: np.array(vals, dtype=np.float64),
            "list_int": lambda: list(vals), "list_float": lambda: [float(v) for v in vals],
            "tuple_int": lambda: tuple(vals), "tuple_float": lambda: tuple(float(v) for v in vals),
            "arr_i32": lambda: np.array(vals, dtype=np.int32), "scalar": lambda: np.array(vals)}[form or "arr_int"]()


def make_t0(t0, form):
    integral = float(t0) == int(t0)
    form = form or "np_f64"
    if form == "np_i64" and integral:
        return np.int64(int(t0))
    if form == "py_int" and integral:
        return int(t0)
    if form in ("py_float", "py_int"):
        return float(t0)
    if form == "np_f32" and float(np.float32(t0)) == float(t0):
        return np.float32(t0)
    return np.float64(t0)


def time_spec(sim):
    """{"kind", "values"} of a run; also reads the older fields (horizon_kind | grid + grid_kind) of stored cases"""
    if sim.get("time"):
        return sim["time"]
    if sim.get("grid"):
        return {"kind": sim.get("grid_kind", "list"), "values": list(sim["grid"])}
    return {"kind": sim.get("horizon_kind", "float"), "values": [sim["T"]]}


def time_obj(ts):
    """the object handed to solve_stochast"""
    k, v = ts["kind"], ts["values"]
    if k in SCALAR_TIME_KINDS:
        T = v[0]
        return {"float": lambda: float(T), "int": lambda: int(T), "np_f64": lambda: np.float64(T), "np_i64": lambda: np.int64(int(T)),
                "list1": lambda: [float(T)], "list1_int": lambda: [int(T)], "tuple1": lambda: (float(T),)}[k]()
    return {"list": lambda: [float(g) for g in v], "tuple": lambda: tuple(float(g) for g in v), "array": lambda: np.array(v, float),
            "list_int": lambda: [int(g) for g in v], "tuple_int": lambda: tuple(int(g) for g in v),
            "array_int": lambda: np.array([int(g) for g in v])}[k]()


def time_is_grid(ts):
    """a one-element list / tuple is a horizon, a one-element ARRAY is a one-point grid (normalisation of solve_stochast)"""
    return ts["kind"] in GRID_KINDS and (len(ts["values"]) > 1 or ts["kind"].startswith("array"))


def lean_time_kind(ts):
    k = ts["kind"]
    return "number" if k in ("float", "int", "np_f64", "np_i64") else k.split("_")[0].replace("list1", "list").replace("tuple1", "tuple")


def gen_scalar_time(r, T, kinds=SCALAR_TIME_KINDS):
    k = r.choice(list(kinds))
    if k in ("int", "np_i64", "list1_int"):
        T = float(max(1, int(np.ceil(T))))
    return {"kind": k, "values": [float(T)]}


def gen_grid_time(r, t0, T, *, max_points=8, after_t0=0.1, past=(0.5, 1, 1, 3)):
    """a grid of output times from t0 (or, with probability `after_t0`, from later) to t0 + (T-t0)*factor, float or integer valued"""
    span = (T - t0) * r.choice(list(past))
    n = r.randint(2, max_points)
    k = r.choice(list(GRID_KINDS))
    if k.endswith("_int"):
        lo = int(np.ceil(t0)); hi = max(lo + 1, int(np.ceil(t0 + span)))
        pts = sorted(set([lo, hi] + [r.randint(lo, hi) for _ in range(n - 2)]))
        g = [float(v) for v in pts]
    elif r.random() < 0.5:
        g = [t0 + span * i / (n - 1) for i in range(n)]
    else:
        g = sorted(set([t0, t0 + span] + [t0 + span * r.random() for _ in range(n - 2)]))
    if len(g) >= 3 and r.random() < after_t0:
        g = g[1:]
    return {"kind": k, "values": [float(v) for v in g]}


def build_model(case):
    """the real model of a case, configured as `case["sim"]` says; the objects handed over for the initial state and time are kept
    on the instance (`_verif_x0_arg`, `_verif_t0_arg`) so that the caller can check afterwards that they were not written to"""
    sim = case["sim"]
    model = pymodel.build(case["spec"], backend="lambda")
    model.parameters = {k: float(v) for k, v in case["params"].items()}
    x0_arg = make_x0(case["x0"], sim.get("x0_form"))
    t0_arg = make_t0(sim["t0"], sim.get("t0_form"))
    model.initial_values = (x0_arg, t0_arg)
    model._verif_x0_arg, model._verif_t0_arg = x0_arg, t0_arg
    if sim.get("epsilon") is not None:
        model._epsilon = sim["epsilon"]
    if sim.get("pre_tau") is not None:
        model.pre_tau = sim["pre_tau"]
    return model


PARAM_FORMS = ("dict", "list", "array", "tuples", "two_dicts")


def assign_params(model, params, form):
    """plain numbers for ALL parameters handed to `model.parameters` in one of the accepted forms (dict / list or array in
    param_list order / list of (name, value) pairs / two partial dicts one after the other); returns the form used"""
    names = [str(p) for p in model.param_list]
    if form in ("list", "array", "tuples") and not (all(nm in params for nm in names) and len(names) == len(params)):
        form = "dict"
    if form == "list":
        model.parameters = [float(params[nm]) for nm in names]
    elif form == "array":
        model.parameters = np.array([float(params[nm]) for nm in names])
    elif form == "tuples":
        model.parameters = [(nm, float(params[nm])) for nm in names]
    elif form == "two_dicts" and len(params) > 1:
        ks = list(params)
        model.parameters = {k: float(params[k]) for k in ks[:len(ks) // 2]}
        model.parameters = {k: float(params[k]) for k in ks[len(ks) // 2:]}
    else:
        form = "dict"
        model.parameters = {k: float(v) for k, v in params.items()}
    return form


# ----------------------------------------------------------------------------- tracing the real run
EVALUATORS = ["eventRateVector", "vMat", "transitionMean", "transitionVar", "pureOdeVector"]


class Trace:
    def __init__(self):
        self.log = []          # ("fn", name, x, t, value) | ("expo", scale, value) | ("pois", mean, value)
        self.jumps = []        # per _jump call: dict(finalT, exact, X, J, T, dT)
        self.truncated = False
        self.stdout = ""
        self.error = None      # exception raised by solve_stochast
        self.result = None     # what solve_stochast returned


def traced_run(model, time_arg, exact, np_seed, iterations=1, max_steps=MAX_STEPS, exact_arg=None, full_output_arg=None):
    """run the real solve_stochast(time_arg, iterations, exact=, full_output=True) under observation.  `exact_arg` / `full_output_arg`:
    the OBJECTS handed over for the two options when they are not the literals `exact` / True (see `flag_obj`)"""
    from pygom.model._model_errors import SimulationError
    tr = Trace()
    saved = {}
    n_iter = [0]

    first_eval = "vMat" if exact else "pureOdeVector"   # the first evaluator call of a loop iteration

    def wrap(name, f):
        def w(state, t):
            if name == first_eval:
                n_iter[0] += 1
                if n_iter[0] > max_steps:
                    tr.truncated = True
                    raise SimulationError("harness: step cap reached")   # _jump catches it and returns the path so far
            v = f(state, t)
            if name == "eventRateVector" and float(np.sum(np.abs(v))) > RATE_CAP:
                # the generated model left the bounded-rate domain of the properties (explosive births): end the path here
                tr.truncated = True
                raise SimulationError("harness: rate cap reached")
            tr.log.append(("fn", name, np.array(state, float).copy(), float(t), np.array(v, float).copy()))
            return v
        return w

    orig_exp, orig_pois = np.random.exponential, np.random.poisson

    def rec_exp(scale=1.0, size=None):
        v = orig_exp(scale=scale, size=size)
        tr.log.append(("expo", float(scale), float(np.asarray(v).ravel()[0])))
        return v

    def rec_pois(lam=1.0, size=None):
        v = orig_pois(lam, size=size)
        tr.log.append(("pois", float(lam), int(np.asarray(v).ravel()[0])))
        return v

    orig_jump = model._jump

    def rec_jump(finalT, exact=False, full_output=True, seed=None):
        n_iter[0] = 0
        start = len(tr.log)
        out = orig_jump(finalT, exact=exact, full_output=full_output, seed=seed)
        tr.jumps.append({"finalT": float(np.asarray(finalT).ravel()[-1]), "exact": bool(exact), "log": (start, len(tr.log)),
                         "X": np.array(out[0], float), "J": np.array(out[1]), "T": np.array(out[2], float),
                         "dT": np.array(out[3], float), "truncated": tr.truncated})
        tr.truncated = False
        return out

    buf = io.StringIO()
    try:
        for name in EVALUATORS:
            saved[name] = getattr(model, name)
            setattr(model, name, wrap(name, saved[name]))
        model._jump = rec_jump
        np.random.exponential, np.random.poisson = rec_exp, rec_pois
        np.random.seed(np_seed)
        with contextlib.redirect_stdout(buf):
            try:
                tr.result = model.solve_stochast(time_arg, iterations, exact=exact if exact_arg is None else exact_arg,
                                                 full_output=True if full_output_arg is None else full_output_arg)
            except Exception as exc:  # recorded, judged by the caller
                tr.error = exc
    finally:
        np.random.exponential, np.random.poisson = orig_exp, orig_pois
        for name, f in saved.items():
            setattr(model, name, f)
        try:
            del model._jump
        except AttributeError:
            pass
    tr.stdout = buf.getvalue()
    tr.evaluators = saved
    return tr


def unbounded_adaptive_tau(tr, sim):
    """True when solve_stochast raised numpy's `lam value too large` out of an ADAPTIVE tau-leap whose step size,
    computed from the last recorded rate-change statistics by the coded formula (min over the non-zero entries of
    eps*sum(rates)/|mu| and (eps*sum(rates))^2/sigma2), exceeds 1e15: every propensity's expected change is negligible
    but not exactly zero (e.g. exp(-gamma*E) for large E), so tau is astronomically large and rate*tau overflows the
    Poisson sampler.  Recorded defect `C04-unbounded-adaptive-tau`; anything else raising is judged as before."""
    if tr.error is None or not isinstance(tr.error, ValueError) or "lam value too large" not in str(tr.error):
        return False
    if sim.get("mode") != "tau_adaptive" and not (sim.get("mode", "").startswith("tau") and sim.get("pre_tau") is None):
        return False
    rates = mu = s2 = None
    for e in reversed(tr.log):
        if e[0] != "fn":
            continue
        if e[1] == "transitionVar" and s2 is None:
            s2 = np.asarray(e[4], float).ravel()
        elif e[1] == "transitionMean" and mu is None:
            mu = np.asarray(e[4], float).ravel()
        elif e[1] == "eventRateVector" and rates is None:
            rates = np.asarray(e[4], float).ravel()
        if rates is not None and mu is not None and s2 is not None:
            break
    if rates is None or mu is None or s2 is None:
        return False
    bound = float(sim.get("epsilon") or 0.03) * float(np.sum(rates))
    cands = [bound / abs(m) for m in mu if m != 0] + [bound * bound / v for v in s2 if v != 0]
    return bool(cands) and min(cands) > 1e15


def coded_adaptive_tau(rates, mu, s2, eps):
    """the step size of `_get_adaptive_tau_step` recomputed in float64 by the coded formula from recorded statistics
    (min over the non-zero entries of eps*sum(rates)/|mu| and (eps*sum(rates))**2/sigma2); None when it cannot be formed"""
    rates = np.asarray(rates, float).ravel(); mu = np.asarray(mu, float).ravel(); s2 = np.asarray(s2, float).ravel()
    mu = mu[mu != 0]; s2 = s2[s2 != 0]
    if mu.size == 0 and s2.size == 0:
        return 1.0
    bound = float(eps if eps is not None else 0.03) * float(np.sum(rates))
    with np.errstate(all="ignore"):
        cands = ([float(np.min(bound / np.abs(mu)))] if mu.size else []) + ([float(np.min((bound ** 2) / s2))] if s2.size else [])
    return min(cands) if cands else None


def tau_underflowed(it, eps):
    """True for a tau-leap iteration of an adaptive run whose coded step size is exactly 0.0 in float64 although every quantity it
    is formed from is positive: (eps*sum(rates))**2 (or the quotient) underflowed.  In exact arithmetic the step is positive."""
    if it.get("retry") or "mu" not in it or "sigma2" not in it:
        return False
    rates = np.asarray(it["rates"], float).ravel()
    if not (np.all(rates >= 0) and float(np.sum(rates)) > 0):
        return False
    return coded_adaptive_tau(rates, it["mu"], it["sigma2"], eps) == 0.0


def narrow_int_overflow(tr, x0, t0):
    """True when an evaluator, called at the initial state during the run, returned something else than it returns for the same
    state as float64: the state vector was handed over in a narrow integer dtype (int32) and a product overflowed.  Used only to
    NAME the cause of an exception (signature); the exception itself is what is judged."""
    x0f = np.array(x0, float)
    for e in tr.log:
        if e[0] != "fn" or not np.array_equal(e[2], x0f) or e[1] not in tr.evaluators:
            continue
        try:
            ref = np.asarray(tr.evaluators[e[1]](x0f, e[3]), float)
        except Exception:
            continue
        if ref.shape == np.asarray(e[4]).shape and not np.allclose(ref, e[4], rtol=1e-9, atol=1e-12):
            return True
    return False


def segment(log, exact):
    """cut a recorded stream into loop iterations.
    iteration = {"x","t","rates","V","pure","mu","sigma2","pois":[(mean,val)],"expo":[(scale,val)],"retry":bool,
                 "retry_rates","retry_V", "complete":bool}"""
    its = []
    i, n = 0, len(log)

    def fn(k, name):
        return k < n and log[k][0] == "fn" and log[k][1] == name

    def first_part(it, k, key_prefix=""):
        # vMat, eventRateVector, expo*
        if not fn(k, "vMat"):
            return k, False
        it[key_prefix + "V"] = log[k][4]; it.setdefault("x", log[k][2]); it.setdefault("t", log[k][3])
        it.setdefault("args", []).append((log[k][2], log[k][3]))
        k += 1
        if not fn(k, "eventRateVector"):
            return k, False
        it[key_prefix + "rates"] = log[k][4]
        it["args"].append((log[k][2], log[k][3]))
        k += 1
        ex = []
        while k < n and log[k][0] == "expo":
            ex.append((log[k][1], log[k][2])); k += 1
        it["expo"] = ex
        return k, True

    while i < n:
        it = {"pois": [], "expo": [], "retry": False, "complete": False}
        if exact:
            i2, ok = first_part(it, i)
            if not ok:
                it["bad_at"] = i
                its.append(it)
                break
            it["complete"] = True
            i = i2
        else:
            if not fn(i, "pureOdeVector"):
                it["bad_at"] = i; its.append(it); break
            it["pure"] = log[i][4]; it["x"] = log[i][2]; it["t"] = log[i][3]; it["args"] = [(log[i][2], log[i][3])]
            i += 1
            if not fn(i, "vMat"):
                it["bad_at"] = i; its.append(it); break
            it["V"] = log[i][4]; it["args"].append((log[i][2], log[i][3])); i += 1
            if not fn(i, "eventRateVector"):
                it["bad_at"] = i; its.append(it); break
            it["rates"] = log[i][4]; it["args"].append((log[i][2], log[i][3])); i += 1
            if fn(i, "transitionMean"):
                it["mu"] = log[i][4]; it["args"].append((log[i][2], log[i][3])); i += 1
                if not fn(i, "transitionVar"):
                    it["bad_at"] = i; its.append(it); break
                it["sigma2"] = log[i][4]; it["args"].append((log[i][2], log[i][3])); i += 1
            while i < n and log[i][0] == "pois":
                it["pois"].append((log[i][1], log[i][2])); i += 1
            if fn(i, "vMat"):
                it["retry"] = True
                i2, ok = first_part(it, i, "retry_")
                if not ok:
                    it["bad_at"] = i; its.append(it); break
                i = i2
            it["complete"] = True
        its.append(it)
    return its


# ----------------------------------------------------------------------------- model <-> code, per step
def lean_lims(spec):
    r = leanio.driver().call({"op": "state_lims", "state": spec["state"], "legacy": LEGACY_STATE_LIMS})
    return r


def vcols(V, nS, nE):
    V = np.asarray(V, float).reshape(nS, nE)
    return [[q(V[i, j]) for i in range(nS)] for j in range(nE)]


def tie_steps(model, case, jr, its, lims_json, mism, tags, max_report=3):
    """compare every iteration of one _jump call with the Lean model. returns per-run statistics"""
    drv = leanio.driver()
    exact = jr["exact"]
    X, J, T, dT = jr["X"], jr["J"], jr["T"], jr["dT"]
    nS = X.shape[1]
    nrec = len(T) - 1
    stats = {"accepted": nrec, "rejected_tau": 0, "retries_ok": 0, "stop": None, "iters": len(its)}

    def mm(what, detail):
        if len(mism) < max_report:
            mism.append({"what": what, "detail": detail})
        else:
            mism.append({"what": what, "detail": ""})

    complete = [it for it in its if it.get("complete")]
    if len(complete) != len(its):
        if not jr["truncated"] or len(its) - len(complete) > 1:
            mm("trace:unparsed", "iteration %d of %d does not have the expected call pattern (log index %s)" % (len(complete), len(its), its[len(complete)].get("bad_at")))
            return stats
    its = complete
    if len(its) not in (nrec, nrec + 1):
        mm("trace:iteration-count", "%d iterations recorded for %d appended records" % (len(its), nrec))
        return stats
    react = np.asarray(model._lambdaMat, int) if getattr(model, "_lambdaMat", None) is not None else None
    eps = getattr(model, "_epsilon", 0.03)
    pre_tau = getattr(model, "pre_tau", None)
    for k, it in enumerate(its):
        appended = k < nrec
        near = False
        x, t = it["x"], it["t"]
        # observed pre-state is the last recorded state (direct consistency, no Lean)
        if not (np.array_equal(x, X[k]) and t == T[k]):
            mm("trace:pre-state", "iteration %d evaluates at x=%s t=%r but the path is at x=%s t=%r" % (k, x.tolist(), t, X[k].tolist(), T[k]))
            break
        if any(not (np.array_equal(a, x) and b == t) for a, b in it["args"]):
            mm("trace:args", "iteration %d: evaluators called at different (x,t) within one iteration" % k)
            break
        rates = np.asarray(it["rates"], float).ravel()
        nE = len(rates)
        if not np.all(np.isfinite(rates)):
            tags.append("nonfinite_rate"); break
        req = {"op": "step_exact" if exact else "step_tau", "x": qs(x), "t": q(t), "lims": lims_json,
               "rates": qs(rates), "vcols": vcols(it["V"], nS, nE),
               "expo": [q(v) for _, v in it["expo"]]}
        if not exact:
            req.update({"pure": qs(it["pure"]), "mu": qs(it["mu"]) if "mu" in it else None,
                        "sigma2": qs(it["sigma2"]) if "sigma2" in it else None,
                        "react": [[int(react[i, j]) for i in range(nS)] for j in range(nE)] if react is not None else None,
                        "epsilon": q(eps), "pre_tau": q(pre_tau) if pre_tau is not None else None,
                        "pois": [int(v) for _, v in it["pois"]]})
            if it["retry"] and not (np.array_equal(it["retry_V"], it["V"]) and np.array_equal(it["retry_rates"], it["rates"])):
                mm("trace:retry-values", "iteration %d: retry re-evaluated vMat/rates to different values at the same (x,t)" % k)
        r = drv.call(req)
        where = "iteration %d (x=%s t=%r rates=%s)" % (k, x.tolist(), t, rates.tolist())
        # draws requested: scale = 1/rate for each positive rate in order ; poisson mean = tau * rate
        pos = [float(v) for v in rates if v > 0]
        if exact or it["retry"]:
            if [s for s, _ in it["expo"]] != [1.0 / v for v in pos]:
                mm("draws:expo-scales", "%s: scales %s, expected 1/rate for positive rates %s" % (where, [s for s, _ in it["expo"]], pos))
            if r["n_expo"] != len(it["expo"]):
                mm("draws:expo-count", "%s: %d exponential draws, model consumes %d" % (where, len(it["expo"]), r["n_expo"]))
        elif it["expo"]:
            mm("draws:unexpected-expo", where)
        if not exact:
            all_zero = bool(np.all(rates == 0))
            if r["all_zero"] != all_zero:
                mm("all-zero", where)
            if all_zero:
                if it["pois"]:
                    mm("draws:pois-on-zero-rates", where)
            else:
                if len(it["pois"]) != nE:
                    mm("draws:pois-count", "%s: %d poisson draws for %d events" % (where, len(it["pois"]), nE))
                tau_m = Fraction(r["tau"]) if r.get("tau") is not None else None
                if tau_m is None:
                    mm("tau:not-safe", where)
                else:
                    if pre_tau is None and "mu" not in it:
                        mm("tau:no-mean-var-evaluated", where)
                    for (mean, _), rate in zip(it["pois"], rates):
                        if not close(mean, float(tau_m) * float(rate), rel=1e-11, abs_=1e-300):
                            mm("tau:poisson-mean", "%s: poisson mean %r, model tau*rate = %r (tau=%r)" % (where, mean, float(tau_m) * float(rate), float(tau_m)))
                            break
                ta = r["tau_attempt"]
                tau_ok_obs = not it["retry"]
                if ta["outcome"] == "checked":
                    if ta["success"] != tau_ok_obs and np.any(np.ravel(it["pure"])) and tau_m is not None:
                        # x + pure*tau is a rounded float in the code and an exact rational in the model: a proposal that
                        # lands on a limit to within rounding may be judged differently (not a disagreement of algorithms)
                        prop = x + np.asarray(it["V"], float).reshape(nS, nE).dot(np.array([v for _, v in it["pois"]], float)) \
                            + np.ravel(it["pure"]) * float(tau_m)
                        for (lo, hi), pv in zip(lims_json, prop):
                            for b in (lo, hi):
                                if b is not None and abs(pv - b) <= 1e-9 * max(1.0, abs(b)):
                                    near = True
                        if near:
                            tags.append("float_boundary_tie_skipped")
                    if ta["success"] != tau_ok_obs and not near:
                        mm("tau:accept/reject", "%s: model tau-leap success=%s new_x=%s, code %s" % (where, ta["success"], [float(Fraction(v)) for v in ta["x"]], "accepted" if tau_ok_obs else "retried by first reaction"))
                    if not ta["success"]:
                        stats["rejected_tau"] += 1
                elif tau_ok_obs and not all_zero:
                    mm("tau:outcome", "%s: model %s" % (where, ta["outcome"]))
        # outcome of the iteration
        if near:
            continue
        if appended:
            if r["out"] != "next":
                mm("step:stop-vs-append", "%s: model stops (%s), code appended x=%s" % (where, r.get("why"), X[k + 1].tolist()))
                break
            # integer arithmetic is exact in doubles; with an explicit ODE term (x + pure*tau) the float is only close
            # (beyond 2^53 a double no longer holds every integer: a leap of ~1e17 events - the adaptive step of the known
            # finding C04-unbounded-adaptive-tau just below numpy's Poisson limit - is compared to rounding, not exactly)
            integral = bool(np.all(np.mod(X[k + 1], 1) == 0) and np.all(np.mod(x, 1) == 0)
                            and not np.any(np.ravel(it.get("pure", 0.0)))
                            and max(float(np.abs(X[k + 1]).max()), float(np.abs(x).max())) < 2.0 ** 53)
            if not same_vec(r["x"], X[k + 1], None if integral else 1e-9):
                mm("step:post-state", "%s: model x=%s code x=%s" % (where, [float(Fraction(v)) for v in r["x"]], X[k + 1].tolist()))
            if not close(Fraction(r["t"]), T[k + 1]):
                mm("step:time", "%s: model t=%r code t=%r" % (where, float(Fraction(r["t"])), T[k + 1]))
            if not close(Fraction(r["dt"]), dT[k]):
                if (not exact and pre_tau is None and not it["retry"]
                        and (float(eps) * float(np.sum(np.abs(rates)))) ** 2 < 1e-300):
                    # the coded formula squares eps*sum(rates): below ~1e-300 that intermediate is a denormal (a few significant
                    # bits) or underflows to 0.0, while the exact-rational model keeps a positive step (e.g. 5e-164) - the regime
                    # of the known findings C04-tau-below-ulp / C04-tau-underflows-to-zero; a float artefact, not a disagreement
                    # of algorithms
                    tags.append("tau_denormal_tie_skipped")
                else:
                    mm("step:dt", "%s: model dt=%r code dt=%r" % (where, float(Fraction(r["dt"])), dT[k]))
            if [int(c) for c in r["counts"]] != [int(c) for c in np.asarray(J[k]).ravel()]:
                mm("step:counts", "%s: model %s code %s" % (where, r["counts"], np.asarray(J[k]).ravel().tolist()))
            obs_branch = "exact" if exact else ("retry" if it["retry"] else "tau")
            if r["branch"] != obs_branch:
                mm("step:branch", "%s: model %s code %s" % (where, r["branch"], obs_branch))
            if obs_branch == "retry":
                stats["retries_ok"] += 1
        else:
            if r["out"] != "stop":
                mm("step:append-vs-stop", "%s: model appends x=%s, code left the loop" % (where, [float(Fraction(v)) for v in r["x"]]))
            else:
                stats["stop"] = r["why"]
                obs = "zero_rates" if bool(np.all(rates == 0)) else "rejected"
                if r["why"] != obs:
                    mm("step:stop-reason", "%s: model %s, code %s" % (where, r["why"], obs))
    else:
        # loop condition
        if len(its) == nrec and not jr["truncated"] and not (T[-1] >= jr["finalT"]):
            mm("loop:left-before-horizon", "last time %r < finalT %r with no break recorded" % (T[-1], jr["finalT"]))
        if len(its) == nrec + 1 and not (T[-1] < jr["finalT"]):
            mm("loop:iterated-past-horizon", "an iteration ran at t=%r >= finalT %r" % (T[-1], jr["finalT"]))
    return stats


# ----------------------------------------------------------------------------- sessions: several calls on ONE model instance
# The Lean model (Pygom/Stoch.lean `jump`, `gridRows`, Pygom/Seed.lean `runMany`) makes one path a pure function of
# (configuration in force at the call, x0, t0, horizon, draws): nothing a previous call, a previous configuration, another
# instance or the FORM of an argument did can enter (Props/C04 `path_start`, `runMany_all_start`, `exact_ignores_tau_config`).
# The sessions below probe exactly that on the real code: calls are made one after the other on one instance, with
# configuration left over from earlier calls, initial values re-assigned in other forms, a sibling instance simulated in
# between; every returned object is KEPT and compared again at the end; a fresh instance must reproduce a call's result.
class Call:
    """one `solve_stochast` call of a session: .index .op .sim (effective settings) .case (case with the x0 / sim in force)
    .tr (Trace) .ts (time spec) .tobj (object handed over) .is_grid .grid (floats) .exact .x0 .kept .snap"""


def default_session(case):
    sim = case["sim"]
    op = {"op": "run", "exact": sim["mode"] == "exact", "time": time_spec(sim), "iterations": 2, "np_seed": sim["np_seed"]}
    for k in ("exact_form", "full_output_form", "full_output"):
        if sim.get(k) is not None:
            op[k] = sim[k]
    return [op]


def _same_obj(a, b):
    if isinstance(a, np.ndarray) or isinstance(b, np.ndarray):
        return isinstance(a, np.ndarray) and isinstance(b, np.ndarray) and a.dtype == b.dtype and a.shape == b.shape and np.array_equal(a, b)
    return type(a) is type(b) and a == b


def _flatten_result(res):
    """the arrays of what solve_stochast returned, in a fixed order (the objects themselves, not copies)"""
    out = []
    if res is None:
        return out
    for part in res:
        if isinstance(part, np.ndarray):
            out.append(part)
        else:
            out.extend(list(part))
    return out


def _same_result(a, b):
    fa, fb = _flatten_result(a), _flatten_result(b)
    if len(fa) != len(fb):
        return False, "different number of arrays"
    for k, (u, v) in enumerate(zip(fa, fb)):
        u, v = np.asarray(u), np.asarray(v)
        if u.shape != v.shape:
            return False, "array %d: shapes %s and %s" % (k, u.shape, v.shape)
        if not np.array_equal(u, v):
            w = np.argwhere(np.asarray(u != v)).tolist()[:1]
            return False, "array %d differs at %s: %s vs %s" % (k, w, u.ravel()[:6].tolist(), v.ravel()[:6].tolist())
    return True, ""


def _configure(model, cfg):
    model.pre_tau = cfg["pre_tau"]
    model._epsilon = cfg["epsilon"] if cfg["epsilon"] is not None else 0.03


def run_sibling(op, default_case):
    """another live instance (same definition with other values, or another definition with overlapping names) is configured
    and simulated; nothing of it is judged - the instance under test must not notice"""
    c = dict(op.get("case") or default_case)
    c["x0"] = op.get("x0", c["x0"]); c["params"] = op.get("params", c["params"])
    c["sim"] = {"t0": op.get("t0", 0.0), "pre_tau": op.get("pre_tau"), "epsilon": op.get("epsilon"), "x0_form": op.get("x0_form"),
                "t0_form": None}
    try:
        m = build_model(c)
        traced_run(m, time_obj(op["time"]), bool(op.get("exact")), op.get("np_seed", 0), iterations=1, max_steps=60)
    except Exception:
        pass


def run_session(case, judge, prop, tags, mism, viol, max_steps=MAX_STEPS):
    """run the ops of `case["session"]` (default: one call described by case["sim"]) on one instance.
    `judge(call, model) -> bool` is the property's own tie + direct oracle for one call (False ends the session).
    Direct oracle of this function (no Lean): an array returned by an earlier call is unchanged by later operations (VIOLATION:
    a result the caller holds turned wrong).  Probes of what the pure Lean model excludes but the properties do not state
    (tag + broken correspondence `pure-model:...`, never a violation): the caller's objects and model.initial_state/time are
    unchanged, a repeated call reproduces the earlier one, a fresh instance reproduces a call.  Wrong VALUES that follow from
    such a side effect are reported by the property's own oracle in `judge` (which compares with the harness's own copies)."""
    import copy
    sim0 = case["sim"]
    ops = case.get("session") or default_session(case)
    model = build_model(case)
    cur = {"x0": [int(v) for v in case["x0"]], "t0": float(sim0["t0"]), "pre_tau": sim0.get("pre_tau"), "epsilon": sim0.get("epsilon"),
           "x0_form": sim0.get("x0_form") or "arr_int", "t0_form": sim0.get("t0_form") or "np_f64", "params": dict(case["params"])}
    handed = [("initial state (%s)" % cur["x0_form"], model._verif_x0_arg, copy.deepcopy(model._verif_x0_arg))]
    calls = []
    sigmode = lambda c: c.sim["mode"].split("_")[0]
    tags.append("x0_form:" + cur["x0_form"]); tags.append("t0_form:" + cur["t0_form"])
    if len([o for o in ops if o["op"] == "run"]) > 1:
        tags.append("session")

    def v(what, kind, detail, call=None):
        viol.append({"what": what, "signature": "%s:%s%s" % (prop, kind, (":" + sigmode(call)) if call is not None else ""), "detail": detail})

    reported = set()

    def side(what, kind, detail, call=None):
        """something the PURE Lean model excludes (a path is a function of configuration, x0, t0, draws; nothing is written to)
        but the property does not state: a tag and a broken correspondence, never a violation.  If wrong VALUES follow (a later
        path starting elsewhere, a kept array overwritten) the property's own oracle reports those."""
        tags.append("side_effect:" + kind)
        if kind not in reported:
            reported.add(kind)
            mism.append({"what": "pure-model:" + kind, "detail": what + ": " + detail})

    def check_handed(when, call=None):
        ok = True
        for h in list(handed):
            label, obj, snap = h
            if not _same_obj(obj, snap):
                side("an object the caller passed in was written to", "caller-argument-modified",
                     "%s: %s now reads %s, was %s" % (when, label, np.asarray(obj).tolist(), np.asarray(snap).tolist()), call)
                handed.remove(h)
        try:
            mx = np.asarray(model.initial_state, float).ravel()
            mt = float(model.initial_time)
        except Exception as exc:
            mx, mt = None, None
        if mx is None or not (np.array_equal(mx, np.array(cur["x0"], float)) and mt == cur["t0"]):
            side("the initial state / time held by the model is no longer the one that was assigned", "initial-values-modified",
                 "%s: model.initial_state=%s initial_time=%r, assigned %s at t0=%r (form %s)"
                 % (when, None if mx is None else mx.tolist(), mt, cur["x0"], cur["t0"], cur["x0_form"]), call)
        return ok

    for i, op in enumerate(ops):
        kind = op["op"]
        if kind == "set_pre_tau":
            model.pre_tau = op["value"]; cur["pre_tau"] = op["value"]
            tags.append("op:set_pre_tau" if op["value"] is not None else "op:clear_pre_tau")
        elif kind == "set_epsilon":
            model._epsilon = op["value"]; cur["epsilon"] = op["value"]
            tags.append("op:set_epsilon")
        elif kind == "set_iv":
            x0_arg = make_x0(op["x0"], op.get("x0_form")); t0_arg = make_t0(op["t0"], op.get("t0_form"))
            if op.get("via") == "separate":
                model.initial_state = x0_arg; model.initial_time = t0_arg
            else:
                model.initial_values = (x0_arg, t0_arg)
            changed = [int(a) for a in op["x0"]] != cur["x0"] or float(op["t0"]) != cur["t0"]
            cur.update({"x0": [int(a) for a in op["x0"]], "t0": float(op["t0"]), "x0_form": op.get("x0_form") or "arr_int",
                        "t0_form": op.get("t0_form") or "np_f64"})
            handed.append(("initial state (%s, op %d)" % (cur["x0_form"], i), x0_arg, copy.deepcopy(x0_arg)))
            tags.append("op:set_iv:" + ("other_values" if changed else "same_values"))
            tags.append("x0_form:" + cur["x0_form"]); tags.append("t0_form:" + cur["t0_form"])
        elif kind == "set_params":
            model.parameters = {k: float(v) for k, v in op["params"].items()}
            cur["params"] = dict(op["params"])
            tags.append("op:set_params")
        elif kind == "deepcopy":
            # the calls that follow go to a deep copy of the configured instance: it carries the same configuration and
            # initial values, and must not share anything writable with the original (whose returned arrays are still kept)
            model = copy.deepcopy(model)
            tags.append("op:deepcopy")
        elif kind == "sibling":
            run_sibling(op, case)
            tags.append("op:sibling:" + ("other_definition" if op.get("case") else "same_definition"))
        elif kind == "run":
            c = Call()
            c.index, c.op, c.exact, c.ts = i, op, bool(op["exact"]), op["time"]
            c.is_grid = time_is_grid(c.ts)
            c.grid = [float(g) for g in c.ts["values"]] if c.is_grid else None
            mode = "exact" if c.exact else ("tau_adaptive" if cur["pre_tau"] is None else "tau_fixed")
            c.sim = {"mode": mode, "t0": cur["t0"], "T": float(c.ts["values"][-1]), "np_seed": op["np_seed"], "epsilon": cur["epsilon"],
                     "pre_tau": cur["pre_tau"], "time": c.ts, "grid": c.grid, "grid_kind": c.ts["kind"], "x0_form": cur["x0_form"],
                     "t0_form": cur["t0_form"], "iterations": op.get("iterations", 2)}
            c.x0 = list(cur["x0"])
            c.case = dict(case, x0=c.x0, sim=c.sim, params=dict(cur["params"]))
            c.leftover = c.exact and (cur["pre_tau"] is not None or cur["epsilon"] is not None)
            c.tobj = time_obj(c.ts)
            # the FORM of the boolean options (bool / 1, 0 / numpy.bool_); full_output=False returns the state arrays only
            c.full_output = bool(op.get("full_output", True))
            flags = {"exact_arg": flag_obj(c.exact, op["exact_form"]) if op.get("exact_form") else None,
                     "full_output_arg": flag_obj(c.full_output, op.get("full_output_form")) if (op.get("full_output_form") or not c.full_output) else None}
            if op.get("exact_form"): tags.append("exact_form:%s:%s" % (op["exact_form"], "exact" if c.exact else "tau"))
            if op.get("full_output_form"): tags.append("full_output_form:" + op["full_output_form"])
            if not c.full_output: tags.append("full_output:off")
            handed_t = ("time argument (%s, op %d)" % (c.ts["kind"], i), c.tobj, copy.deepcopy(c.tobj))
            tags.append("time:" + c.ts["kind"])
            if c.is_grid and c.grid[0] > cur["t0"]: tags.append("grid_starts_after_t0")
            if c.leftover: tags.append("exact_with_leftover_tau_config")
            if len(calls): tags.append("call>=2:" + mode.split("_")[0])
            c.tr = traced_run(model, c.tobj, c.exact, op["np_seed"], iterations=c.sim["iterations"], max_steps=max_steps, **flags)
            if (isinstance(c.tr.error, AttributeError) and "tolist" in str(c.tr.error) and cur["t0_form"] in ("py_float", "py_int")):
                # the unchanged pygom does not support a Python number as initial time in stochastic simulation
                tags.append("rejected_form:t0:" + cur["t0_form"])
                return calls
            go_on = judge(c, model)
            c.kept = _flatten_result(c.tr.result)
            c.snap = [np.array(a, copy=True) for a in c.kept]
            calls.append(c)
            handed.append(handed_t)
            ok = check_handed("after call %d (op %d, %s, %s)" % (len(calls), i, mode, c.ts["kind"]), c)
            if not go_on or not ok:
                break
            if op.get("repeat_of") is not None and c.tr.result is not None:
                first = [k for k in calls if k.index == op["repeat_of"]]
                if first and first[0].tr.result is not None:
                    same, why = _same_result(first[0].tr.result, c.tr.result)
                    tags.append("probe:repeat")
                    if not same:
                        side("a call repeated with the first call's configuration, initial values, horizon and seed does not reproduce it",
                             "history-dependent-path:repeat", "op %d vs op %d: %s" % (first[0].index, i, why), c)
            if op.get("fresh_ref") and c.tr.result is not None:
                fc = dict(case, x0=c.x0, sim=dict(c.sim), params=dict(cur["params"]))
                fm = build_model(fc)
                _configure(fm, cur)
                ftr = traced_run(fm, time_obj(c.ts), c.exact, op["np_seed"], iterations=c.sim["iterations"], max_steps=max_steps,
                                 full_output_arg=flags["full_output_arg"] if not c.full_output else None)
                tags.append("probe:fresh_reference")
                c.fresh_result = ftr.result        # kept for callers whose property states it (C16); nothing here reads it
                if ftr.result is not None:
                    same, why = _same_result(ftr.result, c.tr.result)
                    if not same:
                        side("a freshly built model with the same configuration, initial values, horizon and seed returns another path",
                             "history-dependent-path:fresh", "op %d (%s): %s" % (i, mode, why), c)
        else:
            raise ValueError("unknown session op %r" % kind)
    # every returned object, again, after everything that followed
    for c in calls:
        for k, (a, b) in enumerate(zip(c.kept, c.snap)):
            if not (np.asarray(a).shape == b.shape and np.array_equal(np.asarray(a), b)):
                v("an array returned by an earlier call was changed by later operations on the model", "returned-array-overwritten",
                  "call at op %d, array %d: returned %s, now %s" % (c.index, k, b.ravel()[:8].tolist(), np.asarray(a).ravel()[:8].tolist()), c)
                break
    return calls


def alt_x0(r, x0, lims=None):
    """another integer initial state for the same model (permuted, one component changed), inside the declared limits"""
    y = list(x0)
    r.shuffle(y)
    k = r.randrange(len(y))
    y[k] = max(0, y[k] + r.choice([1, 2, 5]))
    if y == list(x0):
        y[k] += 1
    if lims is not None and within(lims, y):
        return list(x0)
    return y


def gen_session(r, base, sim, *, lims=None, grid_share=0.35, exact_share=0.5, runs=(3, 5), sibling_base=None, x0_forms=X0_FORMS):
    """ops of one session for a generated model: every random choice from `r`, the result is plain JSON"""
    t0, T = float(sim["t0"]), float(sim["T"])
    tot = max(base["tot0"], 1e-3)
    nS = len(base["x0"])
    forms = [f for f in x0_forms if f != "scalar" or nS == 1]
    cfg = {"x0": list(base["x0"]), "t0": t0, "pre_tau": sim.get("pre_tau"), "epsilon": sim.get("epsilon"),
           "x0_form": sim.get("x0_form") or "arr_int", "t0_form": sim.get("t0_form") or "np_f64", "params": dict(base["params"])}
    ops, first = [], None

    def tau_value():
        return float(min(r.choice([0.3, 1, 2, 5]) / tot, T - t0))

    def set_iv(x0, t0v, x0_form=None, t0_form=None):
        op = {"op": "set_iv", "x0": list(x0), "t0": t0v, "x0_form": x0_form or r.choice(forms),
              "t0_form": t0_form or r.choice(["np_f64", "np_f64", "np_i64", "np_f32"]), "via": r.choice(["values", "values", "separate"])}
        ops.append(op)
        cfg.update({"x0": list(x0), "t0": t0v, "x0_form": op["x0_form"], "t0_form": op["t0_form"]})

    n = r.randint(*runs)
    for k in range(n):
        u = r.random()
        if u < 0.35:
            cfg["pre_tau"] = tau_value(); ops.append({"op": "set_pre_tau", "value": cfg["pre_tau"]})
        elif u < 0.5 and cfg["pre_tau"] is not None:
            cfg["pre_tau"] = None; ops.append({"op": "set_pre_tau", "value": None})
        if r.random() < 0.25:
            cfg["epsilon"] = r.choice([0.01, 0.03, 0.1, 0.3]); ops.append({"op": "set_epsilon", "value": cfg["epsilon"]})
        if k > 0 and r.random() < 0.4:
            if r.random() < 0.5:
                set_iv(cfg["x0"], cfg["t0"])                                      # same values, another object / form
            else:
                t_alt = cfg["t0"] + 1.0 if (r.random() < 0.4 and T - cfg["t0"] > 2.5) else cfg["t0"]
                set_iv(alt_x0(r, base["x0"], lims) if r.random() < 0.7 else base["x0"], t_alt)
        if k > 0 and r.random() < 0.2:
            # other parameter values (rates scale by at most 2: the horizon stays adequate), or the first ones again
            cfg["params"] = dict(base["params"]) if cfg["params"] != base["params"] else {p: float(v) * r.choice([0.5, 2.0]) for p, v in base["params"].items()}
            ops.append({"op": "set_params", "params": dict(cfg["params"])})
        if k > 0 and r.random() < 0.15:
            ops.append({"op": "deepcopy"})
        if k > 0 and r.random() < 0.3:
            sop = {"op": "sibling", "x0": alt_x0(r, base["x0"], lims), "params": {p: float(v) * r.choice([0.5, 2.0]) for p, v in base["params"].items()},
                   "t0": t0, "pre_tau": r.choice([None, tau_value()]), "epsilon": r.choice([None, 0.3]), "exact": r.random() < 0.5,
                   "x0_form": r.choice(forms), "time": {"kind": "float", "values": [T]}, "np_seed": r.randrange(2 ** 31)}
            if sibling_base is not None and r.random() < 0.5:
                sop["case"] = {"spec": sibling_base["spec"], "meta": sibling_base["meta"], "x0": sibling_base["x0"], "params": sibling_base["params"]}
                sop["x0"] = sibling_base["x0"]; sop["params"] = sibling_base["params"]
                if len(sibling_base["x0"]) != 1 and sop["x0_form"] == "scalar":
                    sop["x0_form"] = "arr_f64"
            ops.append(sop)
        exact = r.random() < exact_share
        time = gen_grid_time(r, cfg["t0"], T) if r.random() < grid_share else gen_scalar_time(r, T)
        op = {"op": "run", "exact": exact, "time": time, "iterations": r.choice([1, 2, 2, 3]), "np_seed": r.randrange(2 ** 31)}
        ops.append(op)
        if first is None:
            first = (len(ops) - 1, {k_: (dict(v_) if isinstance(v_, dict) else v_) for k_, v_ in cfg.items()}, op)
    if r.random() < 0.7:
        ops[max(i for i, o in enumerate(ops) if o["op"] == "run")]["fresh_ref"] = True
    if r.random() < 0.6 and n >= 2:
        idx, c0, op0 = first
        if cfg["pre_tau"] != c0["pre_tau"]:
            ops.append({"op": "set_pre_tau", "value": c0["pre_tau"]})
        if cfg["epsilon"] != c0["epsilon"]:
            ops.append({"op": "set_epsilon", "value": c0["epsilon"] if c0["epsilon"] is not None else 0.03})
        if cfg["params"] != c0["params"]:
            ops.append({"op": "set_params", "params": dict(c0["params"])})
        if (cfg["x0"], cfg["t0"]) != (c0["x0"], c0["t0"]) or r.random() < 0.5:
            # the first call's VALUES, handed over in a form of the other numeric kind (int <-> float) when there is one:
            # the result may depend on the values only
            was_float = "float" in c0["x0_form"] or "f64" in c0["x0_form"]
            other = [f for f in forms if (("float" in f or "f64" in f) != was_float)]
            set_iv(c0["x0"], c0["t0"], x0_form=r.choice(other) if other and r.random() < 0.7 else None)
        ops.append({"op": "run", "exact": op0["exact"], "time": op0["time"], "iterations": op0["iterations"], "np_seed": op0["np_seed"],
                    "repeat_of": idx})
    return ops


# ----------------------------------------------------------------------------- direct oracles (no Lean)
def oracle_c04(model, case, X, J, T, exact, finalT, truncated, its, lims, evaluators, viol, sig_extra="", where="", dT=None):
    """the property itself on the real output arrays"""
    x0 = np.array(case["x0"], float); t0 = case["sim"]["t0"]
    shape = "nS=%s,nE=%s" % ("1" if X.shape[1] == 1 else "n", "1" if (J.shape[1] if J.ndim == 2 else 0) == 1 else "n")
    mode = "exact" if exact else "tau"

    def v(what, kind, detail):
        viol.append({"what": what, "signature": "C04:%s:%s:%s%s" % (kind, mode, shape, sig_extra),
                     "detail": detail + ((" [" + where + "]") if where else "")})

    if not (np.array_equal(X[0], x0) and T[0] == t0):
        v("path does not start at the initial state/time", "start", "X[0]=%s T[0]=%r x0=%s t0=%r" % (X[0].tolist(), T[0], x0.tolist(), t0))
    if len(T) != len(X) or (len(T) - 1 != len(J)):
        v("array lengths disagree", "shape", "len(X)=%d len(T)=%d len(J)=%d" % (len(X), len(T), len(J)))
        return
    if not np.all(np.isfinite(T)) or not np.all(np.isfinite(X)):
        v("non-finite time or state recorded", "nonfinite", "T tail %s" % T[-3:].tolist())
        return
    if len(T) > 1 and not np.all(np.diff(T) > 0):
        bad = [int(k) for k in np.flatnonzero(~(np.diff(T) > 0))]
        # recorded defect `C04-tau-below-ulp`: an ADAPTIVE tau-leap step whose reported step size is positive but smaller than
        # half an ulp of t, so that t + dt == t in float64 (pure rounding: no minimum step size, Cao et al. eqs 11-13 are a TODO
        # in the source).  Only that; a step with dt <= 0, a decrease, a first-reaction step, exact mode or a fixed tau is judged.
        adaptive = (not exact) and case["sim"].get("mode") == "tau_adaptive" and case["sim"].get("pre_tau") is None
        def below_ulp(k):
            return (adaptive and dT is not None and k < len(dT) and float(dT[k]) > 0.0 and T[k + 1] == T[k]
                    and float(T[k]) + float(dT[k]) == float(T[k]) and not (k < len(its) and its[k].get("retry")))
        # recorded defect `C04-tau-underflows-to-zero` (the same collapse taken further): the reported step size is exactly 0.0
        # because (eps*sum(rates))**2 underflowed in float64 while every recorded statistic is positive; state and time then
        # never change again.  Recomputed here from the recorded statistics by the coded formula.
        eps_now = case["sim"].get("epsilon")
        def underflow_zero(k):
            return (adaptive and dT is not None and k < len(dT) and float(dT[k]) == 0.0 and T[k + 1] == T[k]
                    and k < len(its) and its[k].get("complete") and tau_underflowed(its[k], eps_now))
        ulp_steps = [k for k in bad if below_ulp(k)]
        zero_steps = [k for k in bad if not below_ulp(k) and underflow_zero(k)]
        other = [k for k in bad if k not in ulp_steps and k not in zero_steps]
        if other:
            k = other[0]
            v("times are not strictly increasing", "times", "T[%d]=%r T[%d]=%r%s" % (k, T[k], k + 1, T[k + 1], "" if dT is None or k >= len(dT) else " reported dt=%r" % float(dT[k])))
        else:
            if ulp_steps:
                k = ulp_steps[0]
                viol.append({"what": "times are not strictly increasing: an adaptive tau-leap step with a positive step size below half an ulp of t (t + dt == t)",
                             "signature": "C04:times:tau_adaptive:dt-positive-below-ulp",
                             "detail": "%d such steps, first: T[%d]=%r dt=%r x=%s" % (len(ulp_steps), k, T[k], float(dT[k]), X[k].tolist()) + ((" [" + where + "]") if where else "")})
            if zero_steps:
                k = zero_steps[0]
                viol.append({"what": "times are not strictly increasing: the adaptive tau-leap step size underflowed to exactly 0.0 (state and time no longer change)",
                             "signature": "C04:times:tau_adaptive:dt-underflows-to-zero",
                             "detail": "%d such steps, first: T[%d]=%r dt=0.0 x=%s rates=%s" % (len(zero_steps), k, T[k], X[k].tolist(), np.ravel(its[k]["rates"]).tolist()) + ((" [" + where + "]") if where else "")})
    if len(J):
        Jf = np.asarray(J, float)
        if Jf.ndim != 2 or not np.all(np.mod(Jf, 1) == 0) or not np.all(Jf >= 0):
            v("event counts are not non-negative integers", "counts", "J sample %s" % Jf[:3].tolist())
            return
        if exact and not np.all(Jf.sum(axis=1) == 1):
            k = int(np.argmax(Jf.sum(axis=1) != 1))
            v("exact step does not report exactly one event", "one-event", "J[%d]=%s" % (k, Jf[k].tolist()))
        vmat, pure = evaluators["vMat"], evaluators["pureOdeVector"]
        nS, nE = X.shape[1], Jf.shape[1]
        rates_fn = evaluators["eventRateVector"]
        for k in range(len(Jf)):
            V = np.asarray(vmat(X[k], T[k]), float).reshape(nS, nE)
            rk = np.asarray(rates_fn(X[k], T[k]), float).ravel()
            if np.any((Jf[k] > 0) & ~(rk > 0)):
                j = int(np.argmax((Jf[k] > 0) & ~(rk > 0)))
                v("an event that cannot fire (rate <= 0) was fired", "zero-rate-event-fired", "step %d: x=%s rates=%s counts=%s (event %d)" % (k, X[k].tolist(), rk.tolist(), Jf[k].tolist(), j))
                break
            exp = X[k] + V.dot(Jf[k])
            retried = (not exact) and k < len(its) and its[k].get("retry")   # a first-reaction step: no ODE term
            if not exact and case.get("has_ode") and not retried:
                exp = exp + np.asarray(pure(X[k], T[k]), float).ravel() * (T[k + 1] - T[k])
                ok = np.allclose(X[k + 1], exp, rtol=1e-9, atol=1e-9)
            elif max(float(np.abs(X[k + 1]).max()), float(np.abs(X[k]).max()), float(np.abs(Jf[k]).max())) >= 2.0 ** 53:
                ok = np.allclose(X[k + 1], exp, rtol=1e-12, atol=0.0)      # integers beyond 2^53 are not exact in doubles
            else:
                ok = np.array_equal(X[k + 1], exp)
            if not ok:
                v("state change != vMat . counts", "increment", "step %d: x=%s -> %s, counts=%s, V.counts=%s" % (k, X[k].tolist(), X[k + 1].tolist(), Jf[k].tolist(), V.dot(Jf[k]).tolist()))
                break
    # the loop must not go on after a stop condition: an iteration that found every rate zero is the last one
    for k, it in enumerate(its[:-1]):
        if it.get("complete") and np.all(np.ravel(it["rates"]) == 0):
            v("the loop went on after an iteration in which no event could fire", "continued-after-stop",
              "iteration %d of %d at x=%s t=%r had all rates zero" % (k, len(its), np.asarray(it["x"]).tolist(), it["t"]))
            break
    # exit: horizon passed, or no event can fire, or (by design of _jump) a first-reaction proposal left the limits
    if not truncated and not (T[-1] >= finalT):
        rates = np.asarray(evaluators["eventRateVector"](X[-1], T[-1]), float).ravel()
        if not np.all(rates == 0):
            last = its[-1] if its else None
            ok = False
            if last is not None and last.get("complete") and len(its) == len(T) and last["expo"]:
                # recompute the proposal of the last first-reaction step from the recorded draws
                pos = [j for j, r in enumerate(rates) if r > 0]
                times = [val for _, val in last["expo"]]
                if len(times) == len(pos):
                    j = pos[int(np.argmin(times))]
                    V = np.asarray(evaluators["vMat"](X[-1], T[-1]), float).reshape(X.shape[1], len(rates))
                    prop = X[-1] + V[:, j]
                    ok = bool(within(lims, prop))
            if not ok:
                v("simulation returned before the horizon although an event can fire and no proposal left the limits", "exit",
                  "T[-1]=%r finalT=%r rates=%s x=%s" % (T[-1], finalT, rates.tolist(), X[-1].tolist()))


def oracle_c11(lims, arrays, viol, mode, where, slack=0.0):
    """min / max of real arrays against the declared limits (lower 0 by default for EVERY state)"""
    for name, A in arrays:
        A = np.asarray(A, float)
        if A.ndim != 2 or A.shape[1] != len(lims):
            viol.append({"what": "%s has shape %s for %d states" % (name, A.shape, len(lims)), "signature": "C11:shape:%s" % name, "detail": ""})
            continue
        for i, (sname, (lo, hi)) in enumerate(lims):
            col = A[:, i]
            if lo is not None and col.min() < lo - slack:
                viol.append({"what": "state below its declared lower limit in %s" % name,
                             "signature": "C11:below:%s:%s:%s" % (mode, name, where(i)),
                             "detail": "state %s (index %d) reaches %r, limit (%s, %s); row %d" % (sname, i, float(col.min()), lo, hi, int(col.argmin()))})
                return
            if hi is not None and col.max() > hi + slack:
                viol.append({"what": "state above its declared upper limit in %s" % name,
                             "signature": "C11:above:%s:%s:%s" % (mode, name, where(i)),
                             "detail": "state %s (index %d) reaches %r, limit (%s, %s); row %d" % (sname, i, float(col.max()), lo, hi, int(col.argmax()))})
                return


def raw_lookup(X, T, grid):
    """state of the path at each grid time: the last record with time <= g (the first record if none)"""
    rows = []
    for g in grid:
        k = 0
        for i in range(len(T)):
            if T[i] <= g:
                k = i
        rows.append(X[k])
    return np.array(rows, float)


def events_per_interval(T, grid):
    """number of events with time in (g_k, g_{k+1}] - reference, plain loops"""
    out = []
    for k in range(len(grid) - 1):
        out.append(sum(1 for tt in T[1:] if grid[k] < tt <= grid[k + 1]))
    return out


def replay_function(fn_name, args, kwargs=None, expo=None, pois=None):
    """call a public step function of pygom.model.stochastic_simulation with the recorded variates"""
    from pygom.model import stochastic_simulation as ss
    e_it = iter(expo or []); p_it = iter(pois or [])
    orig_exp, orig_pois = np.random.exponential, np.random.poisson
    np.random.exponential = lambda scale=1.0, size=None: np.array([next(e_it)])
    np.random.poisson = lambda lam=1.0, size=None: np.array([next(p_it)])
    buf = io.StringIO()
    try:
        with contextlib.redirect_stdout(buf):
            return getattr(ss, fn_name)(*args, **(kwargs or {}))
    finally:
        np.random.exponential, np.random.poisson = orig_exp, orig_pois
