"""
C19 - R-style distribution helpers are the distributions they name.

Tie (T): `pre` regenerates lean/Pygom/Gen/Wrappers.lean (d/p/q wrapper table + seed table) and Gen/Kernels.lean
(`nb2pmf`) from utilR/distn.py of the tree under test; Pygom/Props/C19.lean re-checks the tables by `decide`
against the hand-written specification (Pygom/DistnSpec.lean).  When `decide` fails the build error is the broken
obligation; `pre` evaluates `Distn.offenders Gen.wrappers` in Lean so that the failing-input search aims at those rows.

Tie (H), per case (one family, one valid parameter vector):
  * translation validation: every table row evaluated through scipy.stats / numpy must reproduce the real function;
  * direct oracle (independent of Lean and of the table): closed forms in mpmath for density / mass, cdf and
    quantile (continuous: cdf_ref(q(u)) = u; discrete: generalised inverse), in plain and log form; p(q(u)) = u and
    d = dp/dx by differences on the real functions; negative binomial mean/size form against the (n, p) closed form;
  * generators: each rX(n, ..., seed=s) twice with the same integer seed (n = 1 and n > 1) with the global generator
    disturbed in between, the generator objects that served the draws recorded (np.random.RandomState, np.random.<fn>,
    scipy rvs wrapped) and compared with the translated seed table; distribution of 4000 seeded draws against the
    closed-form cdf with the DKW bound (false-alarm probability < 1e-20 per test).

Histories and forms (`kind: "arrays"` and `kind: "seedhist"` cases).  In Lean every d / p / q helper is a table row, i.e. a PURE
function of its arguments (`Gen.wrappers`, `nb2pmf_log`, ... - no state), and an integer-seeded generator draws from a FRESH
`RandomState(seed)` at every call (`C19.seeded_generators_reproducible` holds for ANY two worlds w1, w2 - global generator state,
operating-system entropy, other generator objects: everything earlier calls could have left behind).  The real module
is Python with module-level names, so this is probed directly, with the closed forms as the only judge:
  * arrays: one observation buffer / one probability buffer / one array per parameter, REFILLED IN PLACE between calls
    (x_A, x_B, x_A through the same object; parameters A, B, A through the same objects), new views of one persistent block,
    fresh arrays, lists refilled in place; d, p, q (and `gamma_mu_shape`, the mean/shape form used by the Gamma kernel) and
    both `log` values interleaved; every element against the mpmath closed form at the content the containers had at call
    time; a repeated call through the same memory must reproduce the earlier result bit for bit; results are KEPT and
    compared again after the session.  The containers passed in are compared with their content after every call: a write into
    one of them is a side effect and is TAGGED (`input-modified:<function>:<argument>`), not a violation - the property is about
    values; a container whose intended content did not change is passed again without being refilled and nothing is repaired,
    so what the write leads to shows in the values of the later calls, which are judged.  A function
    that refuses a vectorised form at its first use is tagged, not judged (vectorised calls are not promised);
  * seedhist: 8-20 generator calls in one process - several generators, several integer seeds (also one seed shared by different
    generators), n = 1 and n > 1, with unseeded draws, `seed=True`, `seed=RandomState`, re-seeding of the global generator in between:
    every call with the same (generator, parameters, n, integer seed) must return the draws of the first such call, and the single
    draw must be the head of the block drawn with the same seed (both calls start a fresh RandomState(seed); holds for all eight
    generators on the unchanged tree).
"""
import copy
import inspect
import json
import math
import os
import random
import re
import subprocess

import mpmath
import numpy as np

from .. import bootstrap, leanio
from .. import translate_kernels as TK
from .. import translate_wrappers as TW

PROP = "C19"
LEAN = {"module": "Pygom.Props.C19",
        "required": ["Pygom.C19.all_wrappers_correct", "Pygom.C19.all_families_present", "Pygom.C19.all_generators_correct",
                     "Pygom.C19.seed_table_complete", "Pygom.C19.test_seed_decision_table", "Pygom.C19.seeded_generators_reproducible",
                     "Pygom.C19.exp_rate_parameterisation", "Pygom.C19.gamma_rate_parameterisation", "Pygom.C19.norm_sd_parameterisation",
                     "Pygom.C19.nb2pmf_is_mass", "Pygom.C19.nb_mean_size_eq_np"]}
BUDGET = {"quick": {"dpq": 120, "large": 40, "seed": 40, "arrays": 100, "seedhist": 400, "search": 300},
          "thorough": {"dpq": 8000, "large": 1500, "seed": 2500, "arrays": 2500, "seedhist": 8000, "search": 2500}}
RULE = ("per family in {exp, gamma, norm, chisq, unif, beta, pois, binom, nbinom}: random valid parameters (rates / sds away from 1), "
        "6 arguments in the support and 4 probabilities in (0.01, 0.99), log in {False, True}, nbinom by prob and by mu, both tails; "
        "per generator: integer seeds (0 included), n = 1 and n > 1.  A d/p/q case is non-trivial when some argument has 1e-6 < cdf < "
        "1-1e-6 and every provided function returned a number; a generator case when both seeded calls returned n draws.  "
        "arrays cases: per family 20-35 vectorised d/p/q calls through buffers refilled in place (for every function: arguments A, A, B, A and parameters B, B, A through the same objects, refilled only when the content changes) (two argument sets, two parameter sets; x as "
        "float / int ndarray, list, view; parameters as Python scalars, numpy scalars, 0-d arrays or arrays refilled in place), non-trivial when "
        "some function accepted arrays, every accepted call returned and a buffer was re-used with changed content.  seedhist cases: 8-20 calls of "
        "1-3 generators x 1-2 integer seeds x n in {1, n>1} with unseeded / seed=True / RandomState-seeded calls and global re-seeding in between, "
        "non-trivial when some (generator, parameters, n, seed) was called at least twice with other calls in between and all calls returned.  "
        "ROUND D, large-argument d/p/q cases (regime=large, per family): rates / sds / widths log-uniform in [1e-3, 1e3], shapes 20-1000 or 0.05-0.5, "
        "df 100-3000, Poisson means 100-5000, binomial sizes 200-5000 with prob near 0 / near 1 / central, negative-binomial sizes 100-5000 "
        "(integer or not) by mu in 100-5000 or by prob near 0 / near 1 / central (mean <= 2e4); 6 arguments within +-7 (nbinom: 4) standard deviations "
        "of the mean, probabilities 0.01-0.99 and 1e-6..1e-2 from either end; log values judged on the log scale (1e-9 (1+|log|) absolute), plain "
        "values to 1e-7 relative where representable (> 1e-290), quantiles through the closed-form cdf of the neighbouring floats")
ASSUMPTIONS = ["scipy.stats d/p/q methods implement the named families (validated per case against mpmath closed forms, not proved)",
               "numpy.random.RandomState(seed) is a function of the seed alone; numpy's samplers have the named laws (DKW test per run)",
               "float arithmetic versus exact values: relative tolerance 1e-8 (references: mpmath, 30 digits)",
               "large-argument regime: a log value is a sum of terms of size up to ~|log| + 1e4, each rounded to 1e-16 relative (observed error <= 1e-11): "
               "absolute tolerance 1e-9 (1 + |log|); plain values are exponentials of such logs: 1e-7 relative; a log cdf whose plain value is below 1e-290 "
               "is not judged (scipy takes log(cdf)); a quantile whose true value is outside the float range, or closer to 1 than one float, is judged "
               "through the closed-form cdf four floats either side of the returned value"]
TRUSTED = ["harness/translate_wrappers.py + translate_kernels.py (symbolic executor, table printer)", "mpmath closed forms of the nine families",
           "the recording wrappers on np.random.RandomState / np.random.<fn> / scipy rvs"]

FAMILIES = TW.FAMILIES
DOCUMENTED = ["exp", "gamma", "norm", "chisq", "unif", "pois", "binom"]
DISCRETE = {"pois", "binom", "nbinom"}
REL, ABS = 1e-8, 1e-10
_state = {"offenders": None}


# ------------------------------------------------------------------------------------------------- pre
def _lean_offenders():
    """evaluate the specification on the generated tables inside Lean (Gen.Wrappers builds even when Props.C19 does not)"""
    ok, out, _ = leanio.lake_build(["Pygom.Gen.Wrappers"])
    if not ok:
        return None, "lake build Pygom.Gen.Wrappers failed: " + out[-1500:]
    src = ("import Pygom.Gen.Wrappers\nopen Pygom Pygom.Distn\n"
           "#eval (offenders Gen.wrappers).map fun x => s!\"W|{x.1}|{x.2.1}|{x.2.2.1}|{x.2.2.2}\"\n"
           "#eval (seedOffenders Gen.seedTable).map fun x => s!\"S|{x.1}|{x.2.1}|{repr x.2.2.1}|{x.2.2.2}\"\n")
    path = os.path.join(leanio.LEAN, ".lake", "c19_offenders_%d.lean" % os.getpid())
    with open(path, "w") as f:
        f.write(src)
    try:
        r = subprocess.run(["lake", "env", "lean", path], cwd=leanio.LEAN, capture_output=True, text=True, timeout=600)
    finally:
        os.unlink(path)
    text = r.stdout + r.stderr
    if r.returncode != 0:
        return None, text[-1500:]
    w = sorted(set(m.group(1) for m in re.finditer(r'"W\|([^"]*)"', text)))
    s = sorted(set(m.group(1) for m in re.finditer(r'"S\|([^"]*)"', text)))
    return {"wrappers": w, "seeds": s}, None


def pre(tier):
    kr = TK.regenerate(bootstrap.REPO)
    wr = TW.regenerate(bootstrap.REPO)
    refused = [r for r in kr["refused"] if r["what"].startswith("distn.")] + wr["refused"]
    broken = [{"obligation": "translator: %s" % r["what"], "detail": "BROKEN TIE - source outside the translated subset: " + r["detail"]}
              for r in refused]
    off, err = _lean_offenders()
    if off is None:
        broken.append({"obligation": "specification evaluated on the generated tables", "detail": err})
        off = {"wrappers": [], "seeds": []}
    _state["offenders"] = off
    os.makedirs(os.path.join(bootstrap.VERIF, ".cache"), exist_ok=True)
    with open(os.path.join(bootstrap.VERIF, ".cache", "c19_offenders.json"), "w") as f:
        json.dump(off, f)
    nrows = len(wr["rows"]) + len(wr["seeds"])
    return {"broken": broken, "obligations": nrows + len(refused) + 1, "discharged": nrows + (1 if err is None else 0),
            "coverage": {"generated_files_changed": [p for p, c in (("lean/Pygom/Gen/Wrappers.lean", wr["changed"]), ("lean/Pygom/Gen/Kernels.lean", kr["changed"])) if c],
                         "wrapper_rows": len(wr["rows"]), "seed_rows": len(wr["seeds"]), "other_functions": wr["other"],
                         "rows_failing_the_specification": off, "translator_refusals": refused}}


def _offending_functions():
    off = _state["offenders"]
    if off is None:
        try:
            off = json.load(open(os.path.join(bootstrap.VERIF, ".cache", "c19_offenders.json")))
        except Exception:
            off = {"wrappers": [], "seeds": []}
    return sorted(set(x.split("|")[0] for x in off["wrappers"])), sorted(set(x.split("|")[0] for x in off["seeds"]))


# ------------------------------------------------------------------------------------------ generation
def _away_from_one(r, lo=1.5, hi=6.0):
    v = math.exp(r.uniform(math.log(lo), math.log(hi)))
    return round(v if r.random() < 0.5 else 1.0 / v, 6)


def _params(r, fam):
    if fam == "exp":
        return {"rate": _away_from_one(r)}
    if fam == "gamma":
        return {"shape": round(r.uniform(0.6, 8.0), 6), "rate": _away_from_one(r)}
    if fam == "norm":
        return {"mean": round(r.choice([-1, 1]) * r.uniform(0.5, 5.0), 6), "sd": _away_from_one(r, 1.5, 4.0)}
    if fam == "chisq":
        return {"df": float(r.randint(1, 12)) if r.random() < 0.5 else round(r.uniform(1.0, 12.0), 6)}
    if fam == "unif":
        lo = round(r.choice([-1, 1]) * r.uniform(0.5, 3.0), 6)
        return {"min": lo, "max": round(lo + r.choice([r.uniform(0.3, 0.7), r.uniform(1.5, 5.0)]), 6)}
    if fam == "beta":
        return {"shape1": round(r.uniform(0.6, 6.0), 6), "shape2": round(r.uniform(0.6, 6.0), 6)}
    if fam == "pois":
        return {"mu": round(r.uniform(0.3, 30.0), 6)}
    if fam == "binom":
        return {"size": r.randint(1, 40), "prob": round(r.uniform(0.05, 0.95), 6)}
    if fam == "nbinom":
        size = round(r.uniform(0.5, 15.0), 6) if r.random() < 0.6 else float(r.randint(1, 12))
        if r.random() < 0.5:
            return {"size": size, "prob": round(r.uniform(0.1, 0.9), 6)}
        return {"size": size, "mu": round(r.uniform(0.3, 30.0), 6)}
    raise ValueError(fam)


def _sample_x(r, fam, p):
    if fam == "exp": return r.expovariate(p["rate"])
    if fam == "gamma": return r.gammavariate(p["shape"], 1.0 / p["rate"])
    if fam == "norm": return r.gauss(p["mean"], p["sd"])
    if fam == "chisq": return r.gammavariate(p["df"] / 2.0, 2.0)
    if fam == "unif": return r.uniform(p["min"], p["max"])
    if fam == "beta": return r.betavariate(p["shape1"], p["shape2"])
    if fam == "pois": return r.randint(0, int(p["mu"] + 4 * math.sqrt(p["mu"]) + 3))
    if fam == "binom": return r.randint(0, p["size"])
    if fam == "nbinom":
        mu = p["mu"] if "mu" in p else p["size"] * (1 - p["prob"]) / p["prob"]
        return r.randint(0, int(mu + 4 * math.sqrt(mu + mu * mu / p["size"]) + 3))


def _dpq_case(r, fam):
    p = _params(r, fam)
    xs = []
    for _ in range(6):
        x = _sample_x(r, fam, p)
        xs.append(int(x) if fam in DISCRETE else round(float(x), 6))
    if fam == "beta":
        xs = [min(max(x, 0.001), 0.999) for x in xs]
    if fam in ("exp", "gamma", "chisq"):
        xs = [max(x, 1e-4) for x in xs]
    return {"kind": "dpq", "family": fam, "params": p, "xs": xs, "us": [round(r.uniform(0.01, 0.99), 6) for _ in range(4)]}


def _logu(r, lo, hi, nd=6):
    return float("%.*g" % (nd, math.exp(r.uniform(math.log(lo), math.log(hi)))))


def _large_case(r, fam):
    """ROUND D: the LARGE-ARGUMENT regime of every family - counts and sizes in the hundreds / thousands, rates / shapes / scales
    from 1e-3 to 1e3, probabilities near 0 and near 1 - where a formula that is fine for moderate arguments overflows, underflows
    or cancels (seeded C19-d1: log(binom(k+x-1, x)) = inf once the coefficient exceeds 1.8e308).  The references are the same
    mpmath closed forms (exact at any size; discrete cdfs by the exact pmf recurrence, see _cum_table).  Arguments sit within a few
    standard deviations of the mean, some far in a tail."""
    z = lambda: r.choice([-1, 1]) * r.choice([r.uniform(0, 2), r.uniform(0, 2), r.uniform(2, 5), r.uniform(5, 7)])
    xs = []
    if fam == "exp":
        p = {"rate": _logu(r, 1e-3, 1e3)}
        xs = [_logu(r, 1e-3, 30.0) / p["rate"] for _ in range(6)]
    elif fam == "gamma":
        p = {"shape": _logu(r, 20.0, 1e3) if r.random() < 0.8 else _logu(r, 0.05, 0.5), "rate": _logu(r, 1e-3, 1e3)}
        m, sd = p["shape"] / p["rate"], math.sqrt(p["shape"]) / p["rate"]
        xs = [max(m + z() * sd, m * 1e-3) for _ in range(6)]
    elif fam == "norm":
        p = {"mean": r.choice([-1, 1]) * _logu(r, 1e-3, 1e3), "sd": _logu(r, 1e-3, 1e3)}
        xs = [p["mean"] + z() * p["sd"] for _ in range(6)]
    elif fam == "chisq":
        p = {"df": float(r.randint(100, 3000)) if r.random() < 0.5 else _logu(r, 100.0, 3000.0)}
        xs = [max(p["df"] + z() * math.sqrt(2 * p["df"]), 1.0) for _ in range(6)]
    elif fam == "unif":
        lo = r.choice([-1, 1]) * _logu(r, 1e-3, 1e3)
        p = {"min": lo, "max": float("%.9g" % (lo + _logu(r, 1e-3, 1e3)))}
        xs = [p["min"] + (p["max"] - p["min"]) * r.choice([r.random(), 1e-6, 1 - 1e-6]) for _ in range(6)]
    elif fam == "beta":
        big, small = (lambda: _logu(r, 20.0, 1e3)), (lambda: _logu(r, 0.05, 0.5))     # (smaller shapes: quantiles of 1e-6 underflow)
        a, b = r.choice([(big(), big()), (big(), big()), (big(), small()), (small(), big()), (big(), r.uniform(1.0, 5.0))])
        p = {"shape1": a, "shape2": b}
        m, sd = a / (a + b), math.sqrt(a * b / ((a + b) ** 2 * (a + b + 1)))
        xs = [min(max(m + z() * sd, 1e-9), 1 - 1e-9) for _ in range(6)]
    elif fam == "pois":
        p = {"mu": _logu(r, 100.0, 5000.0)}
        xs = [max(0, int(round(p["mu"] + z() * math.sqrt(p["mu"])))) for _ in range(6)]
    elif fam == "binom":
        n = r.randint(200, 5000)
        q = r.choice([_logu(r, 1e-4, 0.05), 1 - _logu(r, 1e-4, 0.05), round(r.uniform(0.05, 0.95), 6)])
        p = {"size": n, "prob": q}
        m, sd = n * q, math.sqrt(n * q * (1 - q))
        xs = [min(n, max(0, int(round(m + z() * max(sd, 1.0))))) for _ in range(6)]
    elif fam == "nbinom":
        size = float(r.randint(100, 5000)) if r.random() < 0.5 else _logu(r, 100.0, 5000.0)
        if r.random() < 0.5:
            q = r.choice([_logu(r, 1e-3, 0.1), 1 - _logu(r, 1e-3, 0.1), round(r.uniform(0.1, 0.9), 6)])
            q = max(q, float("%.6g" % (size / (size + 2.0e4))))        # mean at most 2e4 (the reference tables stay small)
            p = {"size": size, "prob": q}
            mu = size * (1 - q) / q
        else:
            mu = _logu(r, 100.0, 5000.0)
            p = {"size": size, "mu": mu}
        sd = math.sqrt(mu + mu * mu / size)
        xs = [min(200000, max(0, int(round(mu + min(abs(zz), 4.0) * (1 if zz > 0 else -1) * max(sd, 1.0))))) for zz in [z() for _ in range(6)]]
    else:
        raise ValueError(fam)
    xs = [int(x) if fam in DISCRETE else float("%.9g" % x) for x in xs]
    us = [round(r.uniform(0.01, 0.99), 6), round(r.uniform(0.01, 0.99), 6), _logu(r, 1e-6, 1e-2), 1 - _logu(r, 1e-6, 1e-2)]
    return {"kind": "dpq", "regime": "large", "family": fam, "params": p, "xs": xs, "us": us}


def _seed_case(r, fam):
    return {"kind": "seed", "family": fam, "params": _params(r, fam), "seed": r.choice([0, 1, 2, 7, 12345, r.randint(0, 2 ** 31 - 1)]),
            "n_many": r.choice([2, 3, 5, 17]), "other_seed": r.randint(0, 10 ** 6)}


def make_cases(rng, tier, budget):
    out = []
    bad_w, bad_s = _offending_functions()
    # rows the Lean specification rejects come first: the failing-input search replays exactly those wrappers
    for fn in bad_w:
        fam = fn[1:]
        if fam in FAMILIES:
            for _ in range(3):
                out.append(_dpq_case(random.Random(rng.getrandbits(64)), fam))
    for fn in bad_s:
        fam = fn[1:]
        if fam in FAMILIES:
            for _ in range(3):
                out.append(_seed_case(random.Random(rng.getrandbits(64)), fam))
    for fam in FAMILIES:
        for _ in range(budget["dpq"]):
            out.append(_dpq_case(random.Random(rng.getrandbits(64)), fam))
    for fam in DOCUMENTED + ["nbinom"]:
        for _ in range(budget["seed"]):
            out.append(_seed_case(random.Random(rng.getrandbits(64)), fam))
    for fam in FAMILIES:
        for _ in range(budget.get("arrays", 0)):
            out.append(_arrays_case(random.Random(rng.getrandbits(64)), fam))
    for i in range(budget.get("seedhist", 0)):
        out.append(_seedhist_case(random.Random(rng.getrandbits(64)), force=(DOCUMENTED + ["nbinom"])[i % 8] if i < 64 else None))
    for fam in FAMILIES:                                  # drawn last: the earlier kinds are the same cases as before
        for _ in range(budget.get("large", 0)):
            out.append(_large_case(random.Random(rng.getrandbits(64)), fam))
    return out


def search_cases(rng, tier, budget):
    out = []
    bad_w, bad_s = _offending_functions()
    fams_w = [f[1:] for f in bad_w if f[1:] in FAMILIES] or FAMILIES
    fams_s = [f[1:] for f in bad_s if f[1:] in FAMILIES] or (DOCUMENTED + ["nbinom"])
    for i in range(budget["search"]):
        out.append(_dpq_case(random.Random(rng.getrandbits(64)), fams_w[i % len(fams_w)]))
        out.append(_large_case(random.Random(rng.getrandbits(64)), fams_w[i % len(fams_w)]))
        out.append(_seed_case(random.Random(rng.getrandbits(64)), fams_s[i % len(fams_s)]))
        out.append(_arrays_case(random.Random(rng.getrandbits(64)), FAMILIES[i % len(FAMILIES)]))
        out.append(_seedhist_case(random.Random(rng.getrandbits(64))))
    return out


# ------------------------------------------------------------------------------------------ references
def _mp(v):
    return mpmath.mpf(v) if not isinstance(v, int) else mpmath.mpf(v)


def _nb_p(p):
    size = _mp(p["size"])
    return size / (size + _mp(p["mu"])) if "mu" in p else _mp(p["prob"])


def ref_pdf(fam, p, x):
    x = _mp(x)
    if fam == "exp":
        r = _mp(p["rate"]); return r * mpmath.exp(-r * x) if x >= 0 else mpmath.mpf(0)
    if fam == "gamma":
        a, r = _mp(p["shape"]), _mp(p["rate"]); return r ** a * x ** (a - 1) * mpmath.exp(-r * x) / mpmath.gamma(a) if x > 0 else mpmath.mpf(0)
    if fam == "norm":
        m, s = _mp(p["mean"]), _mp(p["sd"]); return mpmath.exp(-((x - m) / s) ** 2 / 2) / (s * mpmath.sqrt(2 * mpmath.pi))
    if fam == "chisq":
        k = _mp(p["df"]); return x ** (k / 2 - 1) * mpmath.exp(-x / 2) / (2 ** (k / 2) * mpmath.gamma(k / 2)) if x > 0 else mpmath.mpf(0)
    if fam == "unif":
        a, b = _mp(p["min"]), _mp(p["max"]); return 1 / (b - a) if a <= x <= b else mpmath.mpf(0)
    if fam == "beta":
        a, b = _mp(p["shape1"]), _mp(p["shape2"]); return x ** (a - 1) * (1 - x) ** (b - 1) / mpmath.beta(a, b) if 0 < x < 1 else mpmath.mpf(0)
    if fam == "pois":
        m = _mp(p["mu"]); return mpmath.exp(-m) * m ** x / mpmath.factorial(x)
    if fam == "binom":
        n, q = int(p["size"]), _mp(p["prob"]); return mpmath.binomial(n, x) * q ** x * (1 - q) ** (n - x) if 0 <= x <= n else mpmath.mpf(0)
    if fam == "nbinom":
        n, q = _mp(p["size"]), _nb_p(p); return mpmath.gamma(n + x) / (mpmath.gamma(n) * mpmath.factorial(x)) * q ** n * (1 - q) ** x
    raise ValueError(fam)


def ref_cdf(fam, p, x):
    if fam in DISCRETE:
        k = int(math.floor(x))
        return sum((ref_pdf(fam, p, j) for j in range(0, k + 1)), mpmath.mpf(0))
    x = _mp(x)
    if fam == "exp":
        return 1 - mpmath.exp(-_mp(p["rate"]) * x) if x > 0 else mpmath.mpf(0)
    if fam == "gamma":
        return mpmath.gammainc(_mp(p["shape"]), 0, _mp(p["rate"]) * x, regularized=True) if x > 0 else mpmath.mpf(0)
    if fam == "norm":
        return mpmath.ncdf((x - _mp(p["mean"])) / _mp(p["sd"]))
    if fam == "chisq":
        return mpmath.gammainc(_mp(p["df"]) / 2, 0, x / 2, regularized=True) if x > 0 else mpmath.mpf(0)
    if fam == "unif":
        a, b = _mp(p["min"]), _mp(p["max"]); return min(max((x - a) / (b - a), mpmath.mpf(0)), mpmath.mpf(1))
    if fam == "beta":
        return mpmath.betainc(_mp(p["shape1"]), _mp(p["shape2"]), 0, x, regularized=True) if x > 0 else mpmath.mpf(0)
    raise ValueError(fam)


def _cum_table(fam, p, kmax):
    """cdf(0..kmax) of a discrete family from pmf(0) in closed form and the EXACT ratio pmf(j+1)/pmf(j) of the closed form
    (30-digit arithmetic: the accumulated rounding over 1e5 steps is < 1e-24 relative); extended on demand by _cum_get"""
    tab = {"pmf": [ref_pdf(fam, p, 0)], "cum": []}
    tab["cum"].append(tab["pmf"][0])
    _cum_get(tab, fam, p, kmax)
    return tab


def _cum_get(tab, fam, p, k):
    pm, cu = tab["pmf"], tab["cum"]
    if fam == "binom" and k >= int(p["size"]):
        k = int(p["size"])
    if fam == "pois":
        m = _mp(p["mu"]); ratio = lambda j: m / (j + 1)
    elif fam == "binom":
        n, q = int(p["size"]), _mp(p["prob"]); odds = q / (1 - q); ratio = lambda j: odds * (n - j) / (j + 1)
    else:
        n, q1 = _mp(p["size"]), 1 - _nb_p(p); ratio = lambda j: q1 * (n + j) / (j + 1)
    while len(cu) <= k:
        j = len(cu) - 1
        pm.append(pm[j] * ratio(j))
        cu.append(cu[j] + pm[j + 1])
    return cu[k]


def ref_cdf_float(fam, p, xs):
    """float closed-form cdf on an array (scipy.special only) - used by the DKW test of the generators"""
    import scipy.special as sp
    xs = np.asarray(xs, float)
    if fam == "exp": return 1 - np.exp(-p["rate"] * np.maximum(xs, 0))
    if fam == "gamma": return sp.gammainc(p["shape"], p["rate"] * np.maximum(xs, 0))
    if fam == "norm": return sp.ndtr((xs - p["mean"]) / p["sd"])
    if fam == "chisq": return sp.gammainc(p["df"] / 2.0, np.maximum(xs, 0) / 2.0)
    if fam == "unif": return np.clip((xs - p["min"]) / (p["max"] - p["min"]), 0, 1)
    if fam == "pois": return sp.gammaincc(np.floor(xs) + 1, p["mu"])
    if fam == "binom": return np.where(xs >= p["size"], 1.0, sp.betainc(np.maximum(p["size"] - np.floor(xs), 1e-300), np.floor(xs) + 1, 1 - p["prob"]))
    if fam == "nbinom":
        q = p["size"] / (p["size"] + p["mu"]) if "mu" in p else p["prob"]
        return sp.betainc(p["size"], np.floor(xs) + 1, q)
    raise ValueError(fam)


# ------------------------------------------------------------------------------------------ calling
def _call_args(fam, p):
    """R-style positional / keyword arguments after the first one"""
    order = {"exp": ["rate"], "gamma": ["shape", "rate"], "norm": ["mean", "sd"], "chisq": ["df"], "unif": ["min", "max"],
             "beta": ["shape1", "shape2"], "pois": ["mu"], "binom": ["size", "prob"]}
    if fam == "nbinom":
        # both keywords always passed (the absent one as None): valid for R-style callers and for every signature in the tree
        return [p["size"]], {"prob": p.get("prob"), "mu": p.get("mu")}
    return [p[k] for k in order[fam]], {}


def _close(got, exp, rel=REL, abs_=ABS):
    try:
        g = float(got)
    except Exception:
        return False
    e = float(exp)
    if math.isnan(g):
        return False
    if math.isinf(e) or math.isinf(g):
        return g == e
    return abs(g - e) <= abs_ + rel * max(abs(g), abs(e))


def _lookup_rows(table, name, **kw):
    return [r for r in table if r["name"] == name and all(r.get(k) == v for k, v in kw.items())]


_tables = {}


def _get_tables():
    if "rows" not in _tables:
        res = TW.translate(bootstrap.REPO)
        _tables["rows"], _tables["seeds"] = res["rows"], res["seeds"]
        kres = TK.translate(bootstrap.REPO)
        _tables["kernels"] = {d["name"]: (d, TK.py_lambda(d)) for d in kres["defs"]}
    return _tables


def _eval_ir(ir, env):
    return float(TK.ev(ir, env))


def _replay_row(row, env):
    """what the table row says the function computes, evaluated through scipy.stats (or the translated closed form)"""
    import scipy.stats as st
    if row["method"] == "none":
        return ("none", None)
    if row["method"] == "raise":
        return ("raise", None)
    args = [_eval_ir(a, env) for a in row["args"]]
    kwargs = {k: _eval_ir(v, env) for k, v in row["kwargs"]}
    try:
        if row["family"].startswith("distn."):
            d, f = _get_tables()["kernels"]["%s_%s" % (row["family"][6:], "log" if row["method"].startswith("log") else "plain")]
            with np.errstate(all="ignore"):
                return ("value", float(f(*[kwargs[q] for q in d["params"]])))
        with np.errstate(all="ignore"):
            return ("value", float(getattr(getattr(st, row["family"]), row["method"])(*args, **kwargs)))
    except Exception as exc:
        return ("raise", type(exc).__name__)


def _real_call(fn, *a, **k):
    try:
        with np.errstate(all="ignore"):
            v = fn(*a, **k)
    except Exception as exc:
        return ("raise", "%s: %s" % (type(exc).__name__, str(exc)[:120]))
    if v is None:
        return ("none", None)
    try:
        return ("value", float(v))
    except Exception:
        return ("raise", "non-scalar result %r" % (v,))


# ------------------------------------------------------------------------------------------ d / p / q
def _run_dpq(case):
    from pygom.utilR import distn
    mpmath.mp.dps = 60 if case.get("regime") == "large" else 30      # (large: upper tails 1 - cdf down to 1e-30 keep 1e-8 relative)
    fam, p = case["family"], case["params"]
    tags = ["dpq:" + fam] + (["nbinom:by-" + ("mu" if "mu" in p else "prob")] if fam == "nbinom" else [])
    mism, viol = [], []
    tabs = _get_tables()
    pos, kw = _call_args(fam, p)
    variant = ("mu" if "mu" in p else "prob") if fam == "nbinom" else ""
    env = dict(p)
    nontrivial = False
    all_numbers = True
    seen = set()

    large = case.get("regime") == "large"
    if large:
        tags.append("regime:large-arguments")
    # large regime: discrete cdfs from the exact pmf recurrence (one table per case), the quantile walk through the same table
    kmax = 0
    if large and fam in DISCRETE:
        kmax = int(max(case["xs"])) + 1
    cum = _cum_table(fam, p, kmax) if (large and fam in DISCRETE) else None

    def cdf_ref(x):
        if cum is not None:
            k = int(math.floor(x))
            return mpmath.mpf(0) if k < 0 else _cum_get(cum, fam, p, k)
        return ref_cdf(fam, p, x)

    def violation(fn, cls, what):
        if large:
            cls += ":large-arguments"
        sig = "%s:%s" % (fn, cls)
        if sig not in seen:
            seen.add(sig)
            viol.append({"what": what, "signature": sig, "detail": json.dumps(case)})

    def check(fn_name, first, expected, log, lower=True, expected_plain=None, wrong=None):
        """call the real function; compare with the table row (tie) and with the closed form (property)"""
        nonlocal all_numbers
        f = getattr(distn, fn_name, None)
        if f is None:
            return None
        import inspect
        formals = list(inspect.signature(f).parameters)
        k = dict(kw)
        if "log" in formals:
            k["log"] = log
        elif log:
            return None
        if "lower_tail" in formals:
            k["lower_tail"] = lower
        elif not lower:
            return None
        got = _real_call(f, first, *pos, **k)
        # --- tie: the translated row
        rows = _lookup_rows(tabs["rows"], fn_name, log=log, variant=variant, lower=lower)
        if len(rows) != 1:
            mism.append({"what": "table-row-missing:%s" % fn_name, "detail": "log=%s variant=%s lower=%s: %d rows" % (log, variant, lower, len(rows))})
        else:
            e2 = dict(env); e2[formals[0]] = first
            rep = _replay_row(rows[0], e2)
            same = rep[0] == got[0] and (rep[0] != "value" or rep[1] == got[1] or (math.isnan(rep[1]) and math.isnan(got[1])) or _close(got[1], rep[1], 1e-12, 0))
            if not same:
                mism.append({"what": "table-row:%s" % fn_name, "detail": "real %r, row %s.%s gives %r (log=%s) case %s" % (got, rows[0]["family"], rows[0]["method"], rep, log, json.dumps(case))})
        # --- property
        label = "%s(%r, %s%s%s)" % (fn_name, first, ", ".join("%s=%r" % kv for kv in list(p.items())), ", log=True" if log else "", "" if lower else ", lower_tail=False")
        if got[0] == "none":
            all_numbers = False
            violation(fn_name, "stub", "%s returned None" % label)
            return None
        if got[0] == "raise":
            all_numbers = False
            violation(fn_name, "raises", "%s raised %s" % (label, got[1]))
            return None
        exp = float(expected)
        # large regime: log values are judged on the log scale with an absolute tolerance that allows for the rounding of the
        # O(|log|)-sized terms they are sums of (1e-12 |log| observed at most; 1e-9 (1 + |log|) allowed); plain values relatively
        # (1e-7: the exponential of such a log) where representable - a plain value below 1e-290 only has to be below 1e-280
        if large:
            ok = (_close(got[1], exp, 0.0, 1e-9 * (1.0 + abs(exp))) if log else
                  (_close(got[1], exp, 1e-7, 0.0) if abs(exp) > 1e-290 else (not math.isnan(got[1]) and abs(got[1]) < 1e-280)))
        else:
            ok = _close(got[1], exp)
        if not ok:
            cls = "value"
            if wrong:
                for name, val in wrong.items():
                    if _close(got[1], float(val), 1e-7, 1e-9):
                        cls = name
            if log and expected_plain is not None and cls == "value":
                plain = _real_call(f, first, *pos, **dict(k, log=False))
                if plain[0] == "value" and math.isfinite(got[1]) and plain[1] == got[1]:
                    cls = "log-ignored"
                elif plain[0] == "value" and not large and math.isnan(plain[1]) and math.isnan(got[1]):
                    cls = "log-ignored"
            violation(fn_name, cls, "%s = %r but the closed form gives %r" % (label, got[1], exp))
        return got[1]

    for x in case["xs"]:
        pdf, cdf = ref_pdf(fam, p, x), cdf_ref(x)
        if 1e-6 < cdf < 1 - 1e-6:
            nontrivial = True
        if pdf > 0:
            check("d" + fam, x, pdf, False, wrong={"returns-cdf": cdf})
            check("d" + fam, x, mpmath.log(pdf), True, expected_plain=pdf)
        if fam != "beta" or hasattr(distn, "pbeta"):
            check("p" + fam, x, cdf, False, wrong={"returns-pdf": pdf})
            if cdf > 0 and not (large and cdf < 1e-290):      # (a log cdf whose plain value is not representable: scipy takes log(cdf), assumption "scipy implements the families")
                check("p" + fam, x, mpmath.log(cdf), True, expected_plain=cdf, wrong={"returns-pdf": mpmath.log(pdf) if pdf > 0 else mpmath.mpf(0)})
            if fam == "nbinom":
                check("p" + fam, x, 1 - cdf, False, lower=False)
                if cdf < 1:
                    check("p" + fam, x, mpmath.log(1 - cdf), True, lower=False, expected_plain=1 - cdf)
    import inspect
    fq = getattr(distn, "q" + fam, None)
    q_formals = list(inspect.signature(fq).parameters) if fq else []
    for u in case["us"] if fq else []:
        for lower in ((True, False) if "lower_tail" in q_formals else (True,)):
            for log in ((False, True) if "log" in q_formals else (False,)):
                arg = math.log(u) if log else u
                target = u if lower else 1 - u          # the lower-tail probability the quantile must invert
                if fam in DISCRETE and cum is not None:
                    k = 0
                    while _cum_get(cum, fam, p, k) < target and k < 200000:
                        k += 1
                    c = _cum_get(cum, fam, p, k)
                    below = _cum_get(cum, fam, p, k - 1) if k > 0 else mpmath.mpf(0)
                    if abs(c - target) < 1e-7 * min(target, 1 - target) or abs(below - target) < 1e-7 * min(target, 1 - target):
                        continue
                    check("q" + fam, arg, k, log, lower=lower, expected_plain=k)
                elif fam in DISCRETE:
                    # generalised inverse: smallest k with cdf(k) >= target
                    k = 0
                    c = ref_cdf(fam, p, 0)
                    while c < target and k < 100000:
                        k += 1
                        c += ref_pdf(fam, p, k)
                    below = c - ref_pdf(fam, p, k)
                    if abs(c - target) < 1e-7 or abs(below - target) < 1e-7:
                        continue                           # u within rounding of a jump: either neighbour is acceptable
                    check("q" + fam, arg, k, log, lower=lower, expected_plain=k)
                else:
                    # continuous: the returned quantile is accepted through the closed-form cdf, cdf_ref(q(u)) = u
                    kq = dict(kw)
                    if "log" in q_formals: kq["log"] = log
                    if "lower_tail" in q_formals: kq["lower_tail"] = lower
                    res = _real_call(fq, arg, *pos, **kq)
                    rows = _lookup_rows(tabs["rows"], "q" + fam, log=log, variant=variant, lower=lower)
                    if len(rows) == 1:
                        e2 = dict(env); e2[q_formals[0]] = arg
                        rep = _replay_row(rows[0], e2)
                        if not (rep[0] == res[0] and (rep[0] != "value" or rep[1] == res[1] or _close(res[1], rep[1], 1e-12, 0))):
                            mism.append({"what": "table-row:q%s" % fam, "detail": "real %r row %r case %s" % (res, rep, json.dumps(case))})
                    else:
                        mism.append({"what": "table-row-missing:q%s" % fam, "detail": "log=%s: %d rows" % (log, len(rows))})
                    label = "q%s(%r, %s%s)" % (fam, arg, ", ".join("%s=%r" % kv for kv in p.items()), ", log=True" if log else "")
                    if res[0] == "none":
                        all_numbers = False; violation("q" + fam, "stub", label + " returned None"); continue
                    if res[0] == "raise":
                        all_numbers = False; violation("q" + fam, "raises", label + " raised " + str(res[1])); continue
                    back = mpmath.nan if math.isnan(res[1]) else ref_cdf(fam, p, res[1])
                    # (large regime: relative to the smaller tail, plus what one unit in the last place of the returned x is worth)
                    tolq = 1e-8
                    if large and not math.isnan(res[1]) and not math.isinf(res[1]):
                        # accepted when the target lies between the closed-form cdf four floats below and four floats above the
                        # returned x (a quantile within 1e-33 of 1, or on a coarse float grid far from 0, has no better answer)
                        sp_ = 4 * float(np.spacing(abs(res[1]) if res[1] != 0 else 1e-300))
                        clamp = (lambda v: min(max(v, 0.0), 1.0)) if fam == "beta" else (lambda v: v)
                        lo_, hi_ = ref_cdf(fam, p, clamp(res[1] - sp_)), ref_cdf(fam, p, clamp(res[1] + sp_))
                        if fam == "beta" and res[1] + sp_ >= 1.0:
                            hi_ = mpmath.mpf(1)
                        if float(lo_) - 1e-7 * min(target, 1 - target) <= target <= float(hi_) + 1e-7 * min(target, 1 - target):
                            continue
                        tolq = 1e-7 * min(target, 1 - target)
                    if large and not math.isnan(res[1]) and 0 <= res[1] < 1e-290 and fam in ("gamma", "beta", "exp", "chisq") and back >= target:
                        tags.append("large:quantile-below-the-float-range")      # the true quantile is not representable: nothing to judge
                        continue
                    if math.isnan(res[1]) or abs(float(back) - target) > tolq:
                        violation("q" + fam, "log-ignored" if log else "value",
                                  "%s = %r whose closed-form cdf is %s, not %r" % (label, res[1], mpmath.nstr(back, 12), target))
    # self-consistency of the real functions (continuous families): p(q(u)) = u and d = dp/dx by central differences
    if fam not in DISCRETE and not viol:
        fq, fp, fd = getattr(distn, "q" + fam, None), getattr(distn, "p" + fam, None), getattr(distn, "d" + fam, None)
        if fq and fp and not large:
            for u in case["us"]:
                a = _real_call(fq, u, *pos, **kw)
                if a[0] == "value":
                    b = _real_call(fp, a[1], *pos, **kw)
                    if b[0] == "value" and abs(b[1] - u) > 1e-8:
                        violation("p" + fam, "p(q(u))!=u", "p%s(q%s(%r)) = %r (%s)" % (fam, fam, u, b[1], p))
        if fp and fd and not large:      # (large regime: the closed forms above are the judge; a difference quotient adds nothing there)
            for x in case["xs"]:
                scale = max(abs(x), 1e-2)
                h = 1e-5 * scale
                if fam == "unif" and not (p["min"] + 2 * h < x < p["max"] - 2 * h):
                    continue
                if fam in ("exp", "gamma", "chisq") and x - 2 * h <= 0:
                    continue
                if fam == "beta" and not (2 * h < x < 1 - 2 * h):
                    continue
                hi, lo, dv = _real_call(fp, x + h, *pos, **kw), _real_call(fp, x - h, *pos, **kw), _real_call(fd, x, *pos, **kw)
                if hi[0] == lo[0] == dv[0] == "value":
                    fdiff = (hi[1] - lo[1]) / (2 * h)
                    curv = abs(float(mpmath.diff(lambda t: ref_pdf(fam, p, t), x, 2))) * h * h   # truncation bound of the central difference
                    if abs(fdiff - dv[1]) > 1e-4 * max(abs(dv[1]), 1e-3) + 10 * curv + 1e-12 / h:
                        violation("p" + fam, "dp/dx!=d", "(p%s(x+h)-p%s(x-h))/2h = %r but d%s(x) = %r at x=%r (%s)" % (fam, fam, fdiff, fam, dv[1], x, p))
    # vectorised use, the same argument objects handed in twice: values (of both calls) must be the scalar values, which the
    # closed forms above have judged; a write into the arrays given is tagged (side effect), its consequence is the second call's value
    if not viol:
        _vector_reuse(distn, fam, p, case, pos, kw, violation, tags)
    return {"nontrivial": bool(nontrivial and all_numbers), "mismatches": mism, "violations": viol, "tags": tags,
            "sample": {"family": fam, "params": p, "xs": case["xs"][:2], "us": case["us"][:2]}}


def _vector_reuse(distn, fam, p, case, pos, kw, violation, tags):
    n = len(case["xs"])
    for kind in "dpq":
        f = getattr(distn, kind + fam, None)
        if f is None:
            continue
        firsts = case["us"] if kind == "q" else case["xs"]
        if not firsts:
            continue
        scal = [_real_call(f, v, *pos, **kw) for v in firsts]
        if any(r[0] != "value" for r in scal):
            continue
        first_arr = np.array(firsts, dtype=(float if (kind == "q" or fam not in DISCRETE) else int))
        par_arrs = [np.full(len(firsts), v, dtype=(int if isinstance(v, int) and not isinstance(v, bool) else float)) for v in pos]
        kw_arrs = {k: (None if v is None else np.full(len(firsts), float(v))) for k, v in kw.items()}
        keep = [first_arr.copy()] + [a.copy() for a in par_arrs] + [None if a is None else a.copy() for a in kw_arrs.values()]
        outs = []
        for rep in range(2):
            try:
                with np.errstate(all="ignore"):
                    outs.append(np.asarray(f(first_arr, *par_arrs, **kw_arrs), float).ravel())
            except Exception as exc:
                outs.append(exc)
        now = [first_arr] + par_arrs + list(kw_arrs.values())
        names = ["first argument"] + ["parameter %d" % (i + 1) for i in range(len(par_arrs))] + list(kw_arrs)
        for nm, a, b in zip(names, keep, now):
            if a is not None and not np.array_equal(a, b, equal_nan=True):
                # a side effect, not a wrong value: tagged; the second call above received the modified arrays, its values are judged below
                tags.append("input-modified:%s%s:%s" % (kind, fam, nm.replace(" ", "-")))
        if isinstance(outs[0], Exception):
            tags.append("vector:unsupported:" + kind + fam)      # vectorised calls are not promised; not judged
            if not isinstance(outs[1], Exception):
                violation(kind + fam, "first-vector-call-raises-only", "%s%s raised on the first vectorised call only: %r" % (kind, fam, outs[0]))
            continue
        tags.append("vector")
        exp = np.array([r[1] for r in scal])
        for rep, o in enumerate(outs):
            if isinstance(o, Exception):
                violation(kind + fam, "repeat-call-raises", "%s%s raised %r when called a second time with the same arrays (%s)" % (kind, fam, o, p))
            elif o.shape != exp.shape or not all(_close(g, e, 1e-9, 1e-12) or (math.isnan(g) and math.isnan(e)) for g, e in zip(o, exp)):
                violation(kind + fam, "vector-differs-from-scalar" if rep == 0 else "repeat-call-differs",
                          "%s%s(array, ...) call %d = %s but element by element the scalar calls give %s (%s)" % (kind, fam, rep + 1, o.tolist(), exp.tolist(), p))


# ------------------------------------------------------------------------------------------ generators
NUMPY_METHOD = {"exp": "exponential", "gamma": "gamma", "norm": "normal", "chisq": "chisquare", "unif": "uniform", "pois": "poisson",
                "binom": "binomial", "nbinom": "negative_binomial", "beta": "beta"}


class _Recorder:
    """records which generator object serves each draw while a real r-function runs"""

    def __init__(self):
        self.events = []

    def __enter__(self):
        import scipy.stats as st
        rec = self
        self.orig_rs = np.random.RandomState
        orig = self.orig_rs

        class RecRS(orig):
            def __init__(s, *a, **k):
                orig.__init__(s, *a, **k)
                rec.events.append(("RandomState", a[0] if a else None))

        for m in set(NUMPY_METHOD.values()):
            def mk(m):
                def meth(s, *a, **k):
                    rec.events.append(("state-draw", m))
                    return getattr(orig, m)(s, *a, **k)
                return meth
            setattr(RecRS, m, mk(m))
        np.random.RandomState = RecRS
        self.orig_fns = {}
        for m in set(NUMPY_METHOD.values()):
            self.orig_fns[m] = getattr(np.random, m)
            def mkg(m, f):
                def g(*a, **k):
                    rec.events.append(("global-draw", m))
                    return f(*a, **k)
                return g
            setattr(np.random, m, mkg(m, self.orig_fns[m]))
        self.st_objs = {}
        for famname in ("uniform", "beta", "expon", "gamma", "norm", "chi2", "poisson", "binom", "nbinom"):
            obj = getattr(st, famname)
            def mks(famname, obj):
                f = type(obj).rvs
                def rvs(*a, **k):
                    rec.events.append(("scipy-rvs", famname, "random_state" in k and k["random_state"] is not None))
                    return f(obj, *a, **k)
                return rvs
            obj.rvs = mks(famname, obj)
            self.st_objs[famname] = obj
        return self

    def __exit__(self, *a):
        np.random.RandomState = self.orig_rs
        for m, f in self.orig_fns.items():
            setattr(np.random, m, f)
        for famname, obj in self.st_objs.items():
            try:
                del obj.rvs
            except AttributeError:
                pass

    def source(self):
        kinds = [e[0] for e in self.events]
        if "global-draw" in kinds:
            return "global"
        if "scipy-rvs" in kinds:
            return "scipy_global" if not [e for e in self.events if e[0] == "scipy-rvs"][0][2] else "scipy_random_state"
        if "state-draw" in kinds:
            made = [e for e in self.events if e[0] == "RandomState"]
            if made and made[-1][1] is not None:
                return "seeded"
            return "fresh" if made else "given"
        return "none"


def _run_seed(case):
    from pygom.utilR import distn
    fam, p = case["family"], case["params"]
    s = int(case["seed"])
    tags = ["seed:" + fam, "seed0" if s == 0 else "seed-nonzero"]
    mism, viol = [], []
    f = getattr(distn, "r" + fam, None)
    if f is None:
        return {"nontrivial": False, "mismatches": [{"what": "missing:r" + fam, "detail": ""}], "violations": [], "tags": tags}
    pos, kw = _call_args(fam, p)
    variant = ("mu" if "mu" in p else "prob") if fam == "nbinom" else ""
    tabs = _get_tables()
    ok_draws = True
    for n in (1, int(case["n_many"])):
        label = "r%s(%d, %s, seed=%d)" % (fam, n, ", ".join("%s=%r" % kv for kv in p.items()), s)
        np.random.seed(case["other_seed"])
        with _Recorder() as rec:
            try:
                a = f(n, *pos, seed=s, **kw)
                err = None
            except Exception as exc:
                a, err = None, "%s: %s" % (type(exc).__name__, str(exc)[:120])
        observed = rec.source()
        np.random.seed(case["other_seed"] + 1); np.random.random(3)          # disturb the global generator
        try:
            b = f(n, *pos, seed=s, **kw)
        except Exception as exc:
            b = None
        if err is not None:
            ok_draws = False
            viol.append({"what": "%s raised %s" % (label, err), "signature": "r%s:raises" % fam, "detail": json.dumps(case)})
            continue
        if a is None:
            ok_draws = False
            viol.append({"what": "%s returned None" % label, "signature": "r%s:stub" % fam, "detail": json.dumps(case)})
            continue
        if np.size(a) != n or (n == 1 and np.ndim(a) != 0):
            ok_draws = False
            viol.append({"what": "%s returned %r (expected %s)" % (label, np.shape(a), "a scalar" if n == 1 else "%d draws" % n),
                         "signature": "r%s:shape" % fam, "detail": json.dumps(case)})
            continue
        # --- property: same draws for the same integer seed
        if b is None or not np.array_equal(np.asarray(a), np.asarray(b)):
            viol.append({"what": "%s called twice gave %s and %s (generator that served the first call: %s)" % (label, np.asarray(a).tolist(), None if b is None else np.asarray(b).tolist(), observed),
                         "signature": "r%s:int-seed-ignored" % fam, "detail": json.dumps(case)})
        # --- tie: the translated seed table
        rows = [r for r in tabs["seeds"] if r["name"] == "r" + fam and r["variant"] == variant and r["seed"] == ("int0" if s == 0 else "int") and r["many"] == (n > 1)]
        if len(rows) != 1:
            mism.append({"what": "seed-row-missing:r" + fam, "detail": "%d rows" % len(rows)})
        else:
            row = rows[0]
            if row["source"] != observed:
                mism.append({"what": "seed-row-source:r" + fam, "detail": "table says %s, observed %s (%s) case %s" % (row["source"], observed, rec.events[:6], json.dumps(case))})
            elif row["source"] == "seeded":
                env = dict(p); env["n"] = n
                args = [_eval_ir(x, env) for x in row["args"]]
                kws = {k: (int(n) if k == "size" else _eval_ir(v, env)) for k, v in row["kwargs"]}
                pred = getattr(np.random.RandomState(s), row["method"])(*args, **kws)
                pred = pred[0] if row["scalar"] else pred
                if not np.array_equal(np.asarray(pred), np.asarray(a)):
                    mism.append({"what": "seed-row-draw:r" + fam, "detail": "table row predicts %s, real %s case %s" % (np.asarray(pred).tolist(), np.asarray(a).tolist(), json.dumps(case))})
    # --- property: the draws follow the named family with R's parameterisation (DKW: P(sup|F_n - F| > eps) <= 2 exp(-2 n eps^2))
    if ok_draws and not viol:
        N, eps = 4000, 0.08              # 2*exp(-2*4000*0.0064) ~ 1e-22
        try:
            draws = np.asarray(f(N, *pos, seed=s, **kw), float)
        except Exception as exc:
            draws = None
        if draws is not None and draws.shape == (N,):
            xs = np.sort(draws)
            F = ref_cdf_float(fam, p, xs)
            if fam in DISCRETE:
                # compare at the atoms: empirical cdf (right-continuous) against F at each distinct value
                vals, counts = np.unique(xs, return_counts=True)
                emp = np.cumsum(counts) / float(N)
                dist = float(np.max(np.abs(emp - ref_cdf_float(fam, p, vals))))
            else:
                i = np.arange(1, N + 1) / float(N)
                dist = float(max(np.max(np.abs(i - F)), np.max(np.abs(i - 1.0 / N - F))))
            if dist > eps:
                viol.append({"what": "r%s(%d, %s, seed=%d): empirical cdf is %.3f away from the closed-form cdf of the family (DKW bound %.2f)" % (fam, N, p, s, dist, eps),
                             "signature": "r%s:distribution" % fam, "detail": json.dumps(case)})
    return {"nontrivial": bool(ok_draws), "mismatches": mism, "violations": viol, "tags": tags,
            "sample": {"family": fam, "params": p, "seed": s, "n": case["n_many"]}}


# ========================================================================================== histories: arrays refilled in place
# Lean: every helper is a row of a table / a closed term (Gen.wrappers, Gen.nb2pmf_*, Gen.gamma_mu_shape_*), a pure function
# of (x, parameters, log).  Here: the same, asked of the running module, through containers whose identity stays and whose
# content changes.
def _arrays_case(r, fam):
    pA = _params(r, fam)
    pB = _params(r, fam)
    while fam == "nbinom" and (("mu" in pA) != ("mu" in pB)):
        pB = _params(r, fam)
    if len(pA) > 1 and r.random() < 0.5:
        # the two parameter sets differ in ONE parameter only (a table keyed on part of the parameters would go stale here)
        k = r.choice(sorted(pA))
        cand = dict(pA); cand[k] = pB[k]
        if cand != pA and (fam != "unif" or cand["min"] + 0.05 < cand["max"]):
            pB = cand
    sets = []
    for p in (pA, pB):
        xs = []
        for _ in range(6):
            x = _sample_x(r, fam, p)
            xs.append(int(x) if fam in DISCRETE else round(float(x), 6))
        if fam == "beta":
            xs = [min(max(x, 0.001), 0.999) for x in xs]
        if fam in ("exp", "gamma", "chisq"):
            xs = [max(x, 1e-4) for x in xs]
        sets.append(xs)
    us = [[round(r.uniform(0.01, 0.99), 6) for _ in range(4)] for _ in range(2)]
    x_form = r.choice(["float_array", "float_array", "int_array" if fam in DISCRETE else "float_array", "list", "column"])
    par_form = r.choice(["scalar", "scalar", "array", "array", "npscalar", "zerod"])
    fns = ["d", "p", "q"] + (["gms"] if fam == "gamma" else [])

    def rand_op():
        return {"fn": r.choice(fns), "log": r.random() < 0.5, "set": r.randrange(2), "pset": r.randrange(2), "via": r.choice(["buffer", "buffer", "view", "fresh"])}

    ops = [rand_op() for _ in range(r.randint(3, 6))]
    # the core history, for EVERY function of the family: arguments A, A, B, A and then parameters B, B, A through the same objects
    core = []
    extra = r.choice(fns)
    for m in fns:
        for via in (["buffer", "view"] if m == extra else ["buffer"]):
            lg, ps = r.random() < 0.5, r.randrange(2)
            blk = [{"fn": m, "log": lg, "set": i, "pset": ps, "via": via} for i in (0, 0, 1, 0)]       # 0 twice: passed again as it is
            blk += [{"fn": m, "log": lg, "set": 0, "pset": j, "via": via} for j in (1 - ps, 1 - ps, ps)]
            core.append(blk)
    r.shuffle(core)
    for blk in core:
        # a block keeps its order; random other calls may fall in between
        pos = sorted(r.randrange(len(ops) + 1) for _ in blk)
        for off, (p_, op) in enumerate(zip(pos, blk)):
            ops.insert(p_ + off, op)
    return {"kind": "arrays", "family": fam, "params": [pA, pB], "xs": sets, "us": us, "x_form": x_form, "par_form": par_form, "ops": ops,
            "scribble": r.random() < 0.3}


def _run_arrays(case):
    from pygom.utilR import distn
    mpmath.mp.dps = 30
    fam, psets = case["family"], case["params"]
    tags = ["arrays:" + fam, "x-form:" + case["x_form"], "par-form:" + case["par_form"]] + (["caller-overwrites-results"] if case.get("scribble") else [])
    viol, seen = [], set()
    detail = json.dumps(case)

    def violation(fn, cls, what):
        sig = "%s:%s" % (fn, cls)
        if sig not in seen:
            seen.add(sig)
            viol.append({"what": what, "signature": sig, "detail": detail})

    memo, base, tabs_d = {}, {}, {}

    def discrete_table(pi, upto):
        """mass and cumulative mass 0..upto of parameter set pi (closed form, computed once per session)"""
        t = tabs_d.setdefault(pi, {"pdf": [], "cdf": []})
        while len(t["pdf"]) <= upto:
            j = len(t["pdf"])
            v = ref_pdf(fam, psets[pi], j)
            t["pdf"].append(v)
            t["cdf"].append(v + (t["cdf"][-1] if t["cdf"] else mpmath.mpf(0)))
        return t

    def pdf_cdf(pi, x):
        key = (pi, x)
        if key not in base:
            if fam in DISCRETE:
                k = int(math.floor(x))
                t = discrete_table(pi, max(k, 0))
                base[key] = (ref_pdf(fam, psets[pi], x), t["cdf"][k] if k >= 0 else mpmath.mpf(0))
            else:
                base[key] = (ref_pdf(fam, psets[pi], x), ref_cdf(fam, psets[pi], x))
        return base[key]

    def discrete_quantile(pi, target):
        k = 0
        while True:
            t = discrete_table(pi, k)
            if t["cdf"][k] >= target or k >= 100000:
                break
            k += 1
        c = t["cdf"][k]
        below = c - t["pdf"][k]
        if abs(c - target) < 1e-7 or abs(below - target) < 1e-7:
            return None                           # within rounding of a jump: either neighbour is acceptable
        return k

    def expected(fn, log, si, pi, i):
        """closed-form value for element i (None = not judged; ('cdf', u) = judged through the closed-form cdf)"""
        key = (fn, log, si, pi, i)
        if key not in memo:
            if fn == "q":
                u = case["us"][si][i]
                memo[key] = ("inverse", discrete_quantile(pi, u)) if fam in DISCRETE else ("cdf", u)
            else:
                pdf, cdf = pdf_cdf(pi, case["xs"][si][i])
                v = pdf if fn in ("d", "gms") else cdf
                if fn in ("d", "gms") and v <= 0:
                    memo[key] = None
                elif log:
                    memo[key] = None if v <= 0 else ("value", float(mpmath.log(v)))
                else:
                    memo[key] = ("value", float(v))
        return memo[key]

    def real_fn(fn):
        if fn == "gms":
            return getattr(distn, "gamma_mu_shape", None), "gamma_mu_shape"
        return getattr(distn, fn + fam, None), fn + fam

    # parameter lists per function: R-style positional order; gamma_mu_shape(x, mu, shape) has mean = shape/rate
    order = {"exp": ["rate"], "gamma": ["shape", "rate"], "norm": ["mean", "sd"], "chisq": ["df"], "unif": ["min", "max"],
             "beta": ["shape1", "shape2"], "pois": ["mu"], "binom": ["size", "prob"]}

    def par_values(fn, p):
        if fn == "gms":
            return [("mu", p["shape"] / p["rate"]), ("shape", p["shape"])], []
        if fam == "nbinom":
            return [("size", p["size"])], [("prob", p.get("prob")), ("mu", p.get("mu"))]
        return [(k, p[k]) for k in order[fam]], []

    # ---- the caller's persistent containers
    nx, nu = len(case["xs"][0]), len(case["us"][0])
    xdtype = int if case["x_form"] == "int_array" else float
    store, filled = {}, {}

    def first_container(fn, si, via):
        vals = case["us"][si] if fn == "q" else case["xs"][si]
        n = len(vals)
        form = "float_array" if fn == "q" and case["x_form"] == "int_array" else case["x_form"]
        dt = int if form == "int_array" else float
        # a persistent container is refilled in place only when its intended content changes; otherwise the caller passes it again as
        # it is (whatever a callee may have done to it is then visible in the values of this call)
        if form == "list":
            if via == "fresh":
                return list(vals), None
            key = ("first-list", fn == "q")
            lst = store.setdefault(key, [])
            if filled.get(key) != si:
                lst[:] = list(vals)                  # the same list object, refilled in place
            filled[key] = si
            return lst, key
        shape = (n, 1) if form == "column" else (n,)
        arr = np.array(vals, dtype=dt).reshape(shape)
        if via == "fresh":
            return arr, None
        if via == "buffer":
            key = ("first-buf", fn == "q")
            b = store.setdefault(key, np.empty(shape, dtype=dt))
            if filled.get(key) != si:
                b[...] = arr
            filled[key] = si
            return b, key
        key = ("first-block", fn == "q")
        blk = store.setdefault(key, np.full((3 * n,) + shape[1:], 0.5 if fn == "q" else 1, dtype=dt))
        if filled.get(key) != si:
            blk[n:2 * n] = arr
        filled[key] = si
        return blk[n:2 * n], key                    # a NEW view object over the same memory

    def par_container(name, value, n, tagq):
        if value is None:
            return None
        is_int = isinstance(value, int) and not isinstance(value, bool)
        form = case["par_form"]
        if form == "scalar":
            return value
        if form == "npscalar":
            return np.int64(value) if is_int else np.float64(value)
        if form == "zerod":
            return np.array(value, dtype=int if is_int else float)
        key = ("par", name, tagq)
        shape = (n, 1) if case["x_form"] == "column" else (n,)     # per-observation parameters have the shape of the observations
        a = store.setdefault(key, np.empty(shape, dtype=int if is_int else float))
        if filled.get(key) != value:
            a[...] = value                           # the same parameter array, refilled in place when the parameter changes
        filled[key] = value
        return a

    unsupported, used_ok = set(), set()
    kept, first_seen = [], {}
    content, reused_changed, all_returned = {}, False, True
    for idx, op in enumerate(case["ops"]):
        fn, log, si, pi, via = op["fn"], bool(op["log"]), op["set"], op["pset"], op["via"]
        f, name = real_fn(fn)
        if f is None or name in unsupported:
            continue
        formals = list(inspect.signature(f).parameters)
        if fn == "q" or (log and "log" not in formals):
            log = False                              # quantiles of log-probabilities are covered by the scalar cases
        p = psets[pi]
        first, key = first_container(fn, si, via)
        n = nu if fn == "q" else nx
        pos_v, kw_v = par_values(fn, p)
        pos_c = [par_container(k, v, n, fn == "q") for k, v in pos_v]
        kw_c = {k: par_container(k, v, n, fn == "q") for k, v in kw_v}
        if "log" in formals:
            kw_c["log"] = log
        if key is not None:
            state = (si, pi if case["par_form"] == "array" else None)
            if key in content and content[key] != state:
                reused_changed = True
            content[key] = state
        snap = [copy.deepcopy(first)] + [copy.deepcopy(c) for c in pos_c] + [copy.deepcopy(c) for c in kw_c.values()]
        label = "%s(%s%s) [operation %d: argument set %d as %s via %s, parameters %r as %s]" % (name, "x", ", log=True" if log else "", idx, si, case["x_form"], via, p, case["par_form"])
        try:
            with np.errstate(all="ignore"):
                res = f(first, *pos_c, **kw_c)
        except Exception as exc:
            if name not in used_ok:
                unsupported.add(name)
                tags.append("vector:unsupported:%s:%s" % (name, type(exc).__name__))     # vectorised calls are not promised; not judged
            else:
                all_returned = False
                violation(name, "raises-after-earlier-success", "%s raised %s: %s although the same kind of call succeeded earlier in the session" % (label, type(exc).__name__, str(exc)[:160]))
            continue
        used_ok.add(name)
        out = np.array(res, float).ravel()
        if case.get("scribble") and isinstance(res, np.ndarray) and res.flags.writeable:
            res[...] = -12345.0        # a returned array is the caller's: overwriting it must not reach later calls (judged by their values)
        else:
            kept.append((label, name, res, copy.deepcopy(res)))
        if out.shape != (n,):
            all_returned = False
            violation(name, "vector-shape", "%s returned shape %s for %d arguments" % (label, np.shape(res), n))
            continue
        # ---- every element against the closed form at the content the containers had when the call was made
        bad = []
        for i in range(n):
            e = expected(fn, log, si, pi, i)
            g = float(out[i])
            if e is None or e[1] is None:
                continue
            if e[0] == "value":
                ok = _close(g, e[1])
            elif e[0] == "inverse":
                ok = _close(g, e[1])
            else:
                ok = (not math.isnan(g)) and abs(float(ref_cdf(fam, p, g)) - e[1]) <= 1e-8
            if not ok:
                bad.append((i, g, e[1]))
        if bad:
            # classification only: the same call with new containers holding the intended content
            hist = False
            try:
                f1 = first_container(fn, si, "fresh")[0]
                shape_ = (n, 1) if case["x_form"] == "column" else (n,)
                def fresh_par(v, c):
                    return np.full(shape_, v, dtype=np.asarray(c).dtype) if isinstance(c, np.ndarray) and np.ndim(c) > 0 else copy.deepcopy(c)
                with np.errstate(all="ignore"):
                    again = np.asarray(f(f1, *[fresh_par(v, c) for (_, v), c in zip(pos_v, pos_c)],
                                         **dict({k: fresh_par(v, kw_c[k]) for k, v in kw_v}, **({"log": log} if "log" in formals else {}))), float).ravel()
                hist = not np.array_equal(again, out, equal_nan=True)
            except Exception:
                pass
            i, g, e = bad[0]
            violation(name, "history-dependent" if hist else "vector-value",
                      "%s: element %d is %r but the closed form %s %r%s" % (label, i, g, "requires cdf(q) =" if fn == "q" and fam not in DISCRETE else "gives", e,
                                                                             "; the same call with fresh copies of its arguments returns something else: the value depends on earlier calls / on the identity of the containers" if hist else ""))
        # ---- same memory, same content: bit for bit the earlier result
        if key is not None:
            k2 = (name, log, si, pi, via, case["par_form"] == "array")
            if k2 in first_seen:
                if not np.array_equal(first_seen[k2][1], out, equal_nan=True):
                    violation(name, "not-reproduced", "%s = %s but the identical call at operation %d gave %s" % (label, out.tolist(), first_seen[k2][0], first_seen[k2][1].tolist()))
            else:
                first_seen[k2] = (idx, out.copy())
        # ---- the containers are the caller's.  A write into one of them is a side effect: TAGGED, not a violation; nothing is repaired,
        #      so the calls that receive the same containers again show (in their values) what it leads to
        now = [first] + pos_c + list(kw_c.values())
        names = ["first-argument"] + [k for k, _ in pos_v] + list(kw_c)
        for nm, a, b in zip(names, snap, now):
            same = np.array_equal(np.asarray(a), np.asarray(b), equal_nan=False) if not (a is None or isinstance(a, bool)) else a is b or a == b
            if not same:
                tags.append("input-modified:%s:%s" % (name, nm))
    for label, name, res, snap in kept:
        if not np.array_equal(np.asarray(res), np.asarray(snap), equal_nan=True):
            violation(name, "kept-result-changed", "the result of %s was %s when returned and is %s after later calls" % (label, np.asarray(snap).tolist(), np.asarray(res).tolist()))
    if used_ok:
        tags.append("vector")
    return {"nontrivial": bool(used_ok and all_returned and reused_changed), "mismatches": [], "violations": viol, "tags": tags,
            "sample": {"kind": "arrays", "family": fam, "x_form": case["x_form"], "par_form": case["par_form"], "ops": len(case["ops"])}}


# ========================================================================================== histories: seeded generators
def _seedhist_case(r, force=None):
    gens = DOCUMENTED + ["nbinom"]
    fams = [force] if force else []
    for f in r.sample(gens, r.choice([1, 2, 3])):
        if f not in fams:
            fams.append(f)
    seeds = [r.choice([0, 1, 2, 7, 12345, r.randint(0, 2 ** 31 - 1)])]
    if r.random() < 0.6:
        seeds.append(r.choice([0, 3, r.randint(0, 2 ** 31 - 1)]))
    n_many = r.choice([2, 3, 5, 17])
    pars = {f: _params(r, f) for f in fams}
    keys = [{"family": f, "params": pars[f], "n": n, "seed": s} for f in fams for s in seeds for n in (1, n_many)]
    r.shuffle(keys)
    keys = keys[:r.randint(2, 6)]
    # the single draws are the ones simulation loops ask for: always present for the first family
    single = {"family": fams[0], "params": pars[fams[0]], "n": 1, "seed": seeds[0]}
    block = {"family": fams[0], "params": pars[fams[0]], "n": n_many, "seed": seeds[0]}
    calls = [dict(k) for k in keys for _ in range(2)] + [dict(single) for _ in range(3)] + [dict(block)]
    r.shuffle(calls)
    noise = []
    for _ in range(r.randint(1, 5)):
        f = r.choice(fams)
        kind = r.choice(["none", "true", "state", "reseed"])
        if kind == "reseed":
            noise.append({"reseed": r.randint(0, 10 ** 6), "burn": r.randint(0, 5)})
        else:
            noise.append({"family": f, "params": pars[f], "n": r.choice([1, n_many]), "seed": {"none": None, "true": "True", "state": {"state": r.randint(0, 10 ** 6)}}[kind]})
    for x in noise:
        calls.insert(r.randrange(1, len(calls)), x)
    return {"kind": "seedhist", "calls": calls, "scribble": r.random() < 0.4}


def _run_seedhist(case):
    from pygom.utilR import distn
    tags = ["seedhist"]
    viol, seen = [], set()
    detail = json.dumps(case)

    def violation(fn, cls, what):
        sig = "%s:%s" % (fn, cls)
        if sig not in seen:
            seen.add(sig)
            viol.append({"what": what, "signature": sig, "detail": detail})

    firsts, heads, repeated, all_ok = {}, {}, False, True
    last_key = None
    for idx, c in enumerate(case["calls"]):
        if "reseed" in c:
            np.random.seed(c["reseed"]); np.random.random(c["burn"])
            last_key = None
            continue
        fam, p, n, sd = c["family"], c["params"], int(c["n"]), c["seed"]
        f = getattr(distn, "r" + fam, None)
        if f is None:
            return {"nontrivial": False, "mismatches": [{"what": "missing:r" + fam, "detail": ""}], "violations": [], "tags": tags}
        pos, kw = _call_args(fam, p)
        judged = isinstance(sd, int) and not isinstance(sd, bool)
        seed_arg = sd if judged or sd is None else (True if sd == "True" else np.random.RandomState(sd["state"]))
        label = "r%s(%d, %s, seed=%s) [call %d of the session]" % (fam, n, ", ".join("%s=%r" % kv for kv in p.items()), sd, idx)
        try:
            a = f(n, *pos, seed=seed_arg, **kw)
        except Exception as exc:
            if judged:
                all_ok = False
                violation("r" + fam, "raises", "%s raised %s: %s" % (label, type(exc).__name__, str(exc)[:120]))
            continue
        if not judged:
            tags.append("noise:" + ("unseeded" if sd is None else "true" if sd == "True" else "state"))
            last_key = None
            continue
        tags.append("seed:" + fam)
        if a is None or np.size(a) != n or (n == 1 and np.ndim(a) != 0):
            all_ok = False
            violation("r" + fam, "stub" if a is None else "shape", "%s returned %r" % (label, None if a is None else np.shape(a)))
            continue
        res, a = a, np.asarray(a).copy()
        if case.get("scribble") and isinstance(res, np.ndarray) and res.flags.writeable:
            res[...] = 0               # the block of draws is the caller's to overwrite; a later call must not hand it out again
        key = json.dumps([fam, p, n, sd], sort_keys=True)
        if key in firsts:
            if last_key != key:
                repeated = True
            if not np.array_equal(firsts[key][1], a):
                violation("r" + fam, "same-seed-differs-after-history",
                          "%s gave %s but call %d with the same generator, parameters, n and integer seed gave %s" % (label, a.tolist(), firsts[key][0], firsts[key][1].tolist()))
        else:
            firsts[key] = (idx, a)
        # the single draw is the head of the block: both start a fresh RandomState(seed) (unchanged tree: all eight generators)
        hk = json.dumps([fam, p, sd], sort_keys=True)
        head = float(a.ravel()[0])
        if hk in heads and heads[hk][1] != head and (heads[hk][2] == 1) != (n == 1):
            violation("r" + fam, "single-draw-differs-from-block-head",
                      "%s starts with %r but call %d (n = %d, same generator, parameters and integer seed) started with %r" % (label, head, heads[hk][0], heads[hk][2], heads[hk][1]))
        heads.setdefault(hk, (idx, head, n))
        last_key = key
    return {"nontrivial": bool(all_ok and repeated), "mismatches": [], "violations": viol, "tags": sorted(set(tags)),
            "sample": {"kind": "seedhist", "calls": len(case["calls"])}}


def run_case(case):
    if case["kind"] == "dpq":
        return _run_dpq(case)
    if case["kind"] == "arrays":
        return _run_arrays(case)
    if case["kind"] == "seedhist":
        return _run_seedhist(case)
    return _run_seed(case)
