"""helpers shared by C13 and C20: exact evaluation of the driver's expressions, Lean `layout` calls,
finite differences with Richardson extrapolation, reference solutions (scipy DOP853 at 1e-12)."""
from fractions import Fraction

import numpy as np

from .. import exprs as E
from .. import leanio


def ev_frac(e, env):
    """exact rational value of an expression at a rational point; transcendental nodes are evaluated
    with 50 digits and converted (exactly) to the rational they print as"""
    t = e[0]
    if t == "num":
        return Fraction(e[1])
    if t == "var":
        return Fraction(env[e[1]])
    if t == "add":
        return ev_frac(e[1], env) + ev_frac(e[2], env)
    if t == "sub":
        return ev_frac(e[1], env) - ev_frac(e[2], env)
    if t == "mul":
        return ev_frac(e[1], env) * ev_frac(e[2], env)
    if t == "div":
        d = ev_frac(e[2], env)
        if abs(d) < Fraction(1, 10 ** 6):
            raise E.Undefined("near-zero denominator")
        return ev_frac(e[1], env) / d
    if t == "neg":
        return -ev_frac(e[1], env)
    if t == "pow":
        return ev_frac(e[1], env) ** int(e[2])
    # pi, exp, log, sin, cos
    import mpmath
    v = E.ev(e, env)
    return Fraction(mpmath.nstr(v, 45))


def fs(x):
    x = Fraction(x)
    return str(x.numerator) if x.denominator == 1 else "%d/%d" % (x.numerator, x.denominator)


def fvec(v):
    return [fs(x) for x in v]


def fmat(m):
    return [[fs(x) for x in row] for row in m]


def layout(fn, **kw):
    r = leanio.driver().call(dict({"op": "layout", "fn": fn}, **kw))
    return r["out"]


def to_float(out):
    if out and isinstance(out[0], list):
        return np.array([[float(Fraction(x)) for x in row] for row in out], float).reshape(len(out), len(out[0]) if out else 0)
    return np.array([float(Fraction(x)) for x in out], float)


def subst_params(obj, values):
    """replace every ["var", p] with p in `values` by its numeric constant, anywhere in a spec"""
    if isinstance(obj, list):
        if len(obj) == 2 and obj[0] == "var" and isinstance(obj[1], str) and obj[1] in values:
            return E.num(values[obj[1]].numerator, values[obj[1]].denominator)
        return [subst_params(o, values) for o in obj]
    if isinstance(obj, dict):
        return {k: subst_params(v, values) for k, v in obj.items()}
    return obj


def richardson_jac(f, z, rel=1e-3):
    """central differences of f at z with one Richardson step (error O(h^4)); returns (J, f0)"""
    z = np.asarray(z, float)
    f0 = np.asarray(f(z), float)
    J = np.zeros((len(f0), len(z)))
    for c in range(len(z)):
        h = rel * max(1.0, abs(z[c]))
        def d(hh):
            e = np.zeros(len(z)); e[c] = hh
            return (np.asarray(f(z + e), float) - np.asarray(f(z - e), float)) / (2 * hh)
        J[:, c] = (4 * d(h / 2) - d(h)) / 3
    return J, f0


class IllConditioned(FloatingPointError):
    """the two finite-difference levels disagree too much for the extrapolated value to be trusted"""


def richardson_dir(f, x, c, h, check=1e-3):
    """d f / d x_c by central differences + Richardson; f returns an array.  Raises IllConditioned when the
    Richardson correction exceeds `check` relative (the function is not smooth enough at this step size)"""
    x = np.asarray(x, float)
    def d(hh):
        e = np.zeros(len(x)); e[c] = hh
        return (f(x + e) - f(x - e)) / (2 * hh)
    d1, d2 = d(h), d(h / 2)
    est = (4 * d2 - d1) / 3
    if check is not None and np.max(np.abs(d2 - d1)) > check * (1e-6 + np.max(np.abs(est))):
        raise IllConditioned
    return est


def ref_solve(rhs, x0, t0, ts, rtol=1e-12, atol=1e-12, max_norm=1e6):
    """reference solution rows at ts (scipy DOP853); None when the integration fails or blows up"""
    from scipy.integrate import solve_ivp
    ts = np.asarray(ts, float)
    def ev(t, x):
        return max_norm - np.max(np.abs(x))
    ev.terminal = True
    r = solve_ivp(rhs, (t0, float(ts[-1])), np.asarray(x0, float), t_eval=ts, method="DOP853", rtol=rtol, atol=atol, events=ev)
    yy = np.asarray(r.y, float)
    if (not r.success) or r.status != 0 or yy.ndim != 2 or yy.shape[1] != len(ts) or not np.all(np.isfinite(yy)) or np.max(np.abs(yy)) > max_norm:
        return None
    return yy.T


def close_arr(a, b, rel, abs_):
    a = np.asarray(a, float); b = np.asarray(b, float)
    if a.shape != b.shape:
        return False
    return bool(np.all(np.abs(a - b) <= abs_ + rel * np.maximum(np.abs(a), np.abs(b))))


def worst(a, b):
    a = np.asarray(a, float); b = np.asarray(b, float)
    if a.shape != b.shape:
        return "shape %s vs %s" % (a.shape, b.shape)
    d = np.abs(a - b)
    i = np.unravel_index(np.argmax(d), d.shape) if d.size else ()
    return "max |diff| %.3e at %s (got %.10g, expected %.10g)" % (d.max() if d.size else 0, tuple(int(k) for k in i), a[i] if d.size else 0, b[i] if d.size else 0)
