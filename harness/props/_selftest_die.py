"""runner self-test: one case kills its worker process; the others must still be judged and the run must not hang"""
import os
PROP = "SELFTEST"
def run_case(case):
    if case.get("die"):
        os._exit(7)
    return {"nontrivial": True, "mismatches": [], "violations": [], "tags": ["ok"]}
