"""
C12 - equivalent ways of specifying a model give the same model.

Each case is ONE abstract process set entered twice: two independent route assignments (Event objects, an
Event whose single / member transition carries the rate, bare Transitions given to add_event, the legacy
transition= / birth_death= lists, births named by origin or destination, explicit ODE equations,
incremental add_* calls), two orders, two declaration styles (comma/space strings vs lists).
Direct oracle (no Lean): the two real models have the same get_ode_eqn() (exact point), the same
ode/jacobian evaluations and the same multiset of (rate, state-change column) pairs.
Correspondence: each variant's real ODE against the driver's assemble of the same spec, and the driver's
own two variants against each other.
"""
import json
import random
from fractions import Fraction

import numpy as np

from .. import exprs as E
from .. import gen
from .common import multiset_close, build_both, compare_errors, fl, mpf, mpf_s, sym_vs_lean, vec_close

PROP = "C12"
LEAN = {"module": "Pygom.Props.C12",
        "required": ["Pygom.C12.routes_agree", "Pygom.C12.order_irrelevant", "Pygom.C12.explicit_ode_route",
                     "Pygom.C12.birth_origin_eq_destination", "Pygom.C12.splitDecl_join", "Pygom.C12.assemble_congr",
                     "Pygom.C12.route_member_eq", "Pygom.C12.route_legacy_T", "Pygom.C12.route_legacy_BD", "Pygom.C12.route_bare"]}
BUDGET = {"quick": {"cases": 140}, "thorough": {"cases": 2500}}
RULE = ("random process sets (as C01) entered through two independent route assignments / orders / declaration styles; "
        "non-trivial = the two specs differ and the ODE is not identically zero")
ASSUMPTIONS = ["expression identity decided by exact evaluation at 2 random rational points (50 digits)"]
TRUSTED = ["harness generator / printer / interpreter", "Lean driver JSON codec"]


def make_cases(rng, tier, budget, n=None):
    cases = []
    for i in range(n or budget["cases"]):
        r = random.Random(rng.getrandbits(64))
        _, meta0 = gen.gen_model(r, min_events=1)
        ab = meta0["abstract"]
        ra, rb = random.Random(r.getrandbits(64)), random.Random(r.getrandbits(64))
        as_ode = 0.25 if r.random() < 0.3 else 0.0
        specA, metaA = gen.make_spec(ra, ab, gen.ALL_ROUTES, shuffle=False, member_eq_prob=0.3)
        specB, metaB = gen.make_spec(rb, ab, gen.ALL_ROUTES, shuffle=True, as_ode_prob=as_ode, member_eq_prob=0.3)
        pts = [gen.rand_point(r, meta0) for _ in range(2)]
        cases.append({"A": specA, "B": specB, "routesA": metaA["routes"], "routesB": metaB["routes"],
                      "states": ab["states"], "params": ab["params"],
                      "points": [{k: str(v) for k, v in p.items()} for p in pts]})
    return cases


def search_cases(rng, tier, budget):
    return make_cases(rng, tier, budget, n=budget["cases"] * 3)


def pairs(model, x, t, nS):
    a = np.asarray(model.eventRateVector(x, t), float).ravel()
    V = np.asarray(model.vMat(x, t), float).reshape(nS, len(a))
    return sorted([[float(a[j])] + [float(v) for v in V[:, j]] for j in range(len(a))])


def run_case(case):
    tags, mism, viol = [], [], []
    built = {}
    for v in ("A", "B"):
        lr, model, perr, stage = build_both(case[v])
        mism += [dict(m, what=v + ":" + m["what"]) for m in compare_errors(lr, perr, stage)]
        built[v] = (lr, model, perr, stage)
        for r in set(case["routes" + v]):
            tags.append("route:" + r)
    rej = {v: built[v][2] for v in built}
    if rej["A"] or rej["B"]:
        # every variant is a well-formed way of entering the process set: a rejection of one breaks the property
        for v in ("A", "B"):
            if rej[v]:
                viol.append({"what": "variant %s (routes %s) rejected with %s at %s" % (v, sorted(set(case["routes" + v])), rej[v], built[v][3]),
                             "signature": "route-rejected:%s:%s" % (rej[v], "+".join(sorted(r for r in set(case["routes" + v]) if r in ("event_member_eq",))) or "other"),
                             "detail": json.dumps(case[v])[:1500]})
        return {"nontrivial": False, "mismatches": mism, "violations": viol, "tags": tags + ["rejected"]}
    (lrA, mA, _, _), (lrB, mB, _, _) = built["A"], built["B"]
    sA = [str(s) for s in mA.state_list]; sB = [str(s) for s in mB.state_list]
    pA = [str(p) for p in mA.param_list]; pB = [str(p) for p in mB.param_list]
    if sA != sB or pA != pB:
        viol.append({"what": "declaration styles give different names", "signature": "declaration-names", "detail": "%s %s vs %s %s" % (sA, pA, sB, pB)})
        return {"nontrivial": False, "mismatches": mism, "violations": viol, "tags": tags}
    if sA != lrA["states"] or pA != lrA["params"] or sB != lrB["states"]:
        mism.append({"what": "names", "detail": "python %s lean %s / %s" % (sA, lrA["states"], lrB["states"])})
    nS = len(sA)
    as_ode = "as_ode" in case["routesB"]
    odeA, odeB = list(mA.get_ode_eqn()), list(mB.get_ode_eqn())
    nonzero = False
    for pt in case["points"]:
        env = {k: Fraction(v) for k, v in pt.items()}
        sym_vs_lean(odeA, lrA["ode"], env, "A:get_ode_eqn", mism, tags)
        sym_vs_lean(odeB, lrB["ode"], env, "B:get_ode_eqn", mism, tags)
        try:
            la = [E.ev(e, env) for e in lrA["ode"]]; lb = [E.ev(e, env) for e in lrB["ode"]]
            if not all(E.close(x, y) for x, y in zip(la, lb)):
                mism.append({"what": "lean:A-vs-B", "detail": "model variants differ: %s vs %s" % ([mpf_s(v) for v in la], [mpf_s(v) for v in lb])})
            va = [E.sympy_eval(e, env) for e in odeA]; vb = [E.sympy_eval(e, env) for e in odeB]
        except E.Undefined:
            tags.append("undefined_point"); continue
        if any(abs(v) > 1e-12 for v in va):
            nonzero = True
        if not all(E.close(x, y, rel=mpf("1e-12"), abs_=mpf("1e-13")) for x, y in zip(va, vb)):
            viol.append({"what": "get_ode_eqn() differs between two equivalent specifications", "signature": sig(case),
                         "detail": "A=%s B=%s at %s" % ([mpf_s(v) for v in va], [mpf_s(v) for v in vb], pt)})
        x = fl(env, sA); th = fl(env, pA); t = float(env["t"])
        try:
            mA.parameters = th; mB.parameters = th
            fA = np.asarray(mA.ode(x, t), float).ravel(); fB = np.asarray(mB.ode(x, t), float).ravel()
            JA = np.asarray(mA.jacobian(x, t), float).ravel(); JB = np.asarray(mB.jacobian(x, t), float).ravel()
            if not vec_close(fA, fB, rel=1e-9, abs_=1e-9):
                viol.append({"what": "ode(x,t) differs between equivalent specifications", "signature": sig(case), "detail": "%s vs %s" % (fA.tolist(), fB.tolist())})
            if not vec_close(JA, JB, rel=1e-8, abs_=1e-8):
                viol.append({"what": "jacobian(x,t) differs between equivalent specifications", "signature": sig(case), "detail": "%s vs %s" % (JA.tolist(), JB.tolist())})
            if not as_ode:
                qa, qb = pairs(mA, x, t, nS), pairs(mB, x, t, nS)
                if not multiset_close(qa, qb):
                    viol.append({"what": "(eventRateVector, vMat column) multiset differs between equivalent specifications", "signature": sig(case),
                                 "detail": "%s vs %s" % (qa, qb)})
        except Exception as exc:
            viol.append({"what": "evaluator raised %s: %s" % (type(exc).__name__, str(exc)[:200]), "signature": "evaluator-raise:%s" % type(exc).__name__, "detail": ""})
        if viol:
            break
    return {"nontrivial": bool(nonzero and json.dumps(case["A"], sort_keys=True) != json.dumps(case["B"], sort_keys=True)),
            "mismatches": mism, "violations": viol, "tags": tags + (["as_ode"] if as_ode else []),
            "sample": {"A": case["A"], "B": case["B"]}}


def sig(case):
    ra, rb = set(case["routesA"]), set(case["routesB"])
    return "differs:routes=%s|%s" % (",".join(sorted(ra)), ",".join(sorted(rb)))
