"""
C12 - equivalent ways of specifying a model give the same model.

Each case is ONE abstract process set entered three times: independent route assignments (Event objects, an
Event whose single / member transition carries the rate, bare Transitions given to add_event, the legacy
transition= / birth_death= lists, births named by origin or destination, explicit ODE equations,
incremental add_* calls), different orders, different declaration styles (comma/space strings, lists, tuples)
and different container FORMS of the same arguments (list, tuple, one bare object instead of a one-element list,
assignment to the *_list properties instead of add_*).  The third variant is shaped so that every constructor
keyword receives at most one object (the rest is added incrementally), which is where "one object instead of a
list" applies.

The three variants are alive at the same time and are built in an interleaved schedule fixed by the case:
constructor of one, evaluation, an incremental operation on another, evaluation of a third, ... Every
intermediate model is compared with the specification read up to that operation.

Direct oracle (no Lean): (a) the specification's own ODE - sum rate*net + explicit terms from the abstract
process set, and from the API-level spec for the intermediate models - evaluated by the harness interpreter
(50 digits); its Jacobian by central differences; (b) the real models agree with each other: same
get_ode_eqn() (exact point), same ode/jacobian evaluations, same multiset of (rate, state-change column) pairs.
Correspondence: each variant's real ODE against the driver's assemble of the same spec (also of the prefixes:
Props/C12.lean `staged_build`), and the driver's own variants against each other.  The Lean model has no notion
of container form or of a second instance: a route is a function of the list of objects, `assemble` a function of
the definition - which is exactly what the form / interleaving probes hold the code to.
"""
import copy
import json
import random
from fractions import Fraction

import numpy as np

from .. import exprs as E
from .. import gen, pymodel
from .common import (NAMED_TRAPS, multiset_close, compare_errors, fd_jacobian, fl, lean_assemble, mpf, mpf_s, net_oracle, printer_check,
                     spec_oracle, sym_vs_lean, vec_close, wide_tags)

PROP = "C12"
LEAN = {"module": "Pygom.Props.C12",
        "required": ["Pygom.C12.routes_agree", "Pygom.C12.order_irrelevant", "Pygom.C12.explicit_ode_route",
                     "Pygom.C12.birth_origin_eq_destination", "Pygom.C12.splitDecl_join", "Pygom.C12.assemble_congr",
                     "Pygom.C12.route_member_eq", "Pygom.C12.route_legacy_T", "Pygom.C12.route_legacy_BD", "Pygom.C12.route_bare",
                     "Pygom.C12.staged_build"]}
BUDGET = {"quick": {"cases": 140, "wide": 60}, "thorough": {"cases": 2500, "wide": 1000}}
RULE = ("random process sets (as C01) entered through three independent route assignments / orders / declaration styles / container "
        "forms (list, tuple, bare object, *_list assignment), the three instances built in an interleaved schedule with evaluations "
        "in between (every intermediate model judged against the spec read so far); non-trivial = the specs differ and the ODE is "
        "not identically zero.  WIDE input space (tag `wide`, a fixed number of cases per tier, see C01): trap names, compound "
        "magnitudes (1 - p, n0 + n1, 2*k, k/2, -k, p*(1 - q)) and magnitudes / derived parameters containing a state, numeric constants "
        "and ** powers; every variant hands its strings to pygom in its own SYNTAX - fully parenthesised, or as a user writes them "
        "(natural precedence, no redundant parentheses, blanks, 1e-3 / 1/3 literals; printer checked against Python's grammar) - "
        "which is one more equivalent way of specifying the same model; 8-12 states / parameters / events in some cases")
ASSUMPTIONS = ["expression identity decided by exact evaluation at 2 random rational points (50 digits)",
               "input forms the unchanged pygom rejects with an error (pymodel.ACCEPTED_FORMS lists the accepted ones) are tagged, not judged"]
TRUSTED = ["harness generator / printer / interpreter", "Lean driver JSON codec",
           "natural-precedence printer exprs.user_str (checked on every case it is used for against Python's own parser)"]

THEN_OF = {"event": "add_event", "transition": "add_transition", "birth_death": "add_birth_death", "ode": "add_ode"}


def one_per_keyword(rng, spec):
    """reshape a spec: bare-Transition events go to the legacy keywords half of the time, then every constructor
    keyword keeps at most ONE object and the others are entered incrementally (multiset of processes unchanged)"""
    spec = copy.deepcopy(spec)
    c = spec["ctor"]
    keep = []
    for ev in c["event"]:
        tj = ev.get("transition")
        if tj is not None and rng.random() < 0.6:
            c["transition" if tj["type"] == "T" else "birth_death"].append(tj)
        else:
            keep.append(ev)
    c["event"] = keep
    moved = []
    for key in ("event", "transition", "birth_death", "ode"):
        rng.shuffle(c[key])
        while len(c[key]) > 1:
            it = c[key].pop()
            moved.append(dict(op="add_event", **it) if key == "event" else {"op": THEN_OF[key], "t": it})
    rng.shuffle(moved)
    spec["then"] = list(spec.get("then", [])) + moved
    return spec


def rand_forms(rng, spec, single_prob=0.5):
    """container forms for one variant (see pymodel.build); forms pygom does not accept are drawn too, with small weight"""
    f = {"ctor": {}, "then": []}
    for key, lst in spec["ctor"].items():
        if not lst:
            continue
        u = rng.random()
        if len(lst) == 1 and u < single_prob:
            f["ctor"][key] = "single"
        elif u > 0.8:
            f["ctor"][key] = "tuple"
    if "list" in spec["state"] and rng.random() < 0.1:
        f["state"] = "tuple"
    if "list" in spec["param"] and rng.random() < 0.35:
        f["param"] = "tuple"
    for op in spec.get("then", []):
        f["then"].append(gen.wchoice(rng, [("add", 5), ("setter_list", 2), ("setter_tuple", 1), ("setter_single", 2)]))
    return f


def schedule(rng, specs):
    """an interleaving of [build v] [op v] [eval v]: all instances alive, evaluated before / between / after their
    incremental operations, another instance evaluated between an operation and the next evaluation of its owner"""
    vs = list(specs)
    rng.shuffle(vs)
    sched = []
    for v in vs:
        sched.append(["build", v])
        if rng.random() < 0.8:
            sched.append(["eval", v])
    pending = {v: len(specs[v].get("then", [])) for v in vs}
    while any(pending.values()):
        v = rng.choice([w for w in vs if pending[w]])
        for _ in range(min(pending[v], rng.choice([1, 1, 2, 3]))):
            sched.append(["op", v]); pending[v] -= 1
        if rng.random() < 0.85:
            sched.append(["eval", rng.choice([w for w in vs if w != v])])
            sched.append(["eval", v])
        if pending[v] and rng.random() < 0.15:
            # go on with a copy.deepcopy of the half-built, already evaluated model (the original stays alive)
            sched.append(["clone", v])
    return sched


def case_from_abstract(r, ab, meta0, wide=False):
    """one process set `ab` entered three times (variants A, B, F) + forms + interleaved schedule; `wide`: a syntax per variant"""
    ra, rb, rf = random.Random(r.getrandbits(64)), random.Random(r.getrandbits(64)), random.Random(r.getrandbits(64))
    as_ode = 0.25 if r.random() < 0.3 else 0.0
    specA, metaA = gen.make_spec(ra, ab, gen.ALL_ROUTES, shuffle=False, member_eq_prob=0.3)
    specB, metaB = gen.make_spec(rb, ab, gen.ALL_ROUTES, shuffle=True, as_ode_prob=as_ode, member_eq_prob=0.3)
    specF, metaF = gen.make_spec(rf, ab, ("event", "event_eq", "event_bare", "legacy"), shuffle=True,
                                 as_ode_prob=0.3 if rf.random() < 0.3 else 0.0, member_eq_prob=0.2)
    specF = one_per_keyword(rf, specF)
    if wide:
        # the syntax of the strings is one more "equivalent way of specifying": drawn per variant (None = fully parenthesised)
        for sp_ in (specA, specB, specF):
            if r.random() < 0.8:
                sp_["syntax"] = gen.rand_syntax(r)
    specs = {"A": specA, "B": specB, "F": specF}
    pts = [gen.rand_point(r, meta0) for _ in range(2)]
    return ({"A": specA, "B": specB, "F": specF, "routesA": metaA["routes"], "routesB": metaB["routes"],
                  "routesF": metaF["routes"] + ["one_per_keyword"],
                  "formsA": rand_forms(ra, specA, 0.3), "formsB": rand_forms(rb, specB, 0.3), "formsF": rand_forms(rf, specF, 0.7),
                  "schedule": schedule(r, specs),
                  "states": ab["states"], "params": ab["params"],
                  "abstract": {"states": ab["states"], "params": ab["params"], "procs": ab["procs"], "odes": ab["odes"], "derived": ab["derived"]},
                  "points": [{k: str(v) for k, v in p.items()} for p in pts]})



def wide_options(r, i):
    w = {"names": r.random() < 0.7, "mags": r.random() < 0.85, "state_mags": 0.3, "derived_states": 0.5 if r.random() < 0.5 else 0.0,
         "consts": r.random() < 0.6}
    if i % 15 in (4, 9, 14):
        w["size"] = {4: "many_states", 9: "many_params", 14: "many_events"}[i % 15]
    return w


def wide_cases(rng, n):
    return make_cases(rng, None, None, n=n, wide=True)


def make_cases(rng, tier, budget, n=None, wide=False):
    cases = []
    for i in range(n or budget["cases"]):
        r = random.Random(rng.getrandbits(64))
        w = wide_options(r, i) if wide else None
        _, meta0 = gen.gen_model(r, min_events=1, wide=w)
        ab = meta0["abstract"]
        dup = None
        if i % 5 == 4 and ab["procs"]:
            # the SAME process entered twice (same origin, destination and rate; the same or another magnitude): a set of
            # processes is a multiset - both count on every route (seeded change C12-f1: the legacy route dropped the second)
            dr = random.Random(r.getrandbits(64))
            src = dr.choice(ab["procs"])
            twin = copy.deepcopy(src)
            dup = "same-magnitude"
            if dr.random() < 0.5:
                for tr in twin["transitions"]:
                    tr["mag"] = E.num(dr.randint(1, 3))
                dup = "own-magnitude"
            ab["procs"].insert(dr.randint(0, len(ab["procs"])), twin)
        cases.append(case_from_abstract(r, ab, meta0, wide))
        if dup:
            cases[-1]["duplicate"] = dup
        if wide:
            cases[-1]["wide"] = w
    # the wide cases are drawn AFTER the classic ones (whose random stream is what it was) and spread over the run
    if not wide and budget is not None and budget.get("wide"):
        n_main = n or budget["cases"]
        wide_list = wide_cases(random.Random(rng.getrandbits(64)), budget["wide"] * (n_main // budget["cases"]))
    else:
        wide_list = []
    step = max(1, len(cases) // max(1, len(wide_list)))
    for k, c in enumerate(wide_list):
        cases.insert(min(len(cases), k * (step + 1)), c)
    return cases


def search_cases(rng, tier, budget):
    return make_cases(rng, tier, budget, n=budget["cases"] * 3)


def pairs(model, x, t, nS):
    a = np.asarray(model.eventRateVector(x, t), float).ravel()
    V = np.asarray(model.vMat(x, t), float).reshape(nS, len(a))
    return sorted([[float(a[j])] + [float(v) for v in V[:, j]] for j in range(len(a))])


def form_items(spec, forms):
    """the (kind, key, form, path) of every non-default form that actually applies to this spec"""
    out = []
    for key, fm in (forms.get("ctor") or {}).items():
        lst = spec["ctor"].get(key) or []
        if lst and fm != "list" and not (fm == "single" and len(lst) != 1):
            out.append(("ctor", key, fm, ("ctor", key)))
    for key in ("state", "param"):
        if forms.get(key) == "tuple" and "list" in spec[key]:
            out.append(("decl", key, "tuple", (key,)))
    return out


class Variant(object):
    """one live instance being built in stages"""

    def __init__(self, name, spec, forms, routes):
        self.name, self.spec, self.routes = name, spec, routes
        self.forms = copy.deepcopy(forms or {})
        self.model = None
        self.applied = 0
        self.rejected = None
        self.tags = []
        self.originals = []

    def sig_routes(self):
        if self.originals:
            return ""           # continuing on a deep copy: the signature names just that
        fm = ["%s.%s=%s" % it[:3] for it in form_items(self.spec, self.forms) if it[0] == "ctor"]
        tf = self.forms.get("then") or []
        fm += sorted({"then.%s=%s" % (o["op"], tf[i]) for i, o in enumerate(self.spec.get("then", [])[:self.applied]) if i < len(tf) and tf[i] != "add"})
        return ":" + ",".join(sorted(set(self.routes))) + ("|forms=" + ",".join(fm) if fm else "")

    def build(self, viol):
        for attempt in range(2):
            try:
                self.model = pymodel.build(self.spec, upto=0, forms=self.forms)
                for kind, key, fm, path in form_items(self.spec, self.forms):
                    self.tags.append("form:%s.%s=%s" % (kind, key, fm))
                    if (kind, key, fm) not in pymodel.ACCEPTED_FORMS:
                        self.tags.append("form-newly-accepted:%s.%s=%s" % (kind, key, fm))
                return True
            except Exception as exc:
                unacc = [it for it in form_items(self.spec, self.forms) if (it[0], it[1], it[2]) not in pymodel.ACCEPTED_FORMS]
                if attempt == 0 and unacc:
                    # a form the unchanged pygom does not accept: tagged, not judged; fall back to a list
                    for kind, key, fm, path in unacc:
                        self.tags.append("form-not-accepted:%s.%s=%s:%s" % (kind, key, fm, type(exc).__name__))
                        if kind == "ctor":
                            self.forms["ctor"][key] = "list"
                        else:
                            self.forms.pop(key, None)
                    continue
                self.rejected = pymodel.err_enum(exc)
                acc = ["%s.%s=%s" % it[:3] for it in form_items(self.spec, self.forms)]
                viol.append({"what": "variant %s (routes %s, forms %s) rejected by the constructor with %s: %s" % (
                                 self.name, sorted(set(self.routes)), acc, type(exc).__name__, str(exc)[:150]),
                             "signature": "route-rejected:%s:%s" % (self.rejected, "+".join(sorted(acc)) or (
                                 "+".join(sorted(r for r in set(self.routes) if r in ("event_member_eq",))) or "other")),
                             "detail": json.dumps(self.spec)[:1500]})
                return False
        return False

    def op(self, viol):
        ops = self.spec.get("then", [])
        if self.model is None or self.applied >= len(ops):
            return
        o = ops[self.applied]
        tf = self.forms.get("then") or []
        fm = tf[self.applied] if self.applied < len(tf) else "add"
        try:
            pymodel.apply_then(self.model, o, fm, sx=self.spec.get("syntax"))
            self.tags.append("then:%s=%s" % (o["op"], fm))
            if ("then", o["op"], fm) not in pymodel.ACCEPTED_FORMS:
                self.tags.append("form-newly-accepted:then.%s=%s" % (o["op"], fm))
        except Exception as exc:
            if ("then", o["op"], fm) not in pymodel.ACCEPTED_FORMS:
                self.tags.append("form-not-accepted:then.%s=%s:%s" % (o["op"], fm, type(exc).__name__))
                try:
                    pymodel.apply_then(self.model, o, "add", sx=self.spec.get("syntax"))
                except Exception as exc2:
                    exc = exc2
                else:
                    self.applied += 1
                    return
            self.rejected = pymodel.err_enum(exc)
            viol.append({"what": "variant %s: incremental operation %s (form %s) rejected with %s: %s" % (self.name, o["op"], fm, type(exc).__name__, str(exc)[:150]),
                         "signature": "route-rejected:%s:then.%s=%s" % (self.rejected, o["op"], fm), "detail": json.dumps(o)[:800]})
            self.model = None
            return
        self.applied += 1


def stage_eval(V, env, pt, viol, mism, tags, complete_oracle=None):
    """evaluate variant V as built so far and compare it with the spec read so far (direct oracle) and with the
    driver's assemble of that prefix (correspondence)"""
    m = V.model
    if m is None:
        return
    states = [str(s) for s in m.state_list]; params = [str(p) for p in m.param_list]
    nS = len(states)
    k, n_then = V.applied, len(V.spec.get("then", []))
    where = "variant %s after constructor + %d of %d incremental operations" % (V.name, k, n_then)
    sg = "stage:%s" % ("complete" if k == n_then else "partial")
    if V.originals:
        where += " (the later ones applied to a copy.deepcopy of the evaluated model)"
        sg = "deepcopy-continued"
    try:
        fo = lambda e_: spec_oracle(V.spec, states, e_, upto=k)[0]
        f_o, V_o, a_o, _ = spec_oracle(V.spec, states, env, upto=k)
        J_o = np.array([[float(v) for v in row] for row in fd_jacobian(fo, env, states)]).reshape(nS, nS)
    except (E.Undefined, ValueError):
        tags.append("undefined_point")
        return
    x = fl(env, states); t = float(env["t"])
    try:
        m.parameters = fl(env, params)
        f_n = np.asarray(m.ode(x, t), float).ravel()
        J_n = np.asarray(m.jacobian(x, t), float).reshape(nS, nS)
    except Exception as exc:
        viol.append({"what": "%s: evaluator raised %s: %s" % (where, type(exc).__name__, str(exc)[:200]),
                     "signature": "%s:evaluator-raise:%s" % (sg, type(exc).__name__), "detail": json.dumps(pt)})
        return
    tags.append(sg)
    if not vec_close(f_n, f_o, rel=1e-9, abs_=1e-9):
        viol.append({"what": "%s: ode(x,t) is not the ODE of the processes entered so far" % where, "signature": sg + ":ode" + V.sig_routes(),
                     "detail": "ode=%s expected=%s at %s" % (f_n.tolist(), [mpf_s(v) for v in f_o], pt)})
    if not np.all(np.abs(J_n - J_o) <= 1e-7 + 1e-7 * np.maximum(np.abs(J_n), np.abs(J_o))):
        viol.append({"what": "%s: jacobian(x,t) is not the derivative of the ODE of the processes entered so far" % where,
                     "signature": sg + ":jacobian" + V.sig_routes(), "detail": "jacobian=%s expected=%s at %s" % (J_n.tolist(), J_o.tolist(), pt)})
    if a_o:
        try:
            got = pairs(m, x, t, nS)
            exp = sorted([[float(a_o[j])] + [float(v) for v in V_o[j]] for j in range(len(a_o))])
            if not multiset_close(got, exp):
                viol.append({"what": "%s: (eventRateVector, vMat column) pairs are not the processes entered so far" % where,
                             "signature": sg + ":rates+vmat" + V.sig_routes(), "detail": "got=%s expected=%s at %s" % (got, exp, pt)})
        except Exception as exc:
            viol.append({"what": "%s: eventRateVector/vMat raised %s: %s" % (where, type(exc).__name__, str(exc)[:200]),
                         "signature": "%s:evaluator-raise:%s" % (sg, type(exc).__name__), "detail": json.dumps(pt)})
    # correspondence: the driver's assemble of the same prefix (Props/C12.lean staged_build: building a prefix and
    # folding the remaining operations over it is building the whole)
    if k < n_then:
        lr = lean_assemble(dict(V.spec, then=V.spec["then"][:k]))
        if lr.get("err") is not None:
            mism.append({"what": "%s:prefix:accept/reject" % V.name, "detail": "lean=%s python accepted" % lr.get("err")})
        else:
            try:
                sym_vs_lean(list(m.get_ode_eqn()), lr["ode"], env, "%s:prefix:get_ode_eqn" % V.name, mism, tags)
            except Exception as exc:
                mism.append({"what": "%s:prefix:get_ode_eqn" % V.name, "detail": "raised %s" % exc})


def run_case(case):
    tags, mism, viol = [], [], []
    names = [v for v in ("A", "B", "F") if v in case]
    Vs = {v: Variant(v, case[v], case.get("forms" + v), case["routes" + v]) for v in names}
    lrs = {}
    for v in names:
        lrs[v] = lean_assemble(case[v])
        for r in set(case["routes" + v]):
            tags.append("route:" + r)
    pts = [{k: Fraction(val) for k, val in p.items()} for p in case["points"]]
    sched = case.get("schedule") or ([["build", v] for v in names])
    env0 = pts[0]
    if case.get("duplicate"):
        tags.append("duplicate-process:" + case["duplicate"])
    if case.get("wide") is not None:
        ab_ = case["abstract"]
        tags += wide_tags(case["A"], {"states": ab_["states"], "params": ab_["params"], "derived": [d_[0] for d_ in ab_["derived"]], "procs": ab_["procs"]},
                          case["wide"], NAMED_TRAPS)
        tags += ["syntax:%s=%s" % (v, "natural" if case[v].get("syntax") else "parenthesised") for v in names]
        for v in names:
            printer_check(case[v], env0, mism, tags, who=v + ":")
    for act, v in sched:
        V = Vs[v]
        if act == "build":
            V.build(viol)
        elif act == "op":
            V.op(viol)
        elif act == "eval":
            stage_eval(V, env0, case["points"][0], viol, mism, tags)
        elif act == "clone" and V.model is not None:
            try:
                V.originals.append(V.model)
                V.model = copy.deepcopy(V.model)
                tags.append("continued-on-deepcopy")
            except Exception as exc:
                V.model = V.originals.pop()
                tags.append("deepcopy-raised:%s" % type(exc).__name__)
        if viol:
            break
    if not viol:
        for v in names:                      # whatever the schedule left over
            V = Vs[v]
            if V.model is None and V.rejected is None:
                V.build(viol)
            while V.model is not None and V.applied < len(V.spec.get("then", [])):
                V.op(viol)
    for v in names:
        tags += Vs[v].tags
    # the driver must accept what the real code accepts (and the other way round)
    for v in names:
        perr = Vs[v].rejected
        stage = "build" if perr else None
        if perr is None and Vs[v].model is not None and not viol:
            try:
                Vs[v].model.get_ode_eqn(); Vs[v].model.get_StateChangeMatrix(); Vs[v].model.get_EventRateVector(); Vs[v].model.get_pureOdeVector()
            except Exception as exc:
                perr, stage = pymodel.err_enum(exc), "assemble"
                Vs[v].rejected = perr
                viol.append({"what": "variant %s (routes %s) rejected with %s at assemble" % (v, sorted(set(case["routes" + v])), perr),
                             "signature": "route-rejected:%s:%s" % (perr, "+".join(sorted(r for r in set(case["routes" + v]) if r in ("event_member_eq",))) or "other"),
                             "detail": json.dumps(case[v])[:1500]})
        if not viol or perr:
            mism += [dict(m, what=v + ":" + m["what"]) for m in compare_errors(lrs[v], perr, stage)]
    if viol or any(Vs[v].model is None for v in names):
        return {"nontrivial": False, "mismatches": mism, "violations": viol, "tags": tags + ["rejected" if any(Vs[v].rejected for v in names) else "stage-violation"],
                "sample": {v: case[v] for v in names}}
    mA, lrA = Vs["A"].model, lrs["A"]
    sA = [str(s) for s in mA.state_list]; pA = [str(p) for p in mA.param_list]
    for v in names[1:]:
        sB = [str(s) for s in Vs[v].model.state_list]; pB = [str(p) for p in Vs[v].model.param_list]
        if sA != sB or pA != pB:
            viol.append({"what": "declaration styles give different names", "signature": "declaration-names", "detail": "%s %s vs %s %s" % (sA, pA, sB, pB)})
            return {"nontrivial": False, "mismatches": mism, "violations": viol, "tags": tags}
        if sB != lrs[v]["states"] or pB != lrs[v]["params"]:
            mism.append({"what": "names", "detail": "python %s lean %s" % (sB, lrs[v]["states"])})
    if sA != lrA["states"] or pA != lrA["params"]:
        mism.append({"what": "names", "detail": "python %s lean %s" % (sA, lrA["states"])})
    ab = case.get("abstract")
    if ab is not None and (sA != ab["states"] or pA != ab["params"]):
        viol.append({"what": "declared names / order not kept", "signature": "declaration-names", "detail": "%s %s declared %s %s" % (sA, pA, ab["states"], ab["params"])})
        return {"nontrivial": False, "mismatches": mism, "violations": viol, "tags": tags}
    nS = len(sA)

    def sg(v, pre=""):
        if Vs[v].originals or (not pre and Vs["A"].originals):
            return "deepcopy-continued:final"
        return pre + sig(case, v)
    odes = {v: list(Vs[v].model.get_ode_eqn()) for v in names}
    nonzero = False
    for pt in case["points"]:
        env = {k: Fraction(val) for k, val in pt.items()}
        ref = None
        if ab is not None:
            try:
                ref = net_oracle({"states": ab["states"], "procs": ab["procs"], "odes": ab["odes"]}, {"derived": ab["derived"]}, env)
            except E.Undefined:
                ref = None
        for v in names:
            sym_vs_lean(odes[v], lrs[v]["ode"], env, v + ":get_ode_eqn", mism, tags)
        try:
            lv = {v: [E.ev(e, env) for e in lrs[v]["ode"]] for v in names}
            for v in names[1:]:
                if not all(E.close(x, y) for x, y in zip(lv["A"], lv[v])):
                    mism.append({"what": "lean:A-vs-" + v, "detail": "model variants differ: %s vs %s" % ([mpf_s(z) for z in lv["A"]], [mpf_s(z) for z in lv[v]])})
            sv = {v: [E.sympy_eval(e, env) for e in odes[v]] for v in names}
        except E.Undefined:
            tags.append("undefined_point"); continue
        if any(abs(z) > 1e-12 for z in sv["A"]):
            nonzero = True
        for v in names[1:]:
            if not all(E.close(x, y, rel=mpf("1e-12"), abs_=mpf("1e-13")) for x, y in zip(sv["A"], sv[v])):
                viol.append({"what": "get_ode_eqn() differs between two equivalent specifications (A, %s)" % v, "signature": sg(v),
                             "detail": "A=%s %s=%s at %s" % ([mpf_s(z) for z in sv["A"]], v, [mpf_s(z) for z in sv[v]], pt)})
        if ref is not None:
            for v in names:
                if not all(E.close(x, y, rel=mpf("1e-12"), abs_=mpf("1e-13")) for x, y in zip(sv[v], ref[0])):
                    viol.append({"what": "get_ode_eqn() of variant %s is not the ODE of the process set" % v, "signature": sg(v, "spec:"),
                                 "detail": "%s=%s expected=%s at %s" % (v, [mpf_s(z) for z in sv[v]], [mpf_s(z) for z in ref[0]], pt)})
        x = fl(env, sA); th = fl(env, pA); t = float(env["t"])
        try:
            num = {}
            for v in names:        # interleaved: all parameters first, then the evaluators instance by instance
                Vs[v].model.parameters = th
            for v in names:
                m = Vs[v].model
                num[v] = (np.asarray(m.ode(x, t), float).ravel(), np.asarray(m.jacobian(x, t), float).ravel())
            for v in names:
                as_ode_v = "as_ode" in case["routes" + v]
                q = None if as_ode_v else pairs(Vs[v].model, x, t, nS)
                num[v] = num[v] + (q,)
            for v in names[1:]:
                if not vec_close(num["A"][0], num[v][0], rel=1e-9, abs_=1e-9):
                    viol.append({"what": "ode(x,t) differs between equivalent specifications (A, %s)" % v, "signature": sg(v),
                                 "detail": "%s vs %s" % (num["A"][0].tolist(), num[v][0].tolist())})
                if not vec_close(num["A"][1], num[v][1], rel=1e-8, abs_=1e-8):
                    viol.append({"what": "jacobian(x,t) differs between equivalent specifications (A, %s)" % v, "signature": sg(v),
                                 "detail": "%s vs %s" % (num["A"][1].tolist(), num[v][1].tolist())})
                if num["A"][2] is not None and num[v][2] is not None and not multiset_close(num["A"][2], num[v][2]):
                    viol.append({"what": "(eventRateVector, vMat column) multiset differs between equivalent specifications (A, %s)" % v,
                                 "signature": sg(v), "detail": "%s vs %s" % (num["A"][2], num[v][2])})
            if ref is not None:
                exp = sorted([[float(ref[2][j])] + [float(z) for z in ref[1][j]] for j in range(len(ref[2]))])
                for v in names:
                    if not vec_close(num[v][0], ref[0], rel=1e-9, abs_=1e-9):
                        viol.append({"what": "ode(x,t) of variant %s is not the ODE of the process set" % v, "signature": sg(v, "spec:"),
                                     "detail": "%s expected %s at %s" % (num[v][0].tolist(), [mpf_s(z) for z in ref[0]], pt)})
                    if num[v][2] is not None and not multiset_close(num[v][2], exp):
                        viol.append({"what": "(eventRateVector, vMat column) pairs of variant %s are not the process set" % v, "signature": sg(v, "spec:"),
                                     "detail": "%s expected %s at %s" % (num[v][2], exp, pt)})
        except Exception as exc:
            viol.append({"what": "evaluator raised %s: %s" % (type(exc).__name__, str(exc)[:200]), "signature": "evaluator-raise:%s" % type(exc).__name__, "detail": ""})
        if viol:
            break
    distinct = len({json.dumps(case[v], sort_keys=True) for v in names}) > 1
    return {"nontrivial": bool(nonzero and distinct),
            "mismatches": mism, "violations": viol, "tags": tags + (["as_ode"] if any("as_ode" in case["routes" + v] for v in names) else []),
            "sample": {v: case[v] for v in names}}


def sig(case, v="B"):
    ra, rb = set(case["routesA"]), set(case["routes" + v])
    return "differs:routes=%s|%s" % (",".join(sorted(ra)), ",".join(sorted(rb)))
