"""
C02 - deterministic solvers return the ODE solution at each requested time   (PARTIAL: solver accuracy assumed)

Two ties between Pygom/Integrate.lean (theorems in Pygom/Props/C02.lean) and the real code:

(i)  bookkeeping, exact ("fake" cases).  For the duration of one call `scipy.integrate.ode` (the attribute
     `ode_utils` resolves at call time) is replaced by an exact integrator of x' = c on dyadic rationals whose
     `.y` returns either its internal, reused buffer (LSODA-like) or a fresh array, per integrator, as the case
     says.  The real `integrateFuncJac`, `integrate2`, `_integrate2` (and `integrate`/`solve_determ` against an
     exact `odeint`) run against it; the Lean driver runs its model with the same aliasing table, the same
     eigenvalue summary and copyOnRead = true; rows, chosen methods, created integrators and eigenvalue records
     must agree exactly.
(ii) runtime + DIRECT ORACLE ("model"/"catalogue" cases).  Every real entry point x method x full_output x
     includeOrigin runs on bounded random models and catalogue models; every row is compared with an
     independent reference: scipy.integrate.solve_ivp DOP853 rtol=atol=1e-12 (Radau cross-check on a subset)
     on the right-hand side built from the Lean driver's `assemble` ODE expressions evaluated in float.
     A failure there is a violation of the property itself.
(i') exact, sessions ("fakesession" cases).  The Lean model of ONE call is a pure function of (cfg, x0, t0, grid, flow);
     `Inst`/`SOp`/`runOps` (Integrate.lean) add the instance state the entry points carry between calls (`_x0`, `_t0`,
     `_odeTime`, `_odeSolution`) and `session_is_pure` / `earlier_results_kept` / `solve_reads_current` (Props/C02.lean)
     prove that it never matters.  A random list of assignments (initial_state / initial_time / initial_values) and solves
     (integrate, solve_determ, integrate2; few grids, so the same grid comes back after a change) is applied to one fresh
     real model against the fake integrator and to the driver's `runOps`; all returned arrays are read at the end.
(iii) DIRECT ORACLE, sessions ("session" cases): histories on one instance, sibling instances, input forms - see the
     comment above `ENTRY_CONFIGS`.
"""
import json
import math
import random
from fractions import Fraction

import numpy as np

from .. import exprs as E
from .. import gen, leanio

PROP = "C02"
LEAN = {"module": "Pygom.Props.C02", "extra_modules": ["Pygom.Lemmas.Integrate"],
        "required": ["Pygom.C02.rows_correct", "Pygom.C02.rows_aliased", "Pygom.C02.integrate_rows",
                     "Pygom.C02.integrate2_rows", "Pygom.C02.solve_determ_rows", "Pygom.C02.method_dispatch",
                     "Pygom.C02.session_is_pure", "Pygom.C02.earlier_results_kept", "Pygom.C02.solve_reads_current",
                     "Pygom.C02.solve2_reads_current", "Pygom.C02.stale_grid_counterexample",
                     "Pygom.C02.row_at_requested_time", "Pygom.C02.repeated_times_equal_rows", "Pygom.C02.rows_translation_invariant",
                     "Pygom.C02.repeated_time_shortcut_counterexample"]}
BUDGET = {"quick": {"fake": 240, "fake_sessions": 120, "models": 114, "catalogue": 20, "radau_every": 2, "cython": 1,
                    "history": 48, "siblings": 30, "forms": 24, "entries_per_session": 5, "wide": 30, "scaled": 8},
          "thorough": {"fake": 4000, "fake_sessions": 2000, "models": 2280, "catalogue": 60, "radau_every": 4, "cython": 8,
                       "history": 240, "siblings": 160, "forms": 100, "entries_per_session": 5, "wide": 400, "scaled": 80}}
RULE = ("fake-integrator cases: random entry point (integrateFuncJac, integrate2, _integrate2, integrate, solve_determ), "
        "1-4 states, dyadic x0/c/t0 (a quarter with t0 moved by +-738000, +-1e4, 2^20, -2^24; spacings down to 1/1024), grid kind (uniform, non-uniform incl. repeated/unsorted times, one point, scalar, empty, "
        "not-a-time, None), container (list/tuple/ndarray/int/float/np.float64), method in {None,lsoda,vode,ivode,dopri5,dop853, "
        "unknown strings}, full_output, includeOrigin, random aliasing table per integrator, random eigenvalue summary (incl. the "
        "thresholds 0 and -2 exactly); non-trivial when the call returned rows that agree with the model. "
        "Runtime cases: random models from harness/gen.py (1-4 states, 1-4 events, all routes, derived parameters, "
        "explicit ODE terms; parameters in [1/8,1], x0 in [1/4,2], horizon min(Tmax, 2/|J(x0)|), uniform or non-uniform grid of "
        "2-8 points, list or ndarray), families dealt from a deck by weight: general autonomous 10, general with time-dependent (periodic) "
        "rates 3, one state / one parameter 2, and models at most FIRST ORDER IN THE STATES (linear_ode() is True): pure linear chains 3, "
        "constant inflow / birth 4, constant explicit ODE terms 4, time-dependent coefficients multiplying states 4, mixtures 4, symmetric "
        "Jacobian 2, all-zero Jacobian (constant and time-only terms) 2 - each routed as events only, explicit ODE terms only or any API route; "
        "BOUNDARY VALUES: 12 % with parameters exactly zero, 12 % with initial states exactly zero (some or all); "
        "and catalogue models of pygom.common_models (SIS, SIR, SEIR, Lotka_Volterra, SIR_norm, "
        "FitzHugh, vanDerPol, Lorenz, the time-dependent SIS_Periodic and the stiff Robertson system (odeint / lsoda / bdf entry points only); "
        "equations re-written by hand from their docstrings / source). SCENARIO of every runtime case: t0 near the origin (0, 1/2, -1, 3) or, 40 %, far "
        "from it with both signs (+-738000, +-1e4, +-1e6, -123456.5, 1e7, 738000.5: spacing below 1e-5 |t|; a case whose whole horizon is shorter than 1e6 ulps of t is rejected), horizon x 1 / 2^-10 / 2^-20 / 2^-30 "
        "(t0 + tiny) / x 8 for decaying models (long); GRID MODIFICATIONS (weights none 10, repeat 3, tiny 2, ulp 1, at-t0 1, ulp-from-t0 1, one 2): "
        "times repeated twice or three times, neighbours 4 / 2^12 / 2^16 / 2^20 ulps apart (a case with a step between 32 and 2048 ulps is rejected: a "
        "freshly started vode is silently off by 6e-6 there, measured without pygom), neighbours one ulp apart, a first time equal to t0, a first "
        "time one ulp after t0, a one-point grid. Every row is judged against the reference integrated in the REAL time (repeated times share "
        "a row, a time equal to t0 gets x0); on a grid with a step of at most 32 ulps an IntegrationError of the scipy.integrate.ode based entry "
        "points is tagged `zero-length-step:*:not-judged` (unchanged scipy refuses such steps for some integrators / states), anything RETURNED is "
        "judged; when the first output lies within 4 ulps of t0 scipy's own odeint returns uninitialised rows (lsoda: 'tout too close to t') and "
        "the odeint-based entry points are not judged. All x 43 entry-point configurations "
        "(integrate x2, solve_determ x2, integrate2 x 6 methods x full_output, integrateFuncJac x 6 methods x full_output x "
        "includeOrigin, scalar t x3); non-trivial when the reference solution moves by >1e-3 and every configuration was judged. "
        "Fake sessions: 4-14 operations on one fresh model (initial_state / initial_time / initial_values assignments, integrate, "
        "solve_determ, integrate2 with random method and full_output; grids drawn from a pool of 1-3 lists and a scalar so that a "
        "grid is asked again after the instance changed; empty / not-a-time / None arguments) against the driver's runOps; "
        "non-trivial when at least two solves returned rows and everything agrees. "
        "Sessions (direct oracle only; every solve judged against the reference for its own inputs, returned arrays kept and "
        "compared after every later call with the copy taken on return, every list/array/dict handed in compared with the copy "
        "taken before (a write into it is a side effect: tagged, a mismatch with the pure model, not a violation), repeated solves with equal values compared bit for bit): the 40 entry-point configurations (integrate x2, "
        "solve_determ x2, integrate2 x12, integrateFuncJac x24) are dealt round-robin, 5 per session. HISTORY (one instance, random "
        "model or pygom.common_models object): solve on (A, G0); then per dimension, in random order, change one of {t0, x0, "
        "parameters (redrawn or the same values bound to other names), t0 and x0, grid: same length other values / same length and "
        "end points other interior / superset / subset / last time as a scalar, t0 and grid together, container, method, "
        "full_output, includeOrigin, entry point; parameters given scipy.stats distributions (half of the time used by a random "
        "solve_determ) and then their plain numbers again; a grid with repeated times; 12 %: an assignment the unchanged pygom rejects - x0 / "
        "parameter array of the wrong length, unknown parameter name, a string or a list as initial time - after which everything it could have touched "
        "is assigned again (`history=...+after-rejected-input`)}, solve, restore, solve; only what differs from what the instance was last given "
        "is re-assigned (initial_time / initial_state or initial_values; parameters as dict / partial dict / (name, value) tuples / "
        "list or ndarray in declaration order). SIBLINGS: live instances with the same names - parameter list (40%: and state list) "
        "declared in another order with other values (half of the time the same values on other names), a re-defined derived "
        "parameter or an extra term, a twin re-built and a deepcopy taken in mid-history - solved interleaved, the first one "
        "moved to the second one's parameter values and back. FORMS (integer-valued x0, t0 and times, T = 1 or 1/2): grid as "
        "list / tuple / ndarray / list of np.float64 / int list / int64 / int32 / mixed int-float / Python, numpy, integer scalar, "
        "x0 as ndarray / list / tuple / int64 / int list / int tuple / mixed, t0 as float / np.float64 / int / np.int64, all-integer "
        "combinations, integer x0 and t0 with a fractional grid, a grid whose first time is t0 (IntegrationError of the "
        "scipy.integrate.ode based entry points on a zero-length step is tagged, not judged). A session is non-trivial when every "
        "reference moved by >1e-3, at least one solve was judged and (history, siblings) at least one changed configuration has a "
        "reference differing by >1e-3 from the first one's. Sessions sit near the origin or (30 %) far from it (tbase +-738000, +-1e4, 1e6, "
        "-1e6, -123456.5); a quarter of their generated models are first order in the states, a fifth time-dependent. "
        "WIDE-RATIO GRIDS (round d; `wide` runtime cases, t0 in {0, 1/2, -1, 3}, generated models of 8 families, every non-stiff catalogue "
        "member and the scaled ones, all 43 configurations): log-spaced t0 + T 10^linspace(-d, 0, n) with d in {3, 4, 5, 6, 8, 10}, n = 5..25 "
        "(ratio longest gap / first gap 1e2 .. 1e11); a first time T 10^-d after t0 followed by n uniform times; a fine burst T 10^-d (1, 2, 3) "
        "followed by uniform times; every sixth case the stiff catalogue member Robertson on its DOCUMENTED grid 4*logspace(-6, e, n), "
        "e in {2, 4, 6}, n in {13, 25, 37, 61} (e = 2: odeint / lsoda / bdf entry points; e > 2: the odeint-based entry points integrate "
        "and solve_determ only - the documentation and the repository's tests run `integrate` there; the ode-based ones give up with "
        "IntegrationError at nsteps = 10000, rtol = 1e-10 on the unchanged tree) - tags wide-grid:*, gap-ratio:1e<k>. "
        "SCALES (`scaled` catalogue, on the ordinary and on the wide grids): the catalogue equations on head counts (SIR N = 1e6, 1e8; SEIR "
        "N = 1e7; SIR_norm with a mass-action rate of 5e-9 per person) and on tiny fractions (SIR_norm with I0 = 1e-4, 1e-6); acceptance "
        "|row - ref| <= acc (floor + |ref|) with floor = 1 except for the tiny-valued members (floor = 1e-4, 1e-5: relative per entry down to "
        "the smallest component of interest; acc = max(1e-6, 20 x the error of scipy's own solver on the instance in that metric))")
ASSUMPTIONS = ["PARTIAL: scipy's integrators (odeint; ode: lsoda/vode/dopri5/dop853) approximate the flow within tolerance - a "
               "hypothesis of the Lean theorems (Laws S: identity + semigroup of an ideal flow), validated on every run: "
               "|row - ref| <= 1e-6 (1+|ref|) against solve_ivp DOP853 rtol=atol=1e-12 (Radau cross-check <= 1e-8 on a subset)",
               "odeint-based entry points (integrate, solve_determ) run at scipy's default tolerance 1.49e-8: on instances where "
               "scipy's own odeint on the Lean right-hand side (no pygom involved) is itself further than 5e-8 (1+|ref|) from the "
               "reference, their acceptance is 20 x that error instead of 1e-6 (tagged odeint-acceptance=20x-direct-odeint-error)",
               "grids with a zero-length or few-ulp (<= 32) step (repeated times, a first time at or next to t0) are inside the property's domain only "
               "where the unchanged pygom / scipy return rows: an IntegrationError of the ode-based entry points there is tagged, not judged "
               "(which integrator refuses depends on the method, on full_output and, through the eigenvalue-driven restart, on the state); "
               "pygom.integrate does not look at odeint's success flag, so where scipy's odeint itself fails (first output within 4 ulps of "
               "t0) its rows are uninitialised memory - observed, outside the assumption 'the solver approximates the flow', not judged",
               "an IntegrationError raised by an scipy.integrate.ode based entry point, or a row off the reference returned by one, is not judged "
               "when scipy's own integrator for that method (Lean right-hand side, no pygom; one object through the grid and a fresh one per "
               "step) fails or is off by more than 1e-7 (1+|ref|) on the same instance (observed far from the origin: derivative exactly zero "
               "at x0 - lsoda reports illegal input; vode-bdf silently off by 3e-4 on one particular step): tagged scipy-ode-*-this-instance",
               "random runtime instances are restricted to well-conditioned ones: reference exists, |x| <= 1e3, "
               "exp(int max(mu_2(J),0) dt) <= 20 along the reference, odeint at 1e-10 within 1e-8 (1+|ref|); others are rejected, "
               "counted in the input distribution, never judged",
               "scipy's set_initial_value copies its argument and an aliased r.y is overwritten by the next integrate (measured "
               "on the real scipy before every run, recorded as aliased_measured_on_real_scipy)",
               "np.array(solution) reads list cells only at the end of integrateFuncJac",
               "sessions: the same acceptance as the runtime cases, per (instance definition, configuration) on the union of the "
               "times asked of it; fixed-horizon (integer-time) instances are attempted only when |J(x0)| x horizon <= 4; input "
               "spellings the unchanged pygom rejects (range objects, 0-d arrays as t0, pickling a model) are not probed; "
               "bit-for-bit reproducibility of repeated solves is demanded of one instance only (a re-built twin may order sums "
               "differently) and its failure is a mismatch with the pure model, a violation only when off the reference"]
TRUSTED = ["harness fake integrator (exact dyadic arithmetic in float64)", "harness float evaluator of the Lean ODE expressions",
           "scipy.integrate.solve_ivp DOP853/Radau as reference", "Lean driver JSON codec and `assemble` (tied to pygom by C01)",
           "hand-written catalogue equations (docstrings of pygom.common_models)"]

INTEGRATORS = ["lsoda", "vode", "vode:bdf", "dopri5", "dop853"]
METHODS = [None, "lsoda", "vode", "ivode", "dopri5", "dop853"]
DOC_INTEGRATOR = {"lsoda": "lsoda", "vode": "vode", "ivode": "vode:bdf", "dopri5": "dopri5", "dop853": "dop853"}
TOL = 1e-6
AMP_MAX = 20.0


# ------------------------------------------------------------------------------------------------
# measurement of `aliased` on the real scipy
# ------------------------------------------------------------------------------------------------
def measure_aliased():
    import scipy.integrate as si
    f = lambda t, y: np.array([-y[0] + y[1], -2.0 * y[1]])
    jac = lambda t, y: np.array([[-1.0, 1.0], [0.0, -2.0]])
    out = {}
    for name, kw in [("lsoda", {}), ("vode", {}), ("vode:bdf", {"method": "bdf"}), ("dopri5", {}), ("dop853", {})]:
        x0 = np.array([1.0, 2.0])
        r = si.ode(f, jac).set_integrator(name.split(":")[0], **kw)
        r.set_initial_value(x0, 0.0)
        init_copied = not np.shares_memory(r.y, x0)
        r.integrate(0.5)
        a = r.y
        av = a.copy()
        r.integrate(1.0)
        b = r.y
        out[name] = {"aliased": bool(np.shares_memory(a, b)), "first_read_overwritten": bool(not np.array_equal(a, av)),
                     "set_initial_value_copies": bool(init_copied)}
    return out


def pre(tier):
    m = measure_aliased()
    broken = []
    for k, v in m.items():
        if not v["set_initial_value_copies"]:
            broken.append({"obligation": "assumption: set_initial_value copies its argument (%s)" % k,
                           "detail": "the model's full-output path assumes a fresh buffer per integrator"})
        if v["aliased"] != v["first_read_overwritten"]:
            broken.append({"obligation": "assumption: an aliased r.y is overwritten by the next integrate (%s)" % k, "detail": str(v)})
    return {"broken": broken, "obligations": 2, "discharged": 2 - min(2, len(broken)),
            "coverage": {"aliased_measured_on_real_scipy": {k: v["aliased"] for k, v in m.items()},
                         "model_copyOnRead": True}}


# ------------------------------------------------------------------------------------------------
# case generation
# ------------------------------------------------------------------------------------------------
def fr(x):
    f = Fraction(x)
    return str(f.numerator) if f.denominator == 1 else "%d/%d" % (f.numerator, f.denominator)


def dyadic(rng, lo, hi, den=8):
    return Fraction(rng.randint(lo * den, hi * den), den)


def gen_fake(rng):
    entry = gen.wchoice(rng, [("integrateFuncJac", 8), ("integrate2", 4), ("_integrate2", 2), ("integrate", 1), ("solve_determ", 1)])
    n = rng.randint(1, 4)
    x0 = [dyadic(rng, -4, 4) for _ in range(n)]
    c = [dyadic(rng, -3, 3) for _ in range(n)]
    t0 = dyadic(rng, -2, 2, 4)
    if rng.random() < 0.25:     # far from the origin, both signs (the bookkeeping must not look at the size of t)
        t0 += rng.choice([738000, -738000, 10000, -10000, 2 ** 20, -(2 ** 24)])
    kinds = [("uniform", 4), ("nonuniform", 5), ("one", 2), ("scalar", 2), ("empty", 1), ("other", 1)]
    if entry == "_integrate2":
        kinds = [("uniform", 4), ("nonuniform", 5), ("one", 2)]
    if entry == "solve_determ":
        kinds.append(("none", 1))
    gk = gen.wchoice(rng, kinds)
    container = rng.choice(["list", "tuple", "ndarray"])
    if gk == "uniform":
        h = Fraction(rng.randint(1, 8), rng.choice([8, 8, 8, 64, 1024]))
        k = rng.randint(2, 9)
        start = t0 + (h if rng.random() < 0.8 else 0)
        t = {"list": [fr(start + i * h) for i in range(k)]}
    elif gk == "nonuniform":
        k = rng.randint(2, 9)
        cur = t0
        ts = []
        for _ in range(k):
            cur = cur + Fraction(rng.randint(0 if rng.random() < 0.1 else 1, 16), 8)
            ts.append(cur)
        if rng.random() < 0.1:
            rng.shuffle(ts)     # the bookkeeping does not care about monotonicity
        t = {"list": [fr(v) for v in ts]}
    elif gk == "one":
        t = {"list": [fr(t0 + dyadic(rng, 0, 3))]}
    elif gk == "scalar":
        t = {"scalar": fr(t0 + dyadic(rng, 0, 3))}
        container = rng.choice(["int_or_float", "np.float64"])
    elif gk == "empty":
        t = {"list": []}
    elif gk == "none":
        t = {"none": True}
    else:
        t = {"other": True}
        # solve_determ(None) is its own branch (grid kind "none"): InputError before integrate is reached
        container = rng.choice(["str", "dict"] if entry == "solve_determ" else ["None", "str", "dict"])
    method = gen.wchoice(rng, [(None, 3), ("lsoda", 2), ("vode", 2), ("ivode", 2), ("dopri5", 2), ("dop853", 2),
                               ("rk45", 1), ("LSODA", 1)])
    al = rng.choice(["random", "random", "lsoda_only", "none", "all"])
    if al == "random":
        aliased = {k: rng.random() < 0.5 for k in INTEGRATORS}
    else:
        aliased = {k: (al == "all") or (al == "lsoda_only" and k == "lsoda") for k in INTEGRATORS}

    def coef():
        if rng.random() < 0.35:
            return [fr(rng.choice([0, -2, -1, 1, Fraction(-5, 2), Fraction(-1, 2)])), "0", "0"]
        return [fr(dyadic(rng, -4, 2)), fr(dyadic(rng, -1, 1, 4)), fr(dyadic(rng, -1, 1, 4))]
    return {"kind": "fake", "entry": entry, "x0": [fr(v) for v in x0], "c": [fr(v) for v in c], "t0": fr(t0), "t": t,
            "grid_kind": gk, "container": container, "method": method, "full_output": rng.random() < 0.5,
            "includeOrigin": rng.random() < 0.5, "aliased": aliased, "eigA": coef(), "eigB": coef()}


T0_NEAR = ["0", "0", "1/2", "-1", "3"]
# far from the origin, both signs: calendar-style ordinal days, 1e4 .. 1e7
# (not further out: at |t| = 1e8 one ulp is 1.5e-8 and scipy's integrators themselves lose the 1e-8 accuracy the acceptance needs)
T0_FAR = ["738000", "-738000", "10000", "-10000", "1000000", "-246913/2", "10000000", "-1000000", "1476001/2"]
HSCALE_TINY = ["1/1024", "1/1048576", "1/1073741824"]
GRID_MODS = [("none", 10), ("repeat", 3), ("tiny", 2), ("ulp", 1), ("at-t0", 1), ("ulp-from-t0", 1), ("one", 2)]
MODEL_FAMILIES = [("general", 10), ("general-time", 3), ("tiny-model", 2), ("chain", 3), ("inflow", 4), ("const-ode", 4), ("timecoef", 4),
                  ("mixed", 4), ("symmetric", 2), ("zero-jacobian", 2)]
AFFINE = ("chain", "inflow", "const-ode", "timecoef", "mixed", "symmetric", "zero-jacobian")


def gen_scenario(rng, far_ok=True, long_ok=False):
    """where on the time axis and on what kind of grid: (t0, horizon scale, grid modifications)"""
    far = far_ok and rng.random() < 0.4
    t0 = rng.choice(T0_FAR if far else T0_NEAR)
    r = rng.random()
    if r < 0.72:
        hs = "1"
    elif r < 0.9:
        hs = rng.choice(HSCALE_TINY[:1] if far else HSCALE_TINY)      # far away 2^-30 of a horizon is below one ulp
    else:
        hs = "8" if long_ok else "1"
    if abs(Fraction(t0)) >= 10 ** 7:
        hs = "1"            # a horizon of 1e-3 there is only 5e5 ulps long: the integrators' own steps are quantised
    mods = []
    k = gen.wchoice(rng, GRID_MODS)
    if k == "repeat":
        mods = [{"op": "repeat", "i": rng.randrange(8), "n": rng.choice([1, 1, 2])} for _ in range(rng.randint(1, 2))]
    elif k == "tiny":
        # (never between 32 and 2048 ulps: a freshly started vode is silently wrong by 6e-6 on a 64..256-ulp step at |t| = 1e6)
        mods = [{"op": "tiny", "i": rng.randrange(8), "ulps": rng.choice([4, 2 ** 12, 2 ** 16, 2 ** 20])} for _ in range(rng.randint(1, 2))]
    elif k == "ulp":
        mods = [{"op": "ulp", "i": rng.randrange(8)}]
    elif k != "none":
        mods = [{"op": k, "i": rng.randrange(8)}]
    return t0, hs, mods


def _ulp_after(v):
    """the next float after v; next to zero (where that would be a subnormal number no integrator can step to) 2^-60"""
    v = float(v)
    return float(np.nextafter(v, np.inf)) if abs(v) >= 1e-300 else 2.0 ** -60


def apply_gridmods(t0, grid, mods):
    """the float grid actually requested (deterministic in the case): repeated times, neighbours a few ulps apart,
    a first time equal to / one ulp after t0, a one-point grid"""
    g = [float(v) for v in grid]
    for m in mods:
        i = m.get("i", 0) % len(g)
        if m["op"] == "repeat":
            g = g[:i + 1] + [g[i]] * m.get("n", 1) + g[i + 1:]
        elif m["op"] == "ulp":
            g = g[:i + 1] + [_ulp_after(g[i])] + [v for v in g[i + 1:] if v > _ulp_after(g[i])]
        elif m["op"] == "tiny":
            v = g[i] + m["ulps"] * float(np.spacing(abs(g[i]) if g[i] else 1.0))
            if i + 1 >= len(g) or v < g[i + 1]:
                g = g[:i + 1] + [v] + g[i + 1:]
        elif m["op"] == "at-t0":
            g = [float(t0)] + g
        elif m["op"] == "ulp-from-t0":
            g = [_ulp_after(t0)] + [v for v in g if v > _ulp_after(t0)]
        elif m["op"] == "one":
            g = [g[i]]
    return g


def degenerate_steps(t0, grid, lo=-1, hi=32):
    """steps of the requested grid (t0 -> first time included) that are zero or at most 32 ulps long: scipy's `ode` integrators
    report failure for (some of) them (every integrator up to 2 ulps, dopri5 / dop853 up to 16) and pygom raises IntegrationError.
    With (lo, hi) = (32, 2048): the steps in the range where scipy's integrators neither refuse nor are accurate."""
    out, prev = [], float(t0)
    for j, t in enumerate(grid):
        u = float(np.spacing(max(abs(t), abs(prev))))
        if lo * u < abs(t - prev) <= hi * u or (lo < 0 and t == prev):
            out.append(j)
        prev = t
    return out


def _proc(rate, kind, trs):
    return {"rate": rate, "kind": kind, "transitions": trs}


def gen_affine_spec(rng, family):
    """models whose right-hand side is at most first order in the states (so that `linear_ode()` is True): pure linear chains,
    constant inflow / birth, constant explicit ODE terms, time-dependent coefficients multiplying states, mixtures, a symmetric
    Jacobian, an all-zero Jacobian - built as an abstract process set and routed through the API like every generated model"""
    nS = rng.randint(2 if family == "symmetric" else 1, 4)
    states = rng.sample(gen.STATE_POOL, nS)
    params = rng.sample(gen.PARAM_POOL, rng.randint(1, 4))
    a = lambda: V(rng.choice(params))
    mag = lambda: N_(rng.randint(1, 2))
    wave = lambda: E.add(N_(1), E.mul(E.num(1, 2), E.fn(rng.choice(["cos", "sin"]), E.mul(rng.choice([N_(1), N_(3), E.mul(N_(2), E.PI)]), V("t")))))
    procs, odes = [], []

    def linear(timedep=False):
        if nS >= 2 and rng.random() < 0.6:
            o, d = rng.sample(states, 2)
            trs = [{"type": "T", "origin": o, "dest": d, "mag": mag()}]
        else:
            o = rng.choice(states)
            trs = [{"type": "D", "origin": o, "dest": None, "mag": mag()}]
        rate = E.mul(E.mul(a(), wave()), V(o)) if timedep else E.mul(a(), V(o))
        procs.append(_proc(rate, "periodic" if timedep else "linear", trs))

    def inflow(timedep=False):
        rate = E.mul(a(), wave()) if timedep else a()
        procs.append(_proc(rate, "const", [{"type": "B", "origin": None, "dest": rng.choice(states), "mag": mag()}]))

    def const_ode():
        c = rng.choice([a(), E.num(rng.randint(1, 3), 2), E.mul(a(), E.num(1, 2))])
        odes.append({"state": rng.choice(states), "expr": E.neg(c) if rng.random() < 0.3 else c})

    if family == "symmetric":
        o, d = rng.sample(states, 2)
        c = a()
        if rng.random() < 0.5:      # exchange at equal rates: J = [[-c, c], [c, -c]]
            procs.append(_proc(E.mul(c, V(o)), "linear", [{"type": "T", "origin": o, "dest": d, "mag": N_(1)}]))
            procs.append(_proc(E.mul(c, V(d)), "linear", [{"type": "T", "origin": d, "dest": o, "mag": N_(1)}]))
        else:                       # x' = c y, y' = c x
            odes.append({"state": o, "expr": E.mul(c, V(d))})
            odes.append({"state": d, "expr": E.mul(c, V(o))})
        if rng.random() < 0.5:
            rng.choice([inflow, const_ode])()
    elif family == "zero-jacobian":
        for _ in range(rng.randint(1, 3)):
            rng.choice([inflow, const_ode, lambda: inflow(True)])()
    else:
        for _ in range(rng.randint(1, 3)):
            linear(family == "timecoef" and rng.random() < 0.7)
        if family == "timecoef" and not any(p["kind"] == "periodic" for p in procs):
            linear(True)
        if family in ("inflow", "mixed"):
            inflow(family == "mixed" and rng.random() < 0.3)
        if family in ("const-ode", "mixed"):
            const_ode()
        if family == "mixed":
            linear(rng.random() < 0.5)
    abstract = {"decl_states": states, "states": states, "params": params, "derived": [], "procs": procs, "odes": odes, "lims": None}
    how = rng.choice(["any", "any", "ode-only", "events-only"])
    if how == "ode-only":           # a model with explicit ODE terms only
        spec, meta = gen.make_spec(rng, abstract, as_ode_prob=1.0)
    elif how == "events-only" and not odes:
        spec, meta = gen.make_spec(rng, abstract, routes=("event", "event_eq", "event_bare", "incremental"))
    else:
        how = "any"
        spec, meta = gen.make_spec(rng, abstract)
    meta["how"] = how
    return spec, meta


def gen_runtime_model(rng, idx, radau, family=None):
    family = family or gen.wchoice(rng, MODEL_FAMILIES)
    if family in AFFINE:
        spec, meta = gen_affine_spec(rng, family)
    elif family == "tiny-model":        # one state, one parameter
        spec, meta = gen.gen_model(rng, max_states=1, max_params=1, min_events=1, max_events=2, allow_time=rng.random() < 0.3,
                                   allow_range=False, limits=False, allow_derived=False)
    else:
        spec, meta = gen.gen_model(rng, max_states=4, max_params=4, min_events=1, max_events=4, allow_time=family == "general-time",
                                   allow_range=rng.random() < 0.3, limits=False)
    params = {p: fr(Fraction(rng.randint(2, 16), 16)) for p in meta["params"]}
    x0 = [fr(Fraction(rng.randint(2, 16), 8)) for _ in meta["states"]]
    # boundary values: parameters that are exactly zero, initial states that are exactly zero (some or all)
    if rng.random() < 0.12:
        for p in rng.sample(sorted(params), rng.randint(1, len(params))):
            params[p] = "0"
    if rng.random() < 0.12:
        for i in (range(len(x0)) if rng.random() < 0.4 else rng.sample(range(len(x0)), rng.randint(1, len(x0)))):
            x0[i] = "0"
    k = rng.randint(2, 8)
    if rng.random() < 0.5:
        fracs = [Fraction(i + 1, k) for i in range(k)]
        gk = "uniform"
    else:
        cuts = sorted(set(rng.randint(1, 64) for _ in range(k)))
        fracs = [Fraction(v, 64) for v in cuts]
        gk = "nonuniform"
    t0, hs, mods = gen_scenario(rng, long_ok=family in ("chain", "inflow", "const-ode"))
    return {"kind": "model", "family": family, "spec": spec, "kinds": sorted(set(meta["kinds"])), "nS": len(meta["states"]),
            "params": params, "x0": x0, "t0": t0, "Tmax": rng.choice([1, 2, 3]), "fracs": [fr(f) for f in fracs], "hscale": hs, "gridmods": mods,
            "grid_kind": gk, "container": rng.choice(["list", "ndarray"]), "radau": bool(radau)}


V = E.var
N_ = E.num


def _m(*a):
    out = a[0]
    for b in a[1:]:
        out = E.mul(out, b)
    return out


def _ode_spec(states, params, eqs):
    return {"state": {"list": states}, "param": {"list": params}, "derived": [],
            "ctor": {"event": [], "transition": [], "birth_death": [],
                     "ode": [{"type": "ODE", "origin": s, "dest": None, "mag": N_(1), "eq": e} for s, e in zip(states, eqs)]},
            "then": []}


def catalogue():
    """hand-written equations (from the docstrings of pygom.common_models) + documented parameter values;
    initial states / horizons chosen so that the problem is well conditioned at odeint's default tolerance"""
    S, I, R, Ex, Nn = V("S"), V("I"), V("R"), V("E"), V("N")
    beta, gamma, alpha = V("beta"), V("gamma"), V("alpha")
    inf = E.div(_m(beta, S, I), Nn)
    cat = []
    cat.append(dict(name="SIS", spec=_ode_spec(["S", "I"], ["beta", "gamma", "N"],
                                                [E.add(E.neg(inf), _m(gamma, I)), E.sub(inf, _m(gamma, I))]),
                    params={"beta": "1/2", "gamma": "1/5", "N": "1"}, x0=["1", "1/10"], T=20))
    cat.append(dict(name="SIR", spec=_ode_spec(["S", "I", "R"], ["beta", "gamma", "N"],
                                                [E.neg(inf), E.sub(inf, _m(gamma, I)), _m(gamma, I)]),
                    params={"beta": "1/2", "gamma": "1/5", "N": "100"}, x0=["90", "10", "0"], T=30))
    cat.append(dict(name="SEIR", spec=_ode_spec(["S", "E", "I", "R"], ["beta", "alpha", "gamma", "N"],
                                                 [E.neg(inf), E.sub(inf, _m(alpha, Ex)), E.sub(_m(alpha, Ex), _m(gamma, I)), _m(gamma, I)]),
                    params={"beta": "9/5", "alpha": "1/2", "gamma": "1/5", "N": "100"}, x0=["80", "10", "10", "0"], T=15))
    x, y = V("x"), V("y")
    # code: birth alpha*x, death beta*x*y, pred birth delta*x*y, pred death gamma*y
    cat.append(dict(name="Lotka_Volterra", spec=_ode_spec(["x", "y"], ["alpha", "beta", "gamma", "delta"],
                                                           [E.sub(_m(V("alpha"), x), _m(V("beta"), x, y)),
                                                            E.sub(_m(V("delta"), x, y), _m(V("gamma"), y))]),
                    params={"alpha": "1", "beta": "1/10", "gamma": "3/2", "delta": "3/40"}, x0=["10", "5"], T=8))
    cat.append(dict(name="SIR_norm", spec=_ode_spec(["S", "I", "R"], ["beta", "gamma"],
                                                     [E.neg(_m(beta, S, I)), E.sub(_m(beta, S, I), _m(gamma, I)), _m(gamma, I)]),
                    params={"beta": "18/5", "gamma": "1/5"}, x0=["13/200", "1/100", "0"], T=20))
    Vv, Rr, a, b, c = V("V"), V("R"), V("a"), V("b"), V("c")
    cat.append(dict(name="FitzHugh", spec=_ode_spec(["V", "R"], ["a", "b", "c"],
                                                     [_m(c, E.add(E.sub(Vv, E.div(_m(Vv, Vv, Vv), N_(3))), Rr)),
                                                      E.neg(E.div(E.add(E.sub(Vv, a), _m(b, Rr)), c))]),
                    params={"a": "1/5", "b": "1/5", "c": "3"}, x0=["1", "-1"], T=5))
    mu = V("mu")
    cat.append(dict(name="vanDerPol", spec=_ode_spec(["y", "x"], ["mu"],
                                                      [x, E.sub(_m(mu, E.sub(N_(1), _m(y, y)), x), y)]),
                    params={"mu": "1"}, x0=["2", "0"], T=10))
    z, sigma, rho = V("z"), V("sigma"), V("rho")
    cat.append(dict(name="Lorenz", spec=_ode_spec(["x", "y", "z"], ["beta", "sigma", "rho"],
                                                   [_m(sigma, E.sub(y, x)), E.sub(_m(x, E.sub(rho, z)), y), E.sub(_m(x, y), _m(beta, z))]),
                    params={"beta": "8/3", "sigma": "10", "rho": "28"}, x0=["1", "1", "1"], T=1))
    # time-dependent member: beta(t) = beta0 (1 - delta cos(2 * 3.14159 t / period)) as written in the source (3.14159, not pi)
    bT = _m(V("beta0"), E.sub(N_(1), _m(V("delta"), E.fn("cos", E.div(_m(N_(2), E.num(314159, 100000), V("t")), V("period"))))))
    infT = E.div(_m(bT, S, I), Nn)
    cat.append(dict(name="SIS_Periodic", spec=_ode_spec(["S", "I"], ["gamma", "beta0", "delta", "period", "N"],
                                                         [E.add(E.neg(infT), _m(gamma, I)), E.sub(infT, _m(gamma, I))]),
                    params={"gamma": "1/4", "beta0": "1", "delta": "1/2", "period": "2", "N": "1"}, x0=["9/10", "1/10"], T=10, time=True))
    # stiff member of the catalogue (hard-coded constants, no parameters): the Jacobian orientation handed to
    # LSODA only matters in its stiff mode, so this is where a transposed / mis-ordered Jacobian shows
    y1, y2, y3 = V("y1"), V("y2"), V("y3")
    k1, k2, k3 = E.num(4, 100), N_(10000), N_(30000000)
    cat.append(dict(name="Robertson", spec=_ode_spec(["y1", "y2", "y3"], [],
                                                      [E.add(E.neg(_m(k1, y1)), _m(k2, y2, y3)),
                                                       E.sub(E.sub(_m(k1, y1), _m(k2, y2, y3)), _m(k3, y2, y2)),
                                                       _m(k3, y2, y2)]),
                    params={}, x0=["1", "0", "0"], T=40, stiff=True))
    return cat


def gen_catalogue(rng, i, radau):
    cat = catalogue()
    ent = cat[i % len(cat)]
    k = rng.randint(3, 10)
    if rng.random() < 0.5:
        fracs = [Fraction(j + 1, k) for j in range(k)]
        gk = "uniform"
    else:
        cuts = sorted(set(rng.randint(1, 64) for _ in range(k)))
        fracs = [Fraction(v, 64) for v in cuts]
        gk = "nonuniform"
    t0, hs, mods = gen_scenario(rng, long_ok=ent["name"] in ("SIS", "SIR", "SEIR", "SIR_norm"))
    if ent.get("stiff"):
        t0, hs = "0", "1"
        mods = [m for m in mods if m["op"] in ("repeat", "one")]
    return {"kind": "catalogue", "name": ent["name"], "params": ent["params"], "x0": ent["x0"], "t0": t0, "stiff": bool(ent.get("stiff")),
            "fracs": [fr(f) for f in fracs], "hscale": hs, "gridmods": mods, "grid_kind": gk, "container": rng.choice(["list", "ndarray"]),
            "radau": bool(radau)}



# ------------------------------------------------------------------------------------------------
# round d: WIDE-RATIO GRIDS and SCALES
#
# `rows_correct` quantifies over every list of times: the rows are the flow at each requested time whatever the gaps between
# the times are.  The grids above have gap ratios below ~64 (or single few-ulp steps); output grids used in practice often span
# many decades - log-spaced sampling of a stiff system (the catalogue's own documented grid for Robertson: 4*logspace(-6, 6, n)),
# a first observation just after t0 followed by daily points, a fine burst followed by coarse sampling.  Anything that ties the
# solver's internal step to ONE of the gaps (seeded change C02-d1: hmax = first gap, so that lsoda exhausts mxstep inside a later,
# 1e4 times longer interval and odeint hands out stale rows with a warning only) shows only there.
#   log        t0 + T 10^linspace(-d, 0, n)                    d in 3 .. 10, n in 5 .. 25        (ratio last gap / first gap ~ 10^d)
#   early      t0 + T 10^-d, then t0 + T j/k  (j = 1..k)       a first observation just after t0, then uniform
#   burst      t0 + T 10^-d (1, 2, 3), then t0 + T j/k         a fine burst, then coarse
#   doc        the documented grid of the stiff catalogue member: 4*logspace(-6, e, n), e in {2, 4, 6}   (t0 = 0)
# t0 is near the origin (0, 1/2, -1, 3): at t0 = 3 a first gap of 1e-10 is still 2e5 ulps long.
# SCALES.  The same catalogue equations with head counts (N = 1e6, 1e8; per-capita rate beta/N ~ 1e-9) and with tiny fractions
# (I0 = 1e-4 .. 1e-6 of a unit population).  The acceptance |row - ref| <= acc (floor + |ref|) is relative per entry down to
# `floor`: 1 for the ordinary cases, the size of the smallest component of interest for the tiny-valued ones; there the
# solver's own ABSOLUTE tolerance (odeint 1.5e-8, ode 1e-10) is what limits the accuracy, so acc is 20 x the error of scipy's own
# solver on the instance in the same metric (measured without pygom), at least TOL.
# ------------------------------------------------------------------------------------------------
WIDE_KINDS = [("log", 6), ("early", 4), ("burst", 2)]
WIDE_DECADES = [3, 4, 5, 5, 6, 6, 8, 10]
WIDE_FAMILIES = ["general", "general", "general-time", "tiny-model", "chain", "inflow", "timecoef", "mixed"]


def wide_grid(t0, T, w):
    """the float grid of a wide-ratio case (deterministic in the case)"""
    d, n = int(w["decades"]), int(w["n"])
    if w["kind"] == "log":
        g = [t0 + T * 10.0 ** (-d + d * j / (n - 1.0)) for j in range(n)]
    elif w["kind"] == "early":
        g = [t0 + T * 10.0 ** -d] + [t0 + T * (j + 1.0) / n for j in range(n)]
    elif w["kind"] == "burst":
        g = [t0 + T * 10.0 ** -d * j for j in (1, 2, 3)] + [t0 + T * (j + 1.0) / n for j in range(n)]
    elif w["kind"] == "doc":
        g = [t0 + 4.0 * 10.0 ** (-6 + (6 + d) * j / (n - 1.0)) for j in range(n)]       # 4*logspace(-6, d, n)
    else:
        raise ValueError(w["kind"])
    out = []
    for v in g:
        if v > t0 and (not out or v > out[-1]):
            out.append(float(v))
    return out


def gap_ratio(t0, grid):
    gaps = [b - a for a, b in zip([t0] + list(grid), grid) if b > a]
    return max(gaps) / gaps[0] if gaps else 1.0


def scaled_catalogue():
    """catalogue equations at other SCALES: head counts (N = 1e6, 1e8 with per-capita rates beta/N down to 5e-9) and tiny fractions"""
    S, I, R, Ex, Nn = V("S"), V("I"), V("R"), V("E"), V("N")
    beta, gamma, alpha = V("beta"), V("gamma"), V("alpha")
    inf = E.div(_m(beta, S, I), Nn)
    sir = _ode_spec(["S", "I", "R"], ["beta", "gamma", "N"], [E.neg(inf), E.sub(inf, _m(gamma, I)), _m(gamma, I)])
    seir = _ode_spec(["S", "E", "I", "R"], ["beta", "alpha", "gamma", "N"],
                     [E.neg(inf), E.sub(inf, _m(alpha, Ex)), E.sub(_m(alpha, Ex), _m(gamma, I)), _m(gamma, I)])
    norm = _ode_spec(["S", "I", "R"], ["beta", "gamma"], [E.neg(_m(beta, S, I)), E.sub(_m(beta, S, I), _m(gamma, I)), _m(gamma, I)])
    cat = []
    cat.append(dict(name="SIR:N=1e6", fn="SIR", spec=sir, params={"beta": "1/2", "gamma": "1/5", "N": "1000000"},
                    x0=["999000", "1000", "0"], T=40, hi=1e7, scale="head-count"))
    cat.append(dict(name="SIR:N=1e8", fn="SIR", spec=sir, params={"beta": "3/5", "gamma": "1/4", "N": "100000000"},
                    x0=["99990000", "10000", "0"], T=50, hi=1e9, scale="head-count"))
    cat.append(dict(name="SEIR:N=1e7", fn="SEIR", spec=seir, params={"beta": "9/5", "alpha": "1/2", "gamma": "1/5", "N": "10000000"},
                    x0=["9990000", "5000", "5000", "0"], T=20, hi=1e8, scale="head-count"))
    # mass action on head counts: the per-capita transmission rate is 5e-9 per person and day
    cat.append(dict(name="SIR_norm:beta=5e-9", fn="SIR_norm", spec=norm, params={"beta": "1/200000000", "gamma": "1/5"},
                    x0=["99990000", "10000", "0"], T=40, hi=1e9, scale="head-count"))
    cat.append(dict(name="SIR_norm:I0=1e-4", fn="SIR_norm", spec=norm, params={"beta": "1/2", "gamma": "1/5"},
                    x0=["9999/10000", "1/10000", "0"], T=30, floor=1e-4, scale="tiny"))
    cat.append(dict(name="SIR_norm:I0=1e-6", fn="SIR_norm", spec=norm, params={"beta": "3/5", "gamma": "1/5"},
                    x0=["999999/1000000", "1/1000000", "0"], T=20, floor=1e-5, scale="tiny"))
    return cat


def catalogue_entry(name):
    return [c for c in catalogue() + scaled_catalogue() if c["name"] == name][0]


def gen_wide(rng, i, radau):
    """a runtime case (generated model or catalogue model) on a wide-ratio grid"""
    w = {"kind": gen.wchoice(rng, WIDE_KINDS), "decades": rng.choice(WIDE_DECADES), "n": rng.randint(5, 25)}
    if w["kind"] != "log":
        w["n"] = rng.randint(2, 12)
    t0 = rng.choice(T0_NEAR)
    which = i % 6
    if which == 0:          # the stiff catalogue member on its documented grid
        w = {"kind": "doc", "decades": rng.choice([2, 4, 6, 6]), "n": rng.choice([13, 25, 37, 61])}
        return {"kind": "catalogue", "name": "Robertson", "params": {}, "x0": ["1", "0", "0"], "t0": "0", "stiff": True, "fracs": [], "hscale": "1",
                "gridmods": [], "grid_kind": "wide", "wide": w, "container": rng.choice(["list", "ndarray"]), "radau": False,
                "entries": "odeint" if w["decades"] > 2 else "all"}
    if which in (1, 2):
        cat = [c for c in catalogue() if not c.get("stiff")] + scaled_catalogue()
        ent = cat[rng.randrange(len(cat))]
        return {"kind": "catalogue", "name": ent["name"], "params": ent["params"], "x0": ent["x0"], "t0": t0, "stiff": False, "fracs": [], "hscale": "1",
                "gridmods": [], "grid_kind": "wide", "wide": w, "container": rng.choice(["list", "ndarray"]), "radau": bool(radau)}
    case = gen_runtime_model(rng, i, radau, family=rng.choice(WIDE_FAMILIES))
    case.update({"t0": t0, "hscale": "1", "gridmods": [], "grid_kind": "wide", "wide": w})
    return case


def gen_scaled(rng, i, radau):
    """head-count / tiny-valued catalogue members on the ordinary grids"""
    cat = scaled_catalogue()
    ent = cat[i % len(cat)]
    case = gen_catalogue(rng, 0, radau)
    case.update({"name": ent["name"], "params": ent["params"], "x0": ent["x0"], "stiff": False, "t0": rng.choice(T0_NEAR), "hscale": "1",
                 "gridmods": [m for m in case["gridmods"] if m["op"] in ("repeat", "one")]})
    return case


def make_cases(rng, tier, budget):
    cases = []
    for i in range(budget["fake"]):
        cases.append(gen_fake(random.Random(rng.getrandbits(64))))
    for i in range(budget.get("fake_sessions", 0)):
        cases.append(gen_fake_session(random.Random(rng.getrandbits(64))))
    ncat = len(catalogue())
    off = rng.randrange(ncat)
    for i in range(budget["catalogue"]):
        cases.append(gen_catalogue(random.Random(rng.getrandbits(64)), off + i, i % budget["radau_every"] == 0))
    deck = [f for f, w in MODEL_FAMILIES for _ in range(w)]     # every family gets its share on every run
    rng.shuffle(deck)
    for i in range(budget["models"]):
        cases.append(gen_runtime_model(random.Random(rng.getrandbits(64)), i, i % budget["radau_every"] == 0, family=deck[i % len(deck)]))
        if i < budget.get("cython", 0):
            cases[-1]["backend"] = "cython"      # pygom's default compile back-end (seconds of gcc per evaluator)
    cases += session_cases(rng, budget)
    # round d (drawn after everything above: the earlier families are unchanged): wide-ratio grids, scales
    off2 = rng.randrange(6)
    for i in range(budget.get("wide", 0)):
        cases.append(gen_wide(random.Random(rng.getrandbits(64)), off2 + i, i % 4 == 0))
    for i in range(budget.get("scaled", 0)):
        cases.append(gen_scaled(random.Random(rng.getrandbits(64)), off2 + i, i % 4 == 0))
    return cases


def session_cases(rng, budget, factor=1):
    """every entry-point configuration gets its turn: the sessions walk round a shuffled list of the 40 configurations"""
    order = list(ENTRY_CONFIGS)
    rng.shuffle(order)
    pos = [0]

    def take(k):
        out = [order[(pos[0] + j) % len(order)] for j in range(k)]
        pos[0] += k
        return out
    out = []
    k = budget.get("entries_per_session", 5)
    for flavour, fn in (("history", gen_session_history), ("siblings", gen_session_siblings), ("forms", gen_session_forms)):
        for i in range(budget.get(flavour, 0) * factor):
            out.append(fn(random.Random(rng.getrandbits(64)), take(k), i % budget["radau_every"] == 0))
    return out


def search_cases(rng, tier, budget):
    out = []
    for i in range(len(catalogue())):
        out.append(gen_catalogue(random.Random(rng.getrandbits(64)), i, False))
    for i in range(budget["models"] * 3):
        out.append(gen_runtime_model(random.Random(rng.getrandbits(64)), i, False))
    out += session_cases(rng, budget, factor=2)
    out += [gen_wide(random.Random(rng.getrandbits(64)), i, False) for i in range(budget.get("wide", 0) * 2)]
    return out


# ------------------------------------------------------------------------------------------------
# tie (i): fake integrator
# ------------------------------------------------------------------------------------------------
def make_fake_ode(c, aliased, log):
    cvec = np.array(c, dtype=float)

    class FakeOde(object):
        """exact integrator of x' = c with a chosen buffer behaviour"""

        def __init__(self, f, jac=None):
            self.f, self.jac = f, jac
            self.name = None
            self._buf = None
            self.t = None

        def set_integrator(self, name, **kw):
            self.name = name + (":bdf" if kw.get("method") == "bdf" else "")
            self.kw = kw
            return self

        def set_f_params(self, *a):
            return self

        def set_jac_params(self, *a):
            return self

        def set_initial_value(self, y, t=0.0):
            self._buf = np.array(y, dtype=float)     # scipy copies its argument (measured in pre())
            self.t = t
            log.append({"integrator": self.name, "t": float(t), "y": [float(v) for v in self._buf]})
            return self

        def integrate(self, t, step=False, relax=False):
            self._buf += cvec[:len(self._buf)] * (t - self.t)      # in place: the buffer is reused
            self.t = t
            return self.y

        def successful(self):
            return True

        @property
        def y(self):
            return self._buf if aliased[self.name] else self._buf.copy()

    return FakeOde


def make_fake_odeint(c, log):
    cvec = np.array(c, dtype=float)

    def odeint(func, y0, t, Dfun=None, full_output=False, **kw):
        y0 = np.array(y0, dtype=float)
        t = np.asarray(t, dtype=float)
        log.append({"odeint_times": [float(v) for v in t]})
        rows = np.array([y0 + cvec[:len(y0)] * (ti - t[0]) for ti in t])
        return (rows, {"message": "Integration successful."}) if full_output else rows      # what scipy says on success
    return odeint


_const_models = {}


def const_model(n):
    """real pygom model x_i' = c_i (only its bookkeeping methods are exercised in the fake tie)"""
    if n not in _const_models:
        from pygom import SimulateOde, Transition
        from .. import bootstrap
        st = ["x%d" % i for i in range(n)]
        pr = ["c%d" % i for i in range(n)]
        odes = [Transition(origin=s, equation=p, transition_type="ODE") for s, p in zip(st, pr)]
        m = SimulateOde(state=st, param=pr, ode=odes)
        bootstrap.fast_backend(m)
        _const_models[n] = m
    return _const_models[n]


def py_time_arg(case):
    t = case["t"]
    cont = case["container"]
    if "scalar" in t:
        f = Fraction(t["scalar"])
        if cont == "np.float64":
            return np.float64(float(f))
        return int(f) if f.denominator == 1 else float(f)
    if "list" in t:
        vals = [float(Fraction(v)) for v in t["list"]]
        return vals if cont == "list" else (tuple(vals) if cont == "tuple" else np.array(vals, dtype=float))
    if "none" in t:
        return None
    return {"None": None, "str": "abc", "dict": {}}[cont]


def rows_to_fr(arr):
    a = np.asarray(arr)
    if a.size == 0:
        return []
    if a.ndim == 1:
        return [[fr(Fraction(float(v))) for v in a]]
    return [[fr(Fraction(float(v))) for v in row] for row in a]


def lean_integrate(case, copy_on_read=True):
    al = dict(case["aliased"])
    req = {"op": "integrate", "entry": "integrateFuncJac" if case["entry"] == "_integrate2" else case["entry"],
           "cfg": {"aliased": al, "copyOnRead": copy_on_read, "fullOutput": bool(case["full_output"]),
                   "includeOrigin": bool(case["includeOrigin"]), "method": case["method"]},
           "x0": case["x0"], "t0": case["t0"], "t": case["t"], "c": case["c"], "eigA": case["eigA"], "eigB": case["eigB"]}
    if case["entry"] == "_integrate2":
        # _integrate2(t_full): integrateFuncJac(.., x0, t_full[0], t_full[1:], includeOrigin=True, full_output=True)
        req["cfg"]["fullOutput"] = True
        req["cfg"]["includeOrigin"] = True
    return leanio.driver().call(req)


def run_fake(case):
    import scipy.integrate
    from pygom.model import ode_utils
    tags, mism, viol = [], [], []
    entry = case["entry"]
    x0 = np.array([float(Fraction(v)) for v in case["x0"]])
    c = [float(Fraction(v)) for v in case["c"]]
    t0 = float(Fraction(case["t0"]))
    A = [float(Fraction(v)) for v in case["eigA"]]
    B = [float(Fraction(v)) for v in case["eigB"]]
    targ = py_time_arg(case)
    fo, io, method = bool(case["full_output"]), bool(case["includeOrigin"]), case["method"]
    log = []

    def func(t, x, *a):
        raise RuntimeError("the fake integrator never evaluates f")

    def jac(t, x, *a):
        return np.diag([A[0] + A[1] * t + A[2] * x[0], B[0] + B[1] * t + B[2] * x[0]])

    lr = lean_integrate(case)
    real_ode, real_odeint = scipy.integrate.ode, scipy.integrate.odeint
    # `ode_utils` calls `scipy.integrate.ode(...)` / `scipy.integrate.odeint(...)` through its own `scipy` global
    assert ode_utils.scipy.integrate is scipy.integrate
    perr, res = None, None
    model = None
    if entry != "integrateFuncJac":
        model = const_model(len(x0))
        model.parameters = dict(("c%d" % i, c[i]) for i in range(len(x0)))
        model.initial_values = (x0.copy(), t0)
    try:
        scipy.integrate.ode = make_fake_ode(c, case["aliased"], log)
        scipy.integrate.odeint = make_fake_odeint(c, log)
        try:
            if entry == "integrateFuncJac":
                res = ode_utils.integrateFuncJac(func, jac, x0, t0, targ, args=(), includeOrigin=io, full_output=fo, method=method)
            elif entry == "integrate2":
                model.jacobian_T = jac
                res = model.integrate2(targ, full_output=fo, method=method)
            elif entry == "_integrate2":
                model.jacobian_T = jac
                res = model._integrate2(np.append(t0, np.asarray(targ, dtype=float)), fo, method)
            elif entry == "integrate":
                res = model.integrate(targ, full_output=fo)
            elif entry == "solve_determ":
                res = model.solve_determ(targ)
                fo = False
        except Exception as exc:
            perr = type(exc).__name__
    finally:
        scipy.integrate.ode = real_ode
        scipy.integrate.odeint = real_odeint
        if model is not None and "jacobian_T" in model.__dict__:
            del model.__dict__["jacobian_T"]
    tags += ["fake:entry=%s" % entry, "fake:grid=%s" % case["grid_kind"], "fake:container=%s" % case["container"],
             "fake:method=%s" % method, "fake:full_output=%s" % fo, "fake:includeOrigin=%s" % io]
    if perr is not None or "err" in lr:
        tags.append("fake:error=%s" % (perr or lr.get("err")))
        if perr != lr.get("err"):
            mism.append({"what": "fake:%s:error" % entry, "detail": "python raised %s, lean model %s" % (perr, lr.get("err"))})
        return {"nontrivial": False, "mismatches": mism, "violations": viol, "tags": tags}
    sol, out = (res if fo else (res, None))
    rows = rows_to_fr(sol)
    if rows != lr["rows"]:
        alt = lean_integrate(case, copy_on_read=False) if entry not in ("integrate", "solve_determ") else {}
        hint = " ; the real rows equal the model's with copyOnRead=false (r.y is not copied)" if alt.get("rows") == rows else ""
        mism.append({"what": "fake:%s:rows" % entry, "detail": "python %s lean %s%s" % (rows, lr["rows"], hint)})
    if entry in ("integrateFuncJac", "integrate2", "_integrate2"):
        tr = [l["integrator"] for l in log if "integrator" in l]
        if tr != lr["trace"]:
            mism.append({"what": "fake:%s:integrators" % entry, "detail": "python created %s, lean model %s (method=%r)" % (tr, lr["trace"], method)})
        for nm in set(tr):
            tags.append("fake:integrator=%s" % nm)
        if out is not None:
            mx = [fr(Fraction(float(np.real(v)))) for v in out["maxev"]]
            mn = [fr(Fraction(float(np.real(v)))) for v in out["minev"]]
            if out["in"] != lr["in"] or mx != lr["maxev"] or mn != lr["minev"]:
                mism.append({"what": "fake:%s:output" % entry, "detail": "python in=%r maxev=%s minev=%s ; lean in=%r maxev=%s minev=%s" % (
                    out["in"], mx, mn, lr["in"], lr["maxev"], lr["minev"])})
            if len(out["suc"]) != len(mx):
                mism.append({"what": "fake:%s:output-length" % entry, "detail": "suc %d maxev %d" % (len(out["suc"]), len(mx))})
    nreq = len(case["t"].get("list", [0])) if "list" in case["t"] else 1
    return {"nontrivial": nreq >= 1 and not mism, "mismatches": mism, "violations": viol, "tags": tags,
            "sample": {k: case[k] for k in ("entry", "x0", "c", "t0", "t", "method", "full_output", "includeOrigin", "aliased")}}


# ------------------------------------------------------------------------------------------------
# tie (i'): a SESSION on one instance against the fake integrator (exact)
# The Lean `runOps` (Integrate.lean: `Inst`, `SOp`; theorems `session_is_pure`, `earlier_results_kept`,
# `solve_reads_current`) threads `_x0`, `_t0`, `_odeTime`, `_odeSolution` through a list of assignments and solves.
# The same list is applied to ONE fresh real model; every returned array is kept and read only at the end.
# ------------------------------------------------------------------------------------------------
def gen_fake_session(rng):
    n = rng.randint(1, 3)
    t0 = dyadic(rng, -2, 2, 4)
    far = rng.choice([738000, -738000, 10000, -(2 ** 24)]) if rng.random() < 0.2 else 0     # the whole session far from the origin
    t0 += far
    pool = []
    for _ in range(rng.randint(1, 3)):
        k = rng.randint(1, 5)
        cur, ts = t0, []
        for _ in range(k):
            cur = cur + Fraction(rng.randint(0 if rng.random() < 0.1 else 1, 16), 8)
            ts.append(cur)
        pool.append({"list": [fr(v) for v in ts]})
    pool.append({"scalar": fr(t0 + dyadic(rng, 0, 3))})

    def targ():
        r = rng.random()
        if r < 0.04:
            return {"t": {"list": []}, "container": rng.choice(["list", "tuple", "ndarray"])}
        if r < 0.08:
            return {"t": {"other": True}, "container": rng.choice(["str", "dict"])}
        t = rng.choice(pool)        # few grids: the same one comes back after the instance was changed
        return {"t": t, "container": rng.choice(["int_or_float", "np.float64"]) if "scalar" in t else rng.choice(["list", "tuple", "ndarray"])}
    ops = []
    for _ in range(rng.randint(4, 14)):
        k = gen.wchoice(rng, [("setT0", 3), ("setX0", 3), ("setBoth", 2), ("integrate", 4), ("solve_determ", 2), ("integrate2", 4)])
        if k == "setT0":
            ops.append({"k": k, "t": fr(rng.choice([t0, far + dyadic(rng, -2, 2, 4)]))})
        elif k == "setX0":
            ops.append({"k": k, "x": [fr(dyadic(rng, -4, 4)) for _ in range(n)]})
        elif k == "setBoth":
            ops.append({"k": k, "x": [fr(dyadic(rng, -4, 4)) for _ in range(n)], "t": fr(rng.choice([t0, far + dyadic(rng, -2, 2, 4)]))})
        elif k == "solve_determ" and rng.random() < 0.05:
            ops.append({"k": k, "t": {"none": True}, "container": "None"})
        else:
            op = dict(targ(), k=k, full_output=rng.random() < 0.5)
            if k == "integrate2":
                op["method"] = rng.choice(METHODS)
            ops.append(op)

    def coef():
        return [fr(dyadic(rng, -4, 2)), fr(dyadic(rng, -1, 1, 4)), fr(dyadic(rng, -1, 1, 4))]
    return {"kind": "fakesession", "x0": [fr(dyadic(rng, -4, 4)) for _ in range(n)], "c": [fr(dyadic(rng, -3, 3)) for _ in range(n)],
            "t0": fr(t0), "aliased": {k: rng.random() < 0.5 for k in INTEGRATORS}, "eigA": coef(), "eigB": coef(), "ops": ops}


def run_fake_session(case):
    import scipy.integrate
    from pygom import SimulateOde, Transition
    from .. import bootstrap
    tags, mism = ["fakesession"], []
    n = len(case["x0"])
    c = [float(Fraction(v)) for v in case["c"]]
    A = [float(Fraction(v)) for v in case["eigA"]]
    B = [float(Fraction(v)) for v in case["eigB"]]
    lr = leanio.driver().call({"op": "session", "aliased": case["aliased"], "copyOnRead": True, "c": case["c"], "eigA": case["eigA"],
                               "eigB": case["eigB"], "x0": case["x0"], "t0": case["t0"],
                               "ops": [{k: v for k, v in op.items() if k not in ("container", "full_output")} for op in case["ops"]]})
    st = ["x%d" % i for i in range(n)]
    pr = ["c%d" % i for i in range(n)]
    model = bootstrap.fast_backend(SimulateOde(state=st, param=pr, ode=[Transition(origin=a, equation=b, transition_type="ODE")
                                                                       for a, b in zip(st, pr)]))
    model.parameters = dict(zip(pr, c))
    model.initial_values = (np.array([float(Fraction(v)) for v in case["x0"]]), float(Fraction(case["t0"])))
    model.jacobian_T = lambda t, x, *a: np.diag([A[0] + A[1] * t + A[2] * x[0], B[0] + B[1] * t + B[2] * x[0]])
    log, outs = [], []
    real_ode, real_odeint = scipy.integrate.ode, scipy.integrate.odeint
    try:
        scipy.integrate.ode = make_fake_ode(c, case["aliased"], log)
        scipy.integrate.odeint = make_fake_odeint(c, log)
        for op in case["ops"]:
            k = op["k"]
            try:
                if k == "setT0":
                    model.initial_time = float(Fraction(op["t"]))
                elif k == "setX0":
                    model.initial_state = np.array([float(Fraction(v)) for v in op["x"]])
                elif k == "setBoth":
                    model.initial_values = (np.array([float(Fraction(v)) for v in op["x"]]), float(Fraction(op["t"])))
                else:
                    targ = py_time_arg(op)
                    if k == "integrate":
                        r = model.integrate(targ, full_output=op["full_output"])
                        outs.append(r[0] if op["full_output"] else r)
                    elif k == "solve_determ":
                        outs.append(model.solve_determ(targ))
                    else:
                        r = model.integrate2(targ, full_output=op["full_output"], method=op["method"])
                        outs.append(r[0] if op["full_output"] else r)
                    tags.append("fakesession:op=%s" % k)
            except Exception as exc:
                if k in ("setT0", "setX0", "setBoth"):
                    raise
                outs.append(type(exc).__name__)
                tags.append("fakesession:error=%s" % type(exc).__name__)
    finally:
        scipy.integrate.ode = real_ode
        scipy.integrate.odeint = real_odeint
    if lr.get("err") is not None or "outputs" not in lr:
        mism.append({"what": "fakesession:driver", "detail": str(lr)[:500]})
        return {"nontrivial": False, "mismatches": mism, "violations": [], "tags": tags}
    # everything returned is read only now, after all later operations
    py = [o if isinstance(o, str) else rows_to_fr(o) for o in outs]
    le = [o["err"] if "err" in o else o["rows"] for o in lr["outputs"]]
    if py != le:
        j = next((i for i, (a, b) in enumerate(zip(py, le)) if a != b), min(len(py), len(le)))
        mism.append({"what": "fakesession:outputs", "detail": "solve #%d: python %s ; lean model %s" % (
            j, py[j] if j < len(py) else None, le[j] if j < len(le) else None)})
    final = (rows_to_fr(model.initial_state)[0], fr(Fraction(float(model.initial_time))))
    if final != (lr["x0"], lr["t0"]):
        mism.append({"what": "fakesession:final-values", "detail": "python %s ; lean model %s" % (final, (lr["x0"], lr["t0"]))})
    ot = getattr(model, "_odeTime", "absent")
    if not isinstance(ot, str):
        pt = None if ot is None else [fr(Fraction(float(v))) for v in np.asarray(ot, dtype=float)]
        if pt != lr["odeTime"]:
            mism.append({"what": "fakesession:odeTime", "detail": "python _odeTime %s ; lean model %s" % (pt, lr["odeTime"])})
    nsolve = sum(1 for o in py if not isinstance(o, str))
    return {"nontrivial": nsolve >= 2 and not mism, "mismatches": mism, "violations": [], "tags": tags,
            "sample": {"ops": case["ops"][:6], "outputs": le[:3]}}


# ------------------------------------------------------------------------------------------------
# tie (ii): real integrators against an independent reference
# ------------------------------------------------------------------------------------------------
def to_py(e, names):
    """python source of an expression (float arithmetic); `names` maps variable names to source fragments"""
    t = e[0]
    if t == "num":
        return repr(float(Fraction(e[1])))
    if t == "pi":
        return repr(math.pi)
    if t == "var":
        return names[e[1]]
    if t in ("add", "sub", "mul", "div"):
        return "(%s %s %s)" % (to_py(e[1], names), {"add": "+", "sub": "-", "mul": "*", "div": "/"}[t], to_py(e[2], names))
    if t == "neg":
        return "(-%s)" % to_py(e[1], names)
    if t == "pow":
        return "(%s ** %d)" % (to_py(e[1], names), int(e[2]))
    if t in ("exp", "log", "sin", "cos"):
        return "_m.%s(%s)" % (t, to_py(e[1], names))
    raise ValueError("bad expr %r" % (e,))


def rhs_from_lean(lr, params):
    """f(t, x) -> list, from the Lean driver's assembled ODE expressions"""
    names = {"t": "t"}
    for i, s in enumerate(lr["states"]):
        names[s] = "x[%d]" % i
    for p in lr["params"]:
        names[p] = repr(float(Fraction(params[p])))
    src = "lambda t, x: [%s]" % ", ".join(to_py(e, names) for e in lr["ode"])
    return eval(src, {"_m": math}), src


def fd_jac(f, t, x):
    x = np.asarray(x, dtype=float)
    n = len(x)
    J = np.zeros((n, n))
    for j in range(n):
        h = 1e-6 * (1.0 + abs(x[j]))
        xp, xm = x.copy(), x.copy()
        xp[j] += h
        xm[j] -= h
        J[:, j] = (np.array(f(t, xp)) - np.array(f(t, xm))) / (2 * h)
    return J


def reference(f, x0, t0, grid, radau, direct_grid=None, hi=1e3, floor=1.0):
    """returns (ref rows at grid, info) or (None, reason); grid strictly ascending, after t0"""
    from scipy.integrate import solve_ivp
    import warnings
    with warnings.catch_warnings():
        warnings.simplefilter("ignore")
        try:
            s = solve_ivp(f, (t0, grid[-1]), x0, method="DOP853", rtol=1e-12, atol=1e-12, t_eval=grid, dense_output=True)
        except (ZeroDivisionError, OverflowError, ValueError, FloatingPointError) as exc:
            return None, "reference-raised:%s" % type(exc).__name__
        if s.status != 0 or s.y.shape[1] != len(grid) or not np.all(np.isfinite(s.y)):
            return None, "reference-failed"
        ref = s.y.T
        if np.max(np.abs(ref)) > hi:
            return None, "reference-blows-up"
        # conditioning: bound on the amplification of local errors, exp(int max(mu_2(J(x(t))),0) dt)
        tt = np.linspace(t0, grid[-1], 41)
        mus, nrm = [], []
        try:
            for ti in tt:
                J = fd_jac(f, ti, s.sol(ti))
                mus.append(max(0.0, float(np.max(np.linalg.eigvalsh((J + J.T) / 2)))))
                nrm.append(float(np.linalg.norm(J, 2)))
        except (ZeroDivisionError, OverflowError, ValueError, np.linalg.LinAlgError) as exc:
            return None, "conditioning-undefined:%s" % type(exc).__name__
        amp = math.exp(min(700.0, float(np.trapezoid(mus, tt))))
        info = {"amp": amp, "stiff": float(np.trapezoid(nrm, tt))}
        if direct_grid is None:
            info["direct"] = direct_solver_error(f, x0, t0, grid, ref, floor)
        elif direct_grid:
            info["direct"] = direct_solver_error(f, x0, t0, direct_grid, np.array([ref[grid.index(t)] for t in direct_grid]), floor)
        else:
            info["direct"] = {"default": 0.0, "1e-10": 0.0}
        if radau:
            try:
                s2 = solve_ivp(f, (t0, grid[-1]), x0, method="Radau", rtol=1e-10, atol=1e-12, t_eval=grid)
            except Exception as exc:
                return None, "radau-raised:%s" % type(exc).__name__
            if s2.status != 0:
                return None, "radau-failed"
            d = np.max(np.abs(s2.y.T - ref) / (floor + np.abs(ref)))
            info["radau_dev"] = float(d)
            if d > 1e-8:
                return None, "references-disagree"
    return ref, info


def reference_any(f, x0, t0, grid, radau, stiff=False, hi=1e3, floor=1.0):
    """reference rows for ANY ascending grid: repeated times get the same row, a time equal to t0 gets x0; the integration itself
    runs on the distinct times after t0.  scipy's own odeint (`direct`) is asked for the distinct times that are more than 4 ulps
    after t0: lsoda refuses a first output closer than that ("tout too close to t to start integration") and odeint then returns
    uninitialised rows - `first_step_degenerate` says so and the odeint-based entry points are not judged on such a grid"""
    t0 = float(t0)
    x0 = np.asarray(x0, dtype=float)
    uniq = sorted(set(float(t) for t in grid if float(t) != t0))
    close = [t for t in uniq if abs(t - t0) <= 4 * float(np.spacing(max(abs(t), abs(t0))))]
    if not uniq:
        return np.array([x0 for _ in grid]), {"amp": 1.0, "stiff": 0.0, "direct": {"default": 0.0, "1e-10": 0.0}, "first_step_degenerate": False}
    if uniq[0] < t0:
        raise ValueError("generator: a requested time precedes the initial time")
    far = [t for t in uniq if t not in close]
    if stiff:
        ref, info = reference_stiff(f, x0, t0, uniq)
    else:
        ref, info = reference(f, x0, t0, uniq, radau, direct_grid=far if close else None, hi=hi, floor=floor)
    if ref is None:
        return None, info
    rows = dict(zip(uniq, ref))
    rows[t0] = x0
    info["first_step_degenerate"] = bool(close)
    return np.array([rows[float(t)] for t in grid]), info


def reference_stiff(f, x0, t0, grid):
    """reference for the stiff catalogue member: Radau at 1e-11, cross-checked by BDF at 1e-11"""
    from scipy.integrate import solve_ivp
    import warnings
    with warnings.catch_warnings():
        warnings.simplefilter("ignore")
        s1 = solve_ivp(f, (t0, grid[-1]), x0, method="Radau", rtol=1e-11, atol=1e-14, t_eval=grid)
        s2 = solve_ivp(f, (t0, grid[-1]), x0, method="BDF", rtol=1e-11, atol=1e-14, t_eval=grid)
    if s1.status != 0 or s2.status != 0:
        return None, "stiff-reference-failed"
    ref = s1.y.T
    d = float(np.max(np.abs(s2.y.T - ref) / (1.0 + np.abs(ref))))
    if d > 1e-7:
        return None, "references-disagree"
    info = {"amp": 1.0, "stiff": float("inf"), "radau_dev": d, "direct": direct_solver_error(f, x0, t0, grid, ref)}
    return ref, info


def direct_solver_error(f, x0, t0, grid, ref, floor=1.0):
    """scaled error of scipy's own odeint on the Lean right-hand side (no pygom involved), at the default
    tolerance pygom's `integrate` uses and at the 1e-10 of `integrateFuncJac`: how well the ASSUMPTION
    'the solver approximates the flow' holds on this very instance"""
    from scipy.integrate import odeint
    out = {}
    for key, kw in (("default", {}), ("1e-10", {"rtol": 1e-10, "atol": 1e-10})):
        try:
            y, o = odeint(lambda x, t: f(t, x), x0, np.append(t0, grid), mxstep=10000, full_output=True, **kw)
            # odeint does not raise when lsoda refuses or gives up: it returns uninitialised rows (often zeros, often not) and says
            # so in its message only
            out[key] = float(np.max(np.abs(y[1:] - ref) / (floor + np.abs(ref)))) if o["message"] == "Integration successful." else float("inf")
        except Exception:
            out[key] = float("inf")
    return out


def scipy_ode_unreliable(f, x0, t0, grid, method, ref=None, full_output=False, floor=1.0, acc=TOL):
    """does scipy's own `ode` integrator (pygom's tolerances, the Lean right-hand side with a finite-difference Jacobian - no pygom
    involved) fail or lose accuracy on this instance?  Asked only when pygom raised IntegrationError or returned rows off the
    reference.  The integrator documented for `method` steps through the grid once as ONE object and once freshly created at every
    step; with `full_output` (where pygom re-chooses the integrator from the eigenvalues after every step) the fresh-per-step run
    is also made with lsoda, dopri5 and vode.  Returns a reason or None.  Observed on scipy 1.18, far from the time origin:
    a derivative that is exactly zero at x0 makes lsoda report 'illegal input' for some increments; vode-bdf reports success and is
    off by 3e-4 on one particular step of 2e-4 at t0 = -738000 (0 of 400 random neighbouring steps).  Where scipy itself gives
    up or is wrong the assumption 'the solver approximates the flow' fails on the instance and there is nothing to judge."""
    import warnings
    import scipy.integrate as si
    doc = DOC_INTEGRATOR.get(method, "lsoda")

    def make(name, x, t):
        kw = {"method": "bdf"} if name == "vode:bdf" else {}
        args = (lambda t_, x_: f(t_, x_),) if name.startswith("dop") else (lambda t_, x_: f(t_, x_), lambda t_, x_: fd_jac(f, t_, x_))
        r = si.ode(*args).set_integrator(name.split(":")[0], nsteps=10000, atol=1e-10, rtol=1e-10, **kw)
        r.set_initial_value(np.array(x, dtype=float), float(t))
        return r

    def off(rows):
        if ref is None:
            return False
        a = np.array(rows, dtype=float)
        return not np.all(np.isfinite(a)) or bool(np.max(np.abs(a - ref) / (floor + np.abs(ref))) > acc / 10)
    try:
        with warnings.catch_warnings():
            warnings.simplefilter("ignore")
            r, rows = make(doc, x0, t0), []
            for t in grid:
                r.integrate(float(t))
                if not r.successful():
                    return "%s-refuses" % doc
                rows.append(r.y.copy())
            if off(rows):
                return "%s-inaccurate" % doc
            for name in ([doc] + (["lsoda", "dopri5", "vode"] if full_output else [])):
                x, tc, rows = np.array(x0, dtype=float), float(t0), []
                for t in grid:
                    r = make(name, x, tc)
                    r.integrate(float(t))
                    if not r.successful():
                        return "fresh-%s-refuses" % name
                    x, tc = r.y.copy(), float(t)
                    rows.append(x)
                if off(rows):
                    return "fresh-%s-inaccurate" % name
    except Exception as exc:
        return "raised-%s" % type(exc).__name__
    return None


class _Rec(object):
    """records which scipy integrator the real code sets up (no change of behaviour)"""

    def __init__(self):
        self.calls = []

    def install(self):
        import scipy.integrate
        rec = self
        self.real = scipy.integrate.ode

        class RecOde(self.real):
            def set_integrator(self, name, **kw):
                rec.calls.append(name + (":bdf" if kw.get("method") == "bdf" else ""))
                return super(RecOde, self).set_integrator(name, **kw)
        scipy.integrate.ode = RecOde

    def remove(self):
        import scipy.integrate
        scipy.integrate.ode = self.real


def sig_method(sig):
    m = sig.split("method=")[1].split(":")[0]
    return None if m == "None" else m


def bucket(r):
    """decade of the worst scaled error |row - ref| / (1 + |ref|)"""
    if r <= 1e-14:
        return "<=1e-14"
    return "<=1e%d" % int(math.ceil(math.log10(r)))


def judge(sig, sol, ref, x0, grid, origin, viol, margins, key, acc=TOL, floor=1.0):
    """the property on one returned array: row count, origin row, order/accuracy (|row - ref| <= acc (1+|ref|))"""
    if not np.isfinite(acc):
        return          # scipy's own odeint reports failure on this instance: the odeint-based entry points are not judged
    n_exp = len(grid) + (1 if origin else 0)
    a = np.asarray(sol, dtype=float)
    if a.ndim != 2 or a.shape[0] != n_exp or a.shape[1] != len(x0):
        viol.append({"what": "%s returned shape %s, expected (%d, %d)" % (sig, a.shape, n_exp, len(x0)),
                     "signature": sig + ":row-count", "detail": "grid=%s includeOrigin=%s" % (list(grid), origin)})
        return
    if origin:
        if not np.array_equal(a[0], x0):
            viol.append({"what": "%s: first row %s is not the initial state %s" % (sig, [float(v) for v in a[0]], [float(v) for v in x0]),
                         "signature": sig + ":origin-row", "detail": ""})
            return
        a = a[1:]
    err = np.abs(a - ref) / (acc * (floor + np.abs(ref)))
    worst = float(np.max(err)) if err.size else 0.0
    margins[key] = max(margins.get(key, 0.0), worst * acc / TOL)
    if not np.all(np.isfinite(a)) or worst > 1.0:
        i = int(np.argmax(np.max(err, axis=1)))
        what = "accuracy"
        if len(grid) >= 2 and np.all(np.abs(a - ref[-1]) <= acc * (floor + np.abs(ref[-1]))) and np.max(np.abs(ref[0] - ref[-1]) / (floor + np.abs(ref[-1]))) > 1e-4:
            what = "rows-equal-final-state"
        elif len(grid) >= 2 and any(np.all(np.abs(a[i] - ref[j]) <= acc * (floor + np.abs(ref[j]))) for j in range(len(grid)) if grid[j] != grid[i]):
            what = "row-order"
        viol.append({"what": "%s: row for t=%r is %s, the ODE solution there is %s (%s)" % (sig, grid[i], [float(v) for v in a[i]], [float(v) for v in ref[i]], what),
                     "signature": sig + ":" + what,
                     "detail": "returned=%s reference=%s grid=%s" % (a.tolist(), ref.tolist(), list(grid))})


def run_runtime(case):
    from .. import pymodel
    from pygom.model import ode_utils
    tags, mism, viol = [], [], []
    if case["kind"] == "catalogue":
        from pygom import common_models
        ent = catalogue_entry(case["name"])
        spec = ent["spec"]
        model = getattr(common_models, ent.get("fn", case["name"]))()
        from .. import bootstrap
        if case.get("backend", "lambda") == "lambda":
            bootstrap.fast_backend(model)
        tags.append("catalogue:%s" % case["name"])
    else:
        spec = case["spec"]
        model = pymodel.build(spec, backend=case.get("backend", "lambda"))
        for k in case.get("kinds", []):
            tags.append("rate:" + k)
        tags.append("nS=%d" % case["nS"])
    lr = leanio.driver().call({"op": "assemble", "derivs": False, "model": spec})
    if lr.get("err") is not None:
        mism.append({"what": "runtime:assemble", "detail": "lean rejects the model: %s" % lr.get("err")})
        return {"nontrivial": False, "mismatches": mism, "violations": viol, "tags": tags}
    states = [str(s) for s in model.state_list]
    params = [str(p) for p in model.param_list]
    if states != lr["states"] or sorted(params) != sorted(lr["params"]):
        mism.append({"what": "runtime:names", "detail": "python %s %s lean %s %s" % (states, params, lr["states"], lr["params"])})
        return {"nontrivial": False, "mismatches": mism, "violations": viol, "tags": tags}
    f, src = rhs_from_lean(lr, case["params"])
    x0 = np.array([float(Fraction(v)) for v in case["x0"]])
    t0 = float(Fraction(case["t0"]))
    hs = float(Fraction(case.get("hscale", "1")))
    hi, floor = 1e3, 1.0
    if case["kind"] == "catalogue":
        hi, floor = float(ent.get("hi", 1e3)), float(ent.get("floor", 1.0))
        if ent.get("scale"):
            tags.append("scale:%s" % ent["scale"])
    if case.get("wide") and case["wide"]["kind"] == "doc":
        grid = wide_grid(t0, 1.0, case["wide"])
    elif case["kind"] == "catalogue" and case.get("wide"):
        grid = wide_grid(t0, float(ent["T"]), case["wide"])
    elif case["kind"] == "catalogue" and "grid" in case:
        grid = [float(Fraction(v)) for v in case["grid"]]          # explicit grid (older corpus cases)
    elif case["kind"] == "catalogue":
        grid = [t0 + hs * float(ent["T"]) * float(Fraction(v)) for v in case["fracs"]]
    else:
        try:
            L = float(np.linalg.norm(fd_jac(f, t0, x0), 2))
        except (ZeroDivisionError, OverflowError, ValueError):
            return {"nontrivial": False, "mismatches": mism, "violations": viol, "tags": tags + ["rejected:rhs-undefined-at-x0"]}
        if not np.isfinite(L):
            return {"nontrivial": False, "mismatches": mism, "violations": viol, "tags": tags + ["rejected:rhs-undefined-at-x0"]}
        T = min(float(case["Tmax"]), 2.0 / L) if L > 0 else float(case["Tmax"])
        T = float(Fraction(T).limit_denominator(1024)) or 1.0 / 1024
        grid = wide_grid(t0, T, case["wide"]) if case.get("wide") else [t0 + hs * T * float(Fraction(v)) for v in case["fracs"]]
    grid = apply_gridmods(t0, grid, case.get("gridmods", []))
    if any(b < a for a, b in zip([t0] + grid, grid)):
        raise ValueError("generator: the grid is not ascending")
    span = grid[-1] - t0
    if 0 < span < 1e6 * float(np.spacing(max(abs(t0), abs(grid[-1])))) and not all(t == grid[0] for t in grid):
        # the whole horizon is shorter than a million ulps of t: the internal steps of every integrator are quantised and scipy
        # itself is no longer accurate to 1e-8 there (measured: errors up to 1e-4 from vode at |t| = 1e8, horizon 2e-3)
        return {"nontrivial": False, "mismatches": mism, "violations": viol, "tags": tags + ["rejected:horizon-below-1e6-ulps-of-t"]}
    if degenerate_steps(t0, grid, 32, 2048):
        # measured on scipy 1.18 without pygom: a freshly started vode asked for a step of 64..256 ulps at |t| = 1e6 reports success
        # and is off by 6e-6; below 32 ulps the integrators refuse or are exact, above 2048 they are accurate
        return {"nontrivial": False, "mismatches": mism, "violations": viol, "tags": tags + ["rejected:step-between-32-and-2048-ulps-of-t"]}
    if degenerate_steps(t0, grid):
        tags.append("grid-has-zero-or-few-ulp-step")
    tags.append("grid=%s" % case["grid_kind"])
    if case.get("wide"):
        gr = gap_ratio(t0, grid)
        tags += ["wide-grid:%s" % case["wide"]["kind"], "gap-ratio:1e%d" % int(math.floor(math.log10(max(gr, 1.0))))]
    tags.append("family=%s" % case.get("family", case["kind"]))
    tags.append("t0=%s" % ("far:%s" % ("+" if t0 > 0 else "-") if abs(t0) >= 1e4 else "near"))
    tags.append("horizon=%s" % ("tiny" if hs < 1 else "long" if hs > 1 else "normal"))
    for m_ in case.get("gridmods", []):
        tags.append("gridmod=%s" % m_["op"])
    if len(grid) >= 2 and abs(t0) >= 1e4:
        gaps = [b - a for a, b in zip([t0] + grid, grid) if b > a]
        if gaps and min(gaps) <= 1e-5 * abs(t0):
            tags.append("spacing-below-1e-5-of-|t|")
    for p_, v_ in case["params"].items():
        if Fraction(v_) == 0:
            tags.append("boundary:zero-parameter")
            break
    if any(Fraction(v) == 0 for v in case["x0"]):
        tags.append("boundary:zero-initial-state" + ("-all" if all(Fraction(v) == 0 for v in case["x0"]) else ""))
    tags.append("backend:%s" % case.get("backend", "lambda"))
    stiff = bool(case.get("stiff"))
    try:
        if model.linear_ode():
            tags.append("linear_ode()=True")
    except Exception:
        pass
    ref, info = reference_any(f, x0, t0, grid, case.get("radau"), stiff=stiff, hi=hi, floor=floor)
    if ref is None:
        return {"nontrivial": False, "mismatches": mism, "violations": viol, "tags": tags + ["rejected:%s" % info]}
    if case["kind"] == "model" and info["amp"] > AMP_MAX:
        return {"nontrivial": False, "mismatches": mism, "violations": viol, "tags": tags + ["rejected:ill-conditioned"]}
    acc_ode = TOL
    if floor < 1.0:
        # relative down to `floor`: the solver's ABSOLUTE tolerance (1e-10) limits the accuracy of the small components; the acceptance
        # is 20 x the error of scipy's own solver at pygom's tolerances on this instance, in the same metric (at least TOL, at most 1e-3)
        acc_ode = max(TOL, 20.0 * info["direct"]["1e-10"])
        if not acc_ode <= 1e-3:
            return {"nontrivial": False, "mismatches": mism, "violations": viol, "tags": tags + ["rejected:solver-inaccurate-at-1e-10"]}
        tags.append("floor=%g:ode-acceptance=%s" % (floor, "1e-6" if acc_ode == TOL else "20x-direct-solver-error"))
    elif info["direct"]["1e-10"] > TOL / 100:
        return {"nontrivial": False, "mismatches": mism, "violations": viol, "tags": tags + ["rejected:solver-inaccurate-at-1e-10"]}
    # pygom's `integrate` runs odeint at scipy's default tolerance (1.49e-8): on instances where scipy's own odeint,
    # on the Lean right-hand side, is itself further than TOL/20 from the reference the acceptance is 20 x that error
    acc_odeint = max(TOL, 20.0 * info["direct"]["default"])
    tags.append("odeint-acceptance=%s" % ("1e-6" if acc_odeint == TOL else "20x-direct-odeint-error" if np.isfinite(acc_odeint) else
                                          "none:scipy-odeint-reports-failure-on-this-instance"))
    if case.get("radau"):
        tags.append("radau-cross-checked")
    moved = float(np.max(np.abs(ref - x0) / (1.0 + np.abs(x0))))
    model.parameters = {p: float(Fraction(case["params"][p])) for p in params}
    tg = grid if case["container"] == "list" else np.array(grid)
    margins = {}
    rec = _Rec()

    def call(sig, fn, origin, g, want_first=None, has_output=False):
        rec.calls = []
        try:
            rec.install()
            try:
                res = fn()
            finally:
                rec.remove()
        except Exception as exc:
            if "method=odeint" in sig and type(exc).__name__ in ZERO_STEP_ERRORS and (
                    not np.isfinite(acc_odeint) or info.get("first_step_degenerate") or
                    (g is not grid and 0 < abs(g[0] - t0) <= 4 * float(np.spacing(max(abs(g[0]), abs(t0)))))):
                # scipy's own odeint reports failure on this instance: an entry point that says so instead of handing out the rows
                # (proposed_fixes/C02-odeint-failure-ignored.diff) is not judged either
                tags.append("odeint-failure-reported:%s:not-judged" % sig.split(":")[0])
                return
            if degenerate_steps(t0, g) and type(exc).__name__ in ZERO_STEP_ERRORS and "method=odeint" not in sig:
                # unchanged pygom / scipy: an `ode` integrator asked for a step of (nearly) zero length reports failure
                tags.append("zero-length-step:%s:%s:not-judged" % (sig.split(":full_output")[0], type(exc).__name__))
                return
            if type(exc).__name__ in ZERO_STEP_ERRORS and "method=odeint" not in sig and scipy_ode_unreliable(f, x0, t0, g, sig_method(sig)):
                tags.append("scipy-ode-refuses-this-instance:%s:not-judged" % sig.split(":full_output")[0])
                return
            viol.append({"what": "%s raised %s: %s" % (sig, type(exc).__name__, str(exc)[:200]),
                         "signature": sig + ":raised:" + type(exc).__name__, "detail": ""})
            return
        sol = res[0] if has_output else res
        r = ref if g is grid else ref[-1:]
        nv = len(viol)
        judge(sig, sol, r, x0, g, origin, viol, margins, sig.split(":")[0], acc_odeint if "method=odeint" in sig else acc_ode, floor=floor)
        if len(viol) > nv and "method=odeint" not in sig and viol[-1]["signature"].split(":")[-1] in ("accuracy", "row-order", "rows-equal-final-state"):
            # before a wrong row is reported: is scipy's own integrator (no pygom) right on this very instance?
            why = scipy_ode_unreliable(f, x0, t0, g, sig_method(sig), ref=r, full_output="full_output=True" in sig or sig.startswith("integrate2"),
                                       floor=floor, acc=acc_ode)
            if why:
                del viol[nv:]
                margins.pop(sig.split(":")[0], None)
                tags.append("scipy-ode-unreliable-on-this-instance:%s:%s:not-judged" % (sig.split(":full_output")[0], why))
        if want_first is not None and (not rec.calls or rec.calls[0] != want_first):
            viol.append({"what": "%s set up scipy integrator %s, the documented integrator for this method is %s" % (
                sig, rec.calls[:1], want_first), "signature": sig + ":wrong-integrator", "detail": str(rec.calls[:5])})

    def fresh():
        model.initial_values = (x0.copy(), t0)

    # model.integrate / solve_determ (odeint)
    if info.get("first_step_degenerate"):
        tags.append("odeint-entries-not-judged:first-output-within-4-ulps-of-t0")
    for fo in (() if info.get("first_step_degenerate") else (False, True)):
        fresh()
        call("integrate:method=odeint:full_output=%s" % fo, lambda: model.integrate(tg, full_output=fo), True, grid, has_output=fo)
        fresh()
        call("solve_determ:method=odeint:full_output=%s" % fo, lambda: model.solve_determ(tg, full_output=fo), True, grid)
    odeint_only = case.get("entries") == "odeint"
    if odeint_only:
        # the documented Robertson grid out to t = 4e6: what the documentation and the repository's tests run there is `integrate`
        # (odeint); the scipy.integrate.ode based entry points give up with IntegrationError (nsteps = 10000 at rtol = 1e-10) on the
        # unchanged tree and cost ~10 s per case - not asked
        tags.append("entries=odeint-only")
    for m in (() if odeint_only else (None, "lsoda", "ivode") if stiff else METHODS):    # explicit / Adams integrators are not meant for stiff systems
        for fo in (False, True):
            fresh()
            call("integrate2:method=%s:full_output=%s" % (m, fo), lambda: model.integrate2(tg, full_output=fo, method=m), True, grid,
                 want_first=DOC_INTEGRATOR.get(m), has_output=fo)
            for io in (False, True):
                call("integrateFuncJac:method=%s:full_output=%s" % (m, fo),
                     lambda: ode_utils.integrateFuncJac(model.ode_T, model.jacobian_T, x0.copy(), t0, tg, includeOrigin=io,
                                                        full_output=fo, method=m), io, grid,
                     want_first=DOC_INTEGRATOR.get(m), has_output=fo)
    # scalar time: ONE step from t0 to the last time.  Assumption A is validated for that call on its own (a single long step can
    # alias a periodic rate that the grid resolves: scipy's odeint then returns x0 with "Integration successful.")
    tl = grid[-1]
    far_enough = abs(tl - t0) > 4 * float(np.spacing(max(abs(tl), abs(t0))))
    dsc = direct_solver_error(f, x0, t0, [tl], ref[-1:], floor) if far_enough and not stiff else {"default": 0.0, "1e-10": 0.0}
    acc_grid = acc_odeint
    acc_odeint = max(acc_odeint, 20.0 * dsc["default"])
    if acc_odeint != acc_grid:
        tags.append("scalar-time:odeint-acceptance=20x-direct-odeint-error")
    if tl == t0 or far_enough:
        fresh()
        call("integrate:method=odeint:full_output=False", lambda: model.integrate(tl), True, [tl])
    if floor < 1.0:
        acc_ode = max(acc_ode, 20.0 * dsc["1e-10"])
    if odeint_only:
        pass
    elif (dsc["1e-10"] > TOL / 100) if floor >= 1.0 else not (acc_ode <= 1e-3):
        tags.append("scalar-time:solver-inaccurate-at-1e-10:not-judged")
    else:
        fresh()
        call("integrate2:method=None:full_output=False", lambda: model.integrate2(tl), True, [tl])
        call("integrateFuncJac:method=None:full_output=False",
             lambda: ode_utils.integrateFuncJac(model.ode_T, model.jacobian_T, x0.copy(), t0, tl), False, [tl])
    for k, v in margins.items():
        tags.append("margin:%s:%s" % (k, bucket(v * TOL)))
    tags.append("amp<=%s" % ("2" if info["amp"] <= 2 else "5" if info["amp"] <= 5 else "20" if info["amp"] <= 20 else "inf"))
    return {"nontrivial": moved > 1e-3 and not viol, "mismatches": mism, "violations": viol, "tags": tags,
            "sample": {"kind": case["kind"], "name": case.get("name"), "ode": src[:400], "x0": case["x0"], "grid": grid,
                       "amp": info["amp"], "direct": info["direct"], "margins": margins, "worst_error_over_tol": max(margins.values()) if margins else None}}


# ------------------------------------------------------------------------------------------------
# tie (iii): SESSIONS - several solves on live instances, DIRECT ORACLE only
#
# The Lean model (Pygom/Integrate.lean, Props/C02.lean) describes ONE call as a pure function of
# (cfg, x0, t0, grid, flow): `rows_correct` & co. say the rows depend on nothing else - in particular not on
# what was solved before, on another model instance, or on the Python type of the arguments.  The instance
# state the real entry points read and write (`_x0`, `_t0`, `_odeTime`, `_odeSolution`) is modelled by
# `Inst`/`runOps` with `solve_reads_current` (every solve in every history is the pure function of the
# values set last) and `earlier_results_kept` (outputs already produced are a prefix of the outputs of any
# longer history); `stale_grid_counterexample` shows that a `_setIntegrateTime` that keeps the old time
# vector when the grid repeats does NOT have that property.  The probes below look for real code that is not
# such a function.  Each solve is judged against the independent reference for ITS OWN inputs:
#   history    one instance: solve; change one of {t0, x0, parameters, grid (same length other values / same
#              end points other interior / superset / subset / scalar), container, method, full_output,
#              includeOrigin, entry point}; solve; restore; solve again.  Only what differs is re-assigned.
#   siblings   live instances with the same names: parameters and/or states declared in another order, other
#              values, a re-defined derived parameter / an extra term, a fresh twin built in mid-history, a
#              deepcopy; solved interleaved.
#              Left-over configuration: distributions assigned to the parameters (scipy.stats frozen gamma, optionally used
#              by a random solve_determ), then every parameter given its plain number again: the solve must be the one for
#              those numbers (random parameters themselves are outside the model and are not judged).
#   forms      integer-valued inputs in every accepted spelling (grid list/tuple/ndarray/int list/int64/int32/
#              numpy scalars/mixed/scalar, x0 list/tuple/float or int ndarray/int list, t0 float/int/np.float64/
#              np.int64, parameters dict/partial dict/tuples/ordered list/ordered ndarray), a grid starting at t0.
# Returned arrays are KEPT and compared, after all later solves, with a copy taken when they were returned;
# every object handed to pygom is compared with a copy taken before (a write into it is a side effect - tagged and reported as a
# mismatch with the pure model; the violation, if any, is the wrong rows some judged call then returns).  Repeated solves with equal values must
# agree bit for bit (a disagreement is a mismatch with the pure model; off the reference it is a violation).
# ------------------------------------------------------------------------------------------------
ENTRY_CONFIGS = ([("integrate", None, fo, True) for fo in (False, True)] +
                 [("solve_determ", None, fo, True) for fo in (False, True)] +
                 [("integrate2", m, fo, True) for m in METHODS for fo in (False, True)] +
                 [("integrateFuncJac", m, fo, io) for m in METHODS for fo in (False, True) for io in (False, True)])
GFORMS_FLOAT = ["list", "tuple", "ndarray", "npscalars"]
GFORMS_INT = ["intlist", "int64", "int32", "mixed"]
XFORMS_FLOAT = ["ndarray", "list", "tuple"]
XFORMS_INT = ["int64", "intlist", "inttuple", "mixedlist"]
TFORMS_FLOAT = ["float", "np.float64"]
TFORMS_INT = ["int", "np.int64"]
PFORMS = ["dict", "partial", "tuples", "ordered-list", "ordered-ndarray"]
# unchanged pygom/scipy: an `ode` integrator asked to advance by zero (first requested time == t0) reports
# failure for lsoda (single-integrator path) / dopri5 / dop853 and pygom raises IntegrationError: tagged, not judged
ZERO_STEP_ERRORS = ("IntegrationError",)
# assignments the unchanged pygom refuses (the refusal is tagged; what is judged is the next solve, after proper values were given)
BAD_ASSIGN = ["x0-short", "x0-long", "x0-string", "t0-string", "t0-list", "params-unknown-name", "params-unknown-only", "params-short-array",
              "params-long-array"]


def entry_sig(e):
    if e[0] in ("integrate", "solve_determ"):
        return "%s:method=odeint:full_output=%s" % (e[0], e[2])
    return "%s:method=%s:full_output=%s" % (e[0], e[1], e[2])


def _solve_op(inst_, cfg_, grid_, e, forms, **over):
    d = {"op": "solve", "inst": inst_, "cfg": cfg_, "grid": grid_, "entry": e[0], "method": e[1], "fo": bool(e[2]), "io": bool(e[3])}
    d.update(forms)
    d.update(over)
    return d


def _gen_values(rng, names, lo, hi, den):
    return {n: fr(Fraction(rng.randint(lo, hi), den)) for n in names}


def _differ(rng, base, lo, hi, den):
    """another value table with the same keys: redrawn, or (half of the time, >= 2 distinct values) the same
    values bound to other names - the table an argument-order slip would produce"""
    keys = list(base)
    if len(set(base.values())) >= 2 and rng.random() < 0.5:
        while True:
            vals = [base[k] for k in keys]
            rng.shuffle(vals)
            out = dict(zip(keys, vals))
            if out != base:
                return out
    while True:
        out = _gen_values(rng, keys, lo, hi, den)
        if out != base or not keys:
            return out


def _scaled(rng, base, keep=()):
    out = {}
    for k, v in base.items():
        out[k] = v if k in keep else fr(Fraction(v) * rng.choice([Fraction(1, 2), Fraction(3, 4), Fraction(5, 4), Fraction(3, 2)]))
    return out


def _session_model(rng, cat_prob, min_params=1, int_values=False, names_only=None):
    """one instance description: (instance dict with config A, kind tags)"""
    cats = [c for c in catalogue() if not c.get("stiff") and (names_only is None or c["name"] in names_only)]
    if rng.random() < cat_prob:
        ent = rng.choice([c for c in cats if len(c["params"]) >= min_params])
        states = ent["spec"]["state"]["list"]
        inst = {"source": "common_models:" + ent["name"], "spec": ent["spec"], "decl_states": list(states),
                "decl_params": list(ent["spec"]["param"]["list"]), "T": ent["T"], "amp_check": False,
                "configs": {"A": {"params": dict(ent["params"]), "x0": dict(zip(states, ent["x0"])), "t0": "0"}}}
        return inst
    while True:
        if rng.random() < 0.25:
            # at most first order in the states (linear_ode() is True): chains, constant inflow / ODE terms, time-dependent coefficients
            spec, meta = gen_affine_spec(rng, rng.choice(AFFINE))
        else:
            spec, meta = gen.gen_model(rng, max_states=4, max_params=4, min_events=1, max_events=4, allow_time=rng.random() < 0.2,
                                       allow_range=rng.random() < 0.3, limits=False)
        if len(meta["params"]) >= min_params:
            break
    if int_values:
        params = _gen_values(rng, meta["params"], 1, 4, 16)
        x0 = {s: str(rng.randint(1, 2)) for s in meta["states"]}
    else:
        params = _gen_values(rng, meta["params"], 2, 16, 16)
        x0 = _gen_values(rng, meta["states"], 2, 16, 8)
    return {"source": "spec", "spec": spec, "decl_states": list(meta["abstract"]["decl_states"]), "decl_params": list(meta["params"]),
            "kinds": sorted(set(meta["kinds"])), "amp_check": True, "configs": {"A": {"params": params, "x0": x0, "t0": "0"}}}


def _tbase(rng, integer=False):
    """where the session sits on the time axis: near the origin or far from it (both signs)"""
    if rng.random() < 0.3:
        return rng.choice([738000, -738000, 10000, -10000, 10 ** 6, -(10 ** 6)] + ([] if integer else [Fraction(-246913, 2)]))
    return rng.choice([0, 0, 1, -1, 3] if integer else [0, 0, Fraction(1, 2), -1, 3])


def _base_grid(rng):
    k = rng.randint(2, 8)
    if rng.random() < 0.5:
        return [Fraction(i + 1, k) for i in range(k)]
    return [Fraction(v, 64) for v in sorted(set(rng.randint(8, 64) for _ in range(k)))] + ([] if rng.random() < 0.5 else [Fraction(1)])


def _float_forms(rng):
    return {"gform": rng.choice(GFORMS_FLOAT), "xform": rng.choice(XFORMS_FLOAT), "tform": rng.choice(TFORMS_FLOAT),
            "pform": rng.choice(PFORMS), "via": rng.choice(["attr", "values"])}


def _other(rng, pool, cur):
    return rng.choice([v for v in pool if v != cur])


def gen_session_history(rng, entries, radau):
    inst = _session_model(rng, 0.3)
    A = inst["configs"]["A"]
    cat = inst["source"] != "spec"
    g0 = sorted(set(_base_grid(rng)))
    grids = {"G0": g0}
    c = rng.choice([Fraction(3, 4), Fraction(7, 8), Fraction(17, 16)])
    grids["G1"] = [f * c for f in g0]                                            # same length, other values
    if len(g0) >= 3:                                                             # same length and end points, other interior
        while True:
            mid = sorted(set(g0[0] + (g0[-1] - g0[0]) * Fraction(rng.randint(1, 63), 64) for _ in range(len(g0) - 2)))
            if len(mid) == len(g0) - 2 and mid != g0[1:-1]:
                break
        grids["G4"] = [g0[0]] + mid + [g0[-1]]
    sup = set(g0)
    for a, b in zip([Fraction(1, 8)] + g0[:-1], g0):
        if rng.random() < 0.5:
            sup.add((a + b) / 2)
    if rng.random() < 0.5 or len(sup) == len(g0):
        sup.add(g0[-1] + Fraction(1, 8))
    grids["G2"] = sorted(sup)                                                    # superset
    keep = [f for f in g0 if rng.random() < 0.5] or [rng.choice(g0)]
    if len(keep) == len(g0):
        keep = keep[1:] if len(keep) > 1 and rng.random() < 0.5 else keep[:-1] or keep
    grids["G3"] = keep                                                           # subset
    grids["Gs"] = [g0[-1]]                                                       # the last time, passed as a scalar
    g5 = list(g0)
    for _ in range(rng.randint(1, 2)):                                           # replicate times (a time asked twice or three times)
        j = rng.randrange(len(g5))
        g5 = g5[:j + 1] + [g5[j]] * rng.choice([1, 1, 2]) + g5[j + 1:]
    grids["G5"] = g5
    minfrac = min(min(v) for v in grids.values())
    tB = rng.choice([Fraction(-1, 3), Fraction(-1, 4), Fraction(-1, 8), minfrac / 2])
    if cat:
        pB = _scaled(rng, A["params"], keep=("N",))
        xB = _scaled(rng, A["x0"])
        if xB == A["x0"]:       # all-zero initial states cannot be scaled
            xB = dict(A["x0"], **{list(A["x0"])[0]: fr(Fraction(A["x0"][list(A["x0"])[0]]) + 1)})
    else:
        pB = _differ(rng, A["params"], 2, 16, 16)
        xB = _differ(rng, A["x0"], 2, 16, 8)
    inst["configs"].update({"Bt0": dict(A, t0=fr(tB)), "Bx0": dict(A, x0=xB), "Bpar": dict(A, params=pB),
                            "Btx": dict(A, x0=xB, t0=fr(tB))})
    base = _float_forms(rng)
    ops = []
    for e in entries:
        b = lambda **kw: _solve_op(0, "A", "G0", e, base, **kw)
        dims = [dict(cfg="Bt0"), dict(cfg="Bx0"), dict(cfg="Bpar"), dict(cfg="Btx"), dict(grid="G1"), dict(grid="G2"), dict(grid="G5"),
                dict(grid="G3"), dict(grid="Gs", gform=rng.choice(["scalar", "np.float64"])), dict(cfg="Bt0", grid="G1"),
                dict(gform=_other(rng, GFORMS_FLOAT, base["gform"])), dict(fo=not e[2])]
        if "G4" in grids:
            dims.append(dict(grid="G4"))
        if e[0] in ("integrate2", "integrateFuncJac"):
            dims.append(dict(method=_other(rng, METHODS, e[1])))
        if e[0] == "integrateFuncJac":
            dims.append(dict(io=not e[3]))
        o = rng.choice([x for x in ENTRY_CONFIGS if x[0] != e[0]])
        dims.append(dict(entry=o[0], method=o[1], fo=bool(o[2]), io=bool(o[3])))
        rng.shuffle(dims)
        ops.append(b())
        for d in dims:
            if "cfg" in d:      # how the change reaches the instance
                d["via"] = rng.choice(["attr", "values"])
                d["pform"] = rng.choice(PFORMS)
            ops.append(b(**d))
            if rng.random() < 0.12:
                # an input the unchanged pygom REJECTS (wrong length, unknown name, not a number) is attempted in between; whatever it
                # left behind, the instance is then given its proper values again and must solve for them
                ops.append({"op": "bad-assign", "inst": 0, "what": rng.choice(BAD_ASSIGN)})
            if rng.random() < 0.85:
                ops.append(b())         # restored
        ops.append(b())
    # left-over configuration, at the end of the session (everything after it carries `after-random-parameters` in its
    # history class): distributions are assigned to the parameters and, half of the time, used by a random solve_determ;
    # then every parameter is given its plain number again and each entry point solves once more
    for e in entries:
        ops.append({"op": "randomise", "inst": 0, "grid": "G0", "solve": rng.random() < 0.5})
        ops.append(_solve_op(0, "A", "G0", e, base, pform=rng.choice([f for f in PFORMS if f != "partial"])))
    return {"kind": "session", "flavour": "history", "instances": [inst], "tbase": fr(_tbase(rng)),
            "Tmax": rng.choice([1, 2, 3]), "grids": {k: [fr(f) for f in v] for k, v in grids.items()}, "ops": ops, "radau": bool(radau)}


def permuted_instance(rng, inst, perm_states):
    """the same definition with the parameter list (and optionally the state list) declared in another order,
    other parameter values (half of the time the SAME values bound to other names), other initial state"""
    import copy
    out = copy.deepcopy(inst)
    out["source"] = "spec"
    dp = list(inst["decl_params"])
    if len(dp) >= 2:
        while dp == inst["decl_params"]:
            rng.shuffle(dp)
    ds = list(inst["decl_states"])
    if perm_states and len(ds) >= 2:
        while ds == inst["decl_states"]:
            rng.shuffle(ds)
    out["decl_params"], out["decl_states"] = dp, ds
    out["spec"]["param"] = {"list": dp}
    out["spec"]["state"] = {"list": ds}
    return out


def redefined_instance(rng, inst):
    """same names, another definition: the first derived parameter gets + 1, or the first state an extra decay term"""
    import copy
    out = copy.deepcopy(inst)
    out["source"] = "spec"
    spec = out["spec"]
    if spec.get("derived"):
        spec["derived"][0][1] = E.add(spec["derived"][0][1], E.num(1))
    else:
        s = gen.expand_decl(inst["decl_states"])[0]
        p = inst["decl_params"][0]
        spec["ctor"]["ode"] = list(spec["ctor"]["ode"]) + [{"type": "ODE", "origin": s, "dest": None, "mag": N_(1),
                                                             "eq": E.neg(_m(V(p), V(s)))}]
    return out


def gen_session_siblings(rng, entries, radau):
    first = _session_model(rng, 0.35, min_params=2, names_only=("SIS", "SIR", "SEIR", "Lotka_Volterra", "SIR_norm", "FitzHugh"))
    cat = first["source"] != "spec"
    if cat:
        first["source"] = "spec"            # the hand-written equations through the ODE route: textually identical siblings
    A = first["configs"]["A"]
    insts = [first]
    second = permuted_instance(rng, first, perm_states=rng.random() < 0.4)
    if cat:
        second["configs"] = {"A": {"params": _scaled(rng, A["params"], keep=("N",)), "x0": _scaled(rng, A["x0"]), "t0": "0"}}
    else:
        second["configs"] = {"A": {"params": _differ(rng, A["params"], 2, 16, 16), "x0": _differ(rng, A["x0"], 2, 16, 8),
                                   "t0": fr(rng.choice([0, Fraction(-1, 4)]))}}
    insts.append(second)
    if rng.random() < 0.6:
        third = redefined_instance(rng, first)
        third["configs"] = {"A": dict(A)}
        insts.append(third)
    twin = len(insts)
    insts.append({"copy_of": 0, "how": "rebuild"})          # fresh twin of the first, built in mid-history
    clone = len(insts)
    insts.append({"copy_of": 0, "how": "deepcopy"})
    first["configs"]["B"] = {"params": second["configs"]["A"]["params"], "x0": A["x0"], "t0": A["t0"]}
    g0 = sorted(set(_base_grid(rng)))
    forms = [_float_forms(rng) for _ in insts]
    for f in forms:
        f["via"] = "values"
    ops = []
    live = list(range(len(insts) - 2))
    late = rng.random() < 0.3          # the second model is built only after the first has solved
    for i in live:
        if not (late and i == 1):
            ops.append({"op": "build", "inst": i})
    for n, e in enumerate(entries):
        order = live + [rng.choice(live) for _ in range(2)]
        if n == 0:
            order = [0] + [i for i in live if i != 0] + [0, 1]
        else:
            rng.shuffle(order)
        for i in order:
            ops.append(_solve_op(i, "A", "G0", e, forms[i]))
        if n == 0:
            # the first instance moves to the second one's parameter values; a fresh twin and a deepcopy taken before
            # the move solve with the OLD values in between
            ops.append({"op": "deepcopy", "inst": 0, "as": clone})
            ops.append(_solve_op(0, "B", "G0", e, forms[0], pform=rng.choice(PFORMS)))
            ops.append({"op": "build", "inst": twin})
            ops.append(_solve_op(twin, "A", "G0", e, forms[twin]))
            ops.append(_solve_op(clone, "A", "G0", e, forms[clone]))
            ops.append(_solve_op(0, "B", "G0", e, forms[0]))
            ops.append(_solve_op(0, "A", "G0", e, forms[0], pform=rng.choice(PFORMS)))
            ops.append(_solve_op(clone, "A", "G0", e, forms[clone]))
    return {"kind": "session", "flavour": "siblings", "instances": insts, "tbase": fr(_tbase(rng)),
            "Tmax": rng.choice([1, 2, 3]), "grids": {"G0": [fr(f) for f in g0]}, "ops": ops, "radau": bool(radau)}


def gen_session_forms(rng, entries, radau):
    inst = _session_model(rng, 0.0, int_values=True)
    k = rng.randint(2, 3)
    g0 = list(range(1, k + 1)) if rng.random() < 0.6 else sorted(rng.sample([1, 2, 3], 2))
    grids = {"G0": [str(v) for v in g0], "Gs": [str(g0[-1])], "Gz": ["0"] + [str(v) for v in g0]}
    # 2 in 5: half-integer times (T = 1/2) - integer spellings of x0 and t0 together with a grid that is NOT integer valued
    half = rng.random() < 0.4
    gint = [] if half else GFORMS_INT
    base = {"gform": "list", "xform": "ndarray", "tform": "float", "pform": "dict", "via": "values"}
    ops = []
    for e in entries:
        b = lambda **kw: _solve_op(0, "A", "G0", e, base, **kw)
        var = [dict(gform=g) for g in GFORMS_FLOAT[1:] + gint] + [dict(xform=x) for x in XFORMS_FLOAT[1:] + XFORMS_INT] + \
              [dict(tform=t) for t in TFORMS_FLOAT[1:] + TFORMS_INT] + [dict(pform=p) for p in PFORMS[1:]] + \
              [dict(grid="Gs", gform="scalar"), dict(grid="Gs", gform="np.float64"), dict(grid="Gz")]
        if half:
            var += [dict(gform="ndarray", xform="int64", tform="int"), dict(gform="tuple", xform="intlist", tform="np.int64"),
                    dict(grid="Gs", gform="scalar", tform="int"), dict(grid="Gz", gform="ndarray", tform="int")]
        else:
            var += [dict(gform="int64", xform="int64", tform="int"), dict(gform="intlist", xform="intlist", tform="np.int64"),
                    dict(grid="Gs", gform="intscalar"), dict(grid="Gs", gform="np.int64"), dict(grid="Gz", gform="int64", tform="int")]
        rng.shuffle(var)
        ops.append(b())
        for d in var:
            d["via"] = rng.choice(["attr", "values"])
            ops.append(b(**d))
        ops.append(b())
    return {"kind": "session", "flavour": "forms", "instances": [inst], "tbase": str(_tbase(rng, integer=True)), "Tfixed": "1/2" if half else "1",
            "grids": grids, "ops": ops, "radau": bool(radau)}


def _container(vals, form):
    """the object handed to pygom for a list of float values"""
    if form == "list":
        return list(vals)
    if form == "tuple":
        return tuple(vals)
    if form == "ndarray":
        return np.array(vals, dtype=float)
    if form == "npscalars":
        return [np.float64(v) for v in vals]
    ints = [int(v) for v in vals]
    assert [float(i) for i in ints] == list(vals), "integer form asked for non-integer values"
    if form == "intlist":
        return ints
    if form == "inttuple":
        return tuple(ints)
    if form == "int64":
        return np.array(ints, dtype=np.int64)
    if form == "int32":
        return np.array(ints, dtype=np.int32)
    if form in ("mixed", "mixedlist"):
        return [i if j % 2 == 0 else float(i) for j, i in enumerate(ints)]
    raise ValueError(form)


def _scalar(v, form):
    if form in ("float", "scalar"):
        return float(v)
    if form == "np.float64":
        return np.float64(v)
    assert float(int(v)) == v, "integer form asked for a non-integer value"
    return int(v) if form in ("int", "intscalar") else np.int64(int(v))


def _snapshot(obj):
    if isinstance(obj, np.ndarray):
        return ("nd", obj.dtype.str, obj.copy())
    if isinstance(obj, (list, tuple)):
        return ("seq", type(obj).__name__, [(type(v).__name__, float(v)) if not isinstance(v, tuple) else (str(v[0]), float(v[1])) for v in obj])
    if isinstance(obj, dict):
        return ("dict", None, sorted((str(k), float(v)) for k, v in obj.items()))
    return ("scalar", type(obj).__name__, float(obj))


def _same_as_snapshot(obj, snap):
    now = _snapshot(obj)
    if now[0] == "nd":
        return snap[0] == "nd" and now[1] == snap[1] and now[2].shape == snap[2].shape and np.array_equal(now[2], snap[2])
    return now == snap


def run_session(case):
    import copy as _copy
    from .. import pymodel, bootstrap
    from pygom.model import ode_utils
    tags, mism, viol = ["session:%s" % case["flavour"]], [], []
    done = lambda nt=False, extra=(), sample=None: {"nontrivial": nt, "mismatches": mism, "violations": viol,
                                                    "tags": tags + list(extra), "sample": sample}
    descr = case["instances"]
    root = lambda i: descr[i].get("copy_of", i)
    # --- specification side: right-hand sides from the Lean driver's assembled equations ---------------------------
    spec_info = {}
    for i, d in enumerate(descr):
        if "copy_of" in d:
            continue
        lr = leanio.driver().call({"op": "assemble", "derivs": False, "model": d["spec"]})
        if lr.get("err") is not None:
            mism.append({"what": "session:assemble", "detail": "lean rejects the model of instance %d: %s" % (i, lr.get("err"))})
            return done()
        spec_info[i] = lr
        tags.append("session:model=%s" % d["source"].split(":")[0])
    ref_cache, f_cache = {}, {}

    def cfg_of(i, name):
        return descr[root(i)]["configs"][name]

    def rhs(i, name):
        key = (root(i), name)
        if key not in f_cache:
            f_cache[key] = rhs_from_lean(spec_info[root(i)], cfg_of(i, name)["params"])[0]
        return f_cache[key]

    def x0_of(i, name):
        c = cfg_of(i, name)
        return [float(Fraction(c["x0"][s])) for s in spec_info[root(i)]["states"]]

    used = {}       # (root inst, cfg) -> grid names
    for op in case["ops"]:
        if op["op"] == "solve":
            used.setdefault((root(op["inst"]), op["cfg"]), set()).add(op["grid"])
    tbase = Fraction(case["tbase"])
    if "Tfixed" in case:
        # integer-valued times: the horizon cannot follow the model, so instances whose Lipschitz bound at x0 times the
        # horizon exceeds 4 are not attempted (the reference would crawl towards a finite-time blow-up)
        T = Fraction(case["Tfixed"])
        span = float(T) * max(float(Fraction(f)) for g in case["grids"].values() for f in g)
        for (i, name) in used:
            try:
                L = float(np.linalg.norm(fd_jac(rhs(i, name), 0.0, np.array(x0_of(i, name))), 2))
            except (ZeroDivisionError, OverflowError, ValueError):
                return done(extra=["rejected:rhs-undefined-at-x0"])
            if not np.isfinite(L) or L * span > 4.0:
                return done(extra=["rejected:fixed-horizon-too-long"])
    else:
        Ts = []
        for (i, name) in used:
            d = descr[i]
            if "T" in d:
                Ts.append(Fraction(d["T"]) * Fraction(2, 3))
                continue
            try:
                L = float(np.linalg.norm(fd_jac(rhs(i, name), 0.0, np.array(x0_of(i, name))), 2))
            except (ZeroDivisionError, OverflowError, ValueError):
                return done(extra=["rejected:rhs-undefined-at-x0"])
            if not np.isfinite(L):
                return done(extra=["rejected:rhs-undefined-at-x0"])
            Ts.append(Fraction(min(float(case["Tmax"]), 2.0 / L) if L > 0 else float(case["Tmax"])) * Fraction(2, 3))
        T = Fraction(min(Ts)).limit_denominator(1024) or Fraction(1, 1024)
    tval = lambda f: float(tbase + T * Fraction(f))
    # --- independent reference per (instance definition, configuration) on the union of the times asked of it ----------
    refs = {}
    for (i, name), gnames in sorted(used.items()):
        c = cfg_of(i, name)
        t0 = tval(c["t0"])
        times = sorted(set(tval(f) for g in gnames for f in case["grids"][g]))
        if times[0] < t0:
            raise ValueError("generator: a requested time precedes the initial time")
        x0 = np.array(x0_of(i, name))
        ref, info = reference(rhs(i, name), x0, t0, times, case.get("radau") and name == "A")
        if ref is None:
            return done(extra=["rejected:%s" % info])
        if descr[i].get("amp_check", True) and info["amp"] > AMP_MAX:
            return done(extra=["rejected:ill-conditioned"])
        if info["direct"]["1e-10"] > TOL / 100:
            return done(extra=["rejected:solver-inaccurate-at-1e-10"])
        refs[(i, name)] = {"rows": dict(zip(times, ref)), "x0": x0, "t0": t0, "acc_odeint": max(TOL, 20.0 * info["direct"]["default"]),
                           "moved": float(np.max(np.abs(ref - x0) / (1.0 + np.abs(x0)))), "amp": info["amp"]}
    # --- the live objects ---------------------------------------------------------------------------------------------------
    live = {}

    def build(i):
        d = descr[root(i)]
        if d["source"].startswith("common_models:"):
            from pygom import common_models
            m = bootstrap.fast_backend(getattr(common_models, d["source"].split(":")[1])())
        else:
            m = pymodel.build(d["spec"], backend="lambda")
        lr = spec_info[root(i)]
        if [str(s) for s in m.state_list] != lr["states"] or sorted(str(p) for p in m.param_list) != sorted(lr["params"]):
            mism.append({"what": "session:names", "detail": "python %s %s lean %s %s" % (m.state_list, m.param_list, lr["states"], lr["params"])})
            return False
        live[i] = {"model": m, "cur": {"params": None, "x0": None, "t0": None}, "last": None}
        return True

    kept, handed, margins, first_result, grid_acc = [], [], {}, {}, {}
    prev_inst = [None]
    counts = {"solves": 0, "visible": 0, "tagged": 0}

    def hand(obj, what):
        if isinstance(obj, (np.ndarray, list, dict)):        # tuples and scalars cannot be written to
            handed.append((obj, _snapshot(obj), what))
        return obj

    def params_arg(i, pdict, form, changed):
        # positional forms bind by declaration order: only where the harness itself declared the parameters
        order = gen.expand_decl(descr[root(i)]["decl_params"]) if descr[root(i)]["source"] == "spec" else []
        if form == "partial" and changed is not None and changed:
            return {k: pdict[k] for k in changed}
        if form == "tuples":
            return [(k, pdict[k]) for k in sorted(pdict)]
        if form == "ordered-list" and order:
            return [pdict[k] for k in order]
        if form == "ordered-ndarray" and order:
            return np.array([pdict[k] for k in order])
        return dict(pdict)

    found = {"overwritten": False, "modified": False}

    def check_kept_and_handed(after):
        """results returned earlier and the mutable objects handed in must still be what they were"""
        if not found["overwritten"]:
            for sol, snap, sig_, hcls_, n in kept:
                a = np.asarray(sol, dtype=float)
                if a.shape != snap.shape or not np.array_equal(a, snap):
                    found["overwritten"] = True
                    viol.append({"what": "the array returned by solve #%d (%s) was changed by a later call (%s): it no longer holds the "
                                         "solution it was returned with" % (n, sig_, after),
                                 "signature": "session:%s:earlier-result-overwritten" % sig_,
                                 "detail": "then=%s now=%s" % (snap.tolist(), a.tolist())})
                    break
        if not found["modified"]:
            for obj, snap, what in handed:
                if not _same_as_snapshot(obj, snap):
                    # a pure side effect: the property speaks about returned rows only (they are judged on every call), so a write
                    # into the caller's object is tagged and reported as a mismatch with the pure Lean model, not as a violation
                    found["modified"] = True
                    tags.append("side-effect:input-modified:%s" % what)
                    mism.append({"what": "side-effect:input-modified:%s" % what,
                                 "detail": "the %s object handed to pygom was modified (seen after %s): before=%s now=%r" % (
                                     what, after, snap[2] if snap[0] != "nd" else snap[2].tolist(), obj)})
                    break

    for op in case["ops"]:
        i = op["inst"]
        if op["op"] == "build":
            if i not in live and not build(i):
                return done()
            continue
        if op["op"] == "deepcopy":
            if i not in live and not build(i):
                return done()
            j = op["as"]
            live[j] = {"model": _copy.deepcopy(live[i]["model"]), "cur": dict(live[i]["cur"]), "last": live[i]["last"]}
            tags.append("session:deepcopy")
            continue
        if i not in live and not build(i):
            return done()
        L = live[i]
        model, cur = L["model"], L["cur"]
        if op["op"] == "bad-assign":
            w = op["what"]
            nS_, pn = len(spec_info[root(i)]["states"]), sorted(str(p_) for p_ in model.param_list)
            try:
                if w == "x0-short":
                    model.initial_state = [1.0] * (nS_ - 1)
                elif w == "x0-long":
                    model.initial_state = [1.0] * (nS_ + 1)
                elif w == "x0-string":
                    model.initial_state = "abc"
                elif w == "t0-string":
                    model.initial_time = "abc"
                elif w == "t0-list":
                    model.initial_time = [0.0, 1.0]
                elif w == "params-unknown-name":
                    model.parameters = dict([(k_, 0.5) for k_ in pn[:1]] + [("no_such_parameter", 0.25)])
                elif w == "params-unknown-only":
                    model.parameters = {"no_such_parameter": 0.25}
                elif w == "params-short-array":
                    model.parameters = np.full(max(0, len(pn) - 1), 0.5)
                elif w == "params-long-array":
                    model.parameters = np.full(len(pn) + 1, 0.5)
                tags.append("session:rejected-input:%s:ACCEPTED" % w)
            except Exception as exc:
                tags.append("session:rejected-input:%s:raised:%s" % (w, type(exc).__name__))
            # whatever the attempt left behind: everything it could have touched is assigned again before the next solve
            if w.startswith("params"):
                cur["params"] = None
            else:
                cur["x0"] = cur["t0"] = None
            L["after_bad"] = True
            continue
        if op["op"] == "randomise":
            import scipy.stats
            pd0 = cur["params"][0] if cur["params"] else {}
            dists = {k: scipy.stats.gamma(a=100.0, scale=v / 100.0) for k, v in pd0.items() if v > 0}
            if dists:
                np.random.seed(20250928)        # pygom draws with rvs() from numpy's global generator
                try:
                    model.parameters = dists
                    if op.get("solve"):
                        model.solve_determ([tval(f) for f in case["grids"][op["grid"]]], iteration=2)
                    tags.append("session:random-parameters-assigned")
                    counts["visible"] += 1
                except Exception as exc:         # random parameters are not this property's business
                    tags.append("session:random-parameters:raised:%s" % type(exc).__name__)
                cur["params"] = None             # whatever the draws left behind: every parameter is re-assigned next
                L["after_random"] = True
            continue
        R = refs[(root(i), op["cfg"])]
        c = cfg_of(i, op["cfg"])
        pd = {k: float(Fraction(v)) for k, v in c["params"].items()}
        x0v, t0v = R["x0"], R["t0"]
        grid = [tval(f) for f in case["grids"][op["grid"]]]
        e = (op["entry"], op["method"], op["fo"], op["io"])
        sig = entry_sig(e)
        scalar = op["gform"] in ("scalar", "intscalar", "np.float64", "np.int64")
        # what differs from this instance's previous solve (the class of history named in the signature)
        now = {"t0": t0v, "x0": tuple(x0v), "params": tuple(sorted(pd.items())), "grid": tuple(grid), "gname": op["grid"],
               "forms": (op["gform"], op["xform"], op["tform"], op["pform"]), "method": op["method"], "full_output": op["fo"],
               "includeOrigin": op["io"], "entry": op["entry"]}
        if L["last"] is None:
            hist = ["first"]
        else:
            hist = [k for k in ("t0", "x0", "params", "grid", "forms", "method", "full_output", "includeOrigin", "entry")
                    if now[k] != L["last"][k]] or ["same"]
            if "grid" in hist:
                rel = {"G1": "values", "G2": "superset", "G3": "subset", "G4": "interior", "Gs": "scalar", "Gz": "starts-at-t0", "G5": "repeated-times"}
                other = now["gname"] if now["gname"] != "G0" else L["last"]["gname"]
                hist[hist.index("grid")] = "grid-" + rel.get(other, "other")
        if L.pop("after_bad", False):
            hist.append("after-rejected-input")
        if L.get("after_random"):       # from then on part of this instance's history
            hist = ["after-random-parameters"]
        if prev_inst[0] is not None and prev_inst[0] != i:
            hist.append("other-instance-between")
        hcls = "+".join(hist)
        tags.append("session:history=%s" % hcls)
        tags.append("session:entry=%s" % sig)
        for k in ("gform", "xform", "tform", "pform"):
            tags.append("session:%s=%s" % (k, op[k]))
        # --- assign only what differs from what this instance was last given -------------------------------------------
        try:
            # (a value spelled differently counts as different: the spelling is what the forms probes vary)
            if cur["params"] != (pd, op["pform"]):
                changed = None if cur["params"] is None else [k for k in pd if cur["params"][0].get(k) != pd[k]]
                if pd:
                    model.parameters = hand(params_arg(i, pd, op["pform"], changed), "parameters")
                cur["params"] = (pd, op["pform"])
            if op["entry"] != "integrateFuncJac":
                dx, dt = cur["x0"] != (tuple(x0v), op["xform"]), cur["t0"] != (t0v, op["tform"])
                if dx or dt:
                    xa = lambda: hand(_container(list(x0v), op["xform"]), "x0")
                    ta = lambda: hand(_scalar(t0v, op["tform"]), "t0")
                    if op["via"] == "values" or cur["x0"] is None:
                        model.initial_values = (xa(), ta())
                    else:
                        if dx:
                            model.initial_state = xa()
                        if dt:
                            model.initial_time = ta()
                    cur["x0"], cur["t0"] = (tuple(x0v), op["xform"]), (t0v, op["tform"])
            targ = hand(_scalar(grid[0], op["gform"]) if scalar else _container(grid, op["gform"]), "grid")
            if op["entry"] == "integrate":
                res = model.integrate(targ, full_output=op["fo"])
                sol = res[0] if op["fo"] else res
            elif op["entry"] == "solve_determ":
                sol = model.solve_determ(targ, full_output=op["fo"])
            elif op["entry"] == "integrate2":
                res = model.integrate2(targ, full_output=op["fo"], method=op["method"])
                sol = res[0] if op["fo"] else res
            else:
                xa = hand(_container(list(x0v), op["xform"]), "x0")
                ta = hand(_scalar(t0v, op["tform"]), "t0")
                res = ode_utils.integrateFuncJac(model.ode_T, model.jacobian_T, xa, ta, targ, includeOrigin=op["io"],
                                                 full_output=op["fo"], method=op["method"])
                sol = res[0] if op["fo"] else res
        except Exception as exc:
            if op["entry"] in ("integrate", "solve_determ") and type(exc).__name__ in ZERO_STEP_ERRORS and not np.isfinite(R["acc_odeint"]):
                tags.append("session:odeint-failure-reported:not-judged")
                counts["tagged"] += 1
                L["last"], prev_inst[0] = now, i
                continue
            if type(exc).__name__ in ZERO_STEP_ERRORS and op["entry"] in ("integrate2", "integrateFuncJac") and not degenerate_steps(t0v, grid) \
                    and scipy_ode_unreliable(rhs(i, op["cfg"]), x0v, t0v, grid, op["method"]):
                tags.append("session:scipy-ode-refuses-this-instance:not-judged")
                counts["tagged"] += 1
                L["last"], prev_inst[0] = now, i
                continue
            if degenerate_steps(t0v, grid) and type(exc).__name__ in ZERO_STEP_ERRORS and op["entry"] in ("integrate2", "integrateFuncJac"):
                tags.append("session:zero-length-first-step:%s:not-judged" % type(exc).__name__)
                counts["tagged"] += 1
                L["last"], prev_inst[0] = now, i
                continue
            viol.append({"what": "%s raised %s: %s (history: %s)" % (sig, type(exc).__name__, str(exc)[:200], hcls),
                         "signature": "session:%s:history=%s:raised:%s" % (sig, hcls, type(exc).__name__), "detail": json.dumps(op)})
            L["last"], prev_inst[0] = now, i
            continue
        L["last"], prev_inst[0] = now, i
        counts["solves"] += 1
        origin = op["io"] if op["entry"] == "integrateFuncJac" else True
        ref = np.array([R["rows"][t] for t in grid])
        snap = np.array(sol, dtype=float, copy=True)
        nv = len(viol)
        # assumption A on THIS grid: scipy's own odeint (Lean right-hand side, no pygom) stepping through exactly the requested times.
        # (one long step can alias a periodic rate that the union of all grids resolves: x' = c (1 + cos(2 pi t)/2) x - ... from t0 to
        # t0 + 1 in one go returns x0 with "Integration successful." at the default tolerance)
        gkey = (root(i), op["cfg"], tuple(grid))
        if gkey not in grid_acc:
            ug = sorted(set(t for t in grid if abs(t - t0v) > 4 * float(np.spacing(max(abs(t), abs(t0v))))))
            grid_acc[gkey] = direct_solver_error(rhs(i, op["cfg"]), x0v, t0v, ug, np.array([R["rows"][t] for t in ug])) if ug else {"default": 0.0, "1e-10": 0.0}
        dse = grid_acc[gkey]
        if dse["1e-10"] > TOL / 100 and "method=odeint" not in sig:
            tags.append("session:solver-inaccurate-on-this-grid:not-judged")
            counts["tagged"] += 1
            continue
        judge("session:%s:history=%s" % (sig, hcls), snap, ref, x0v, grid, origin, viol, margins, sig.split(":")[0],
              max(R["acc_odeint"], 20.0 * dse["default"]) if "method=odeint" in sig else TOL)
        if len(viol) > nv and "method=odeint" not in sig and viol[-1]["signature"].split(":")[-1] in ("accuracy", "row-order", "rows-equal-final-state"):
            why = scipy_ode_unreliable(rhs(i, op["cfg"]), x0v, t0v, grid, op["method"], ref=ref, full_output=op["fo"] or op["entry"] == "integrate2")
            if why:
                del viol[nv:]
                tags.append("session:scipy-ode-unreliable-on-this-instance:%s:not-judged" % why)
                counts["tagged"] += 1
                continue
        for v in viol[nv:]:
            v["detail"] = "op=%s ; %s" % (json.dumps(op), v["detail"])
        kept.append((sol, snap, sig, hcls, len(kept)))
        key = (i, now["t0"], now["x0"], now["params"], now["grid"], e)
        if key not in first_result:
            first_result[key] = snap
        elif len(viol) == nv and not (first_result[key].shape == snap.shape and np.array_equal(first_result[key], snap)):
            d = float(np.max(np.abs(first_result[key] - snap))) if first_result[key].shape == snap.shape else float("nan")
            mism.append({"what": "session:not-reproducible:%s" % sig.split(":")[0],
                         "detail": "%s with equal values returned different bits after history %s (max difference %.3g): the model has the "
                                   "result depend on the call's own arguments only" % (sig, hcls, d)})
        check_kept_and_handed("op %s, %s" % (sig, hcls))
    # a change is VISIBLE when the reference for the changed inputs differs from the one for the old inputs
    base = refs.get((0, "A"))
    for (i, name), R in refs.items():
        if base is not None and (i, name) != (0, "A"):
            common = sorted(set(base["rows"]) & set(R["rows"]))
            if common and sorted(spec_info[0]["states"]) == sorted(spec_info[i]["states"]):
                ix = [spec_info[i]["states"].index(s_) for s_ in spec_info[0]["states"]]
                d = max(float(np.max(np.abs(base["rows"][t] - R["rows"][t][ix]) / (1.0 + np.abs(base["rows"][t])))) for t in common)
                if d > 1e-3:
                    counts["visible"] += 1
                    tags.append("session:visible-difference:%s" % (name if i == 0 else "instance"))
    for k, v in margins.items():
        tags.append("session-margin:%s:%s" % (k, bucket(v * TOL)))
    moved = min(R["moved"] for R in refs.values())
    need_visible = case["flavour"] in ("history", "siblings")
    nt = moved > 1e-3 and counts["solves"] > 0 and not viol and not mism and (counts["visible"] > 0 or not need_visible)
    return done(nt, sample={"flavour": case["flavour"], "solves": counts["solves"], "visible_changes": counts["visible"],
                            "margins": margins, "T": float(T), "instances": len(descr)})


def run_case(case):
    if case["kind"] == "fake":
        return run_fake(case)
    if case["kind"] == "session":
        return run_session(case)
    if case["kind"] == "fakesession":
        return run_fake_session(case)
    return run_runtime(case)
