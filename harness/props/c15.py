"""
C15 - gridded stochastic output agrees with the underlying path.

Proof: Pygom/Props/C15.lean (`rows_count`, `row_zero`, `row_is_path_state`, `rows_differ_by_vmat_counts`,
`counts_are_per_transition`, and `exact_counts_counterexample` for the exact-mode histogram of the
unrepaired tree) about `extractObservationAtTime`, numpy's histogram convention and `addJumpsBetweenTime`
of Pygom/Stoch.lean.
Tie: the real solve_stochast(grid, 2, exact=True, full_output=True) for list / tuple / array grids, with the raw
path recorded at `_jump`; rows and per-interval counts against the Lean driver's `grid` op applied to the raw
path (exactly), and the time-argument normalisation (`time_arg` op).
Direct oracle (no Lean): rows against a plain last-record-before lookup in the raw path, first row = initial
state, one row per requested time, per-interval counts = number of firings of each transition with time in
(g_k, g_k+1], consecutive rows differ by vMat . counts.
"""
import random

import numpy as np

from .. import leanio
from . import stoch_common as SC

PROP = "C15"
LEAN = {"module": "Pygom.Props.C15",
        "required": ["Pygom.C15.rows_count", "Pygom.C15.row_zero", "Pygom.C15.row_is_path_state",
                     "Pygom.C15.counts_are_per_transition", "Pygom.C15.rows_differ_by_vmat_counts",
                     "Pygom.C15.exact_counts_counterexample"]}
BUDGET = {"quick": {"models": 300}, "thorough": {"models": 4000, "max_steps": 2000, "steps": [40, 150, 600, 1500]}}
RULE = ("bounded-rate event models (shared generator), integer initial states, exact mode (plus 1 in 5 tau-leap runs for the "
        "count histogram), 2 paths each; grids of 2-12 points starting at t0, uniform or random spacing, given as list, tuple or "
        "array, horizons from half the expected run length to ten times it (grids extending past extinction, paths without "
        "any event); one crafted case puts an event exactly on a grid point; a case is non-trivial when some interval "
        "holds >= 2 events")
ASSUMPTIONS = ["no event time coincides with an interior grid point (hypothesis of rows_differ_by_vmat_counts; probability zero for "
               "exponential waiting times; the crafted case reports what the code does there as an observation)",
               "the state-change matrix does not depend on the state (numeric magnitudes)",
               "the grid starts at the initial time and is increasing"]
TRUSTED = ["harness generator and tracer (numpy.random / evaluator / _jump wrappers)", "Lean driver JSON codec"]


def make_cases(rng, tier, budget):
    cases = [{"crafted": True}]
    while len(cases) < budget["models"] + 1:
        r = random.Random(rng.getrandbits(64))
        base = SC.gen_sim_case(r, max_x0=25)
        if base is None:
            continue
        mode = "exact" if r.random() < 0.8 else r.choice(["tau_adaptive", "tau_fixed"])
        c = dict(base)
        c["sim"] = SC.sim_settings(r, base, mode, steps=budget.get("steps"))
        t0 = c["sim"]["t0"]
        span = (c["sim"]["T"] - t0) * r.choice([0.5, 1, 1, 3, 10])
        n = r.randint(2, 12)
        if r.random() < 0.5:
            g = [t0 + span * k / (n - 1) for k in range(n)]
        else:
            g = sorted(set([t0, t0 + span] + [t0 + span * r.random() for _ in range(n - 2)]))
        if r.random() < 0.3:
            g = [float(round(v, 2)) for v in g]
            g = sorted(set(g))
            if len(g) < 2:
                g = [t0, t0 + 1.0]
        c["sim"]["grid_kind"] = r.choice(["list", "tuple", "array"])
        edge = r.random()
        if edge < 0.04:
            g, c["sim"]["grid_kind"] = [g[-1]], "array"          # a one-element ARRAY is a one-point grid (a one-element list is a horizon)
        elif edge < 0.09 and len(g) >= 3:
            g = g[1:]                                             # grid starting after t0: first row is not x0 (outside row_zero)
        c["sim"]["grid"] = g
        c["sim"]["T"] = g[-1]
        c["max_steps"] = budget.get("max_steps", SC.MAX_STEPS)
        cases.append(c)
    return cases


def search_cases(rng, tier, budget):
    return make_cases(rng, tier, {"models": budget["models"] * 3, **{k: v for k, v in budget.items() if k != "models"}})


def time_arg(sim):
    g = sim["grid"]
    return {"list": list(g), "tuple": tuple(g), "array": np.array(g, float)}[sim["grid_kind"]]


def crafted(tags, mism, viol):
    """an event exactly on an interior grid point: lookup is '<=' (row already contains the event), numpy's bin is
    '[ , )' (the event is counted in the NEXT interval).  Reported as an observation, not a violation."""
    from pygom import SimulateOde, Transition, Event
    from .. import bootstrap
    m = SimulateOde(state=["S", "I"], param=["b"], event=[Event(rate="b*S", transition_list=[Transition(origin="S", destination="I", transition_type="T")])])
    bootstrap.fast_backend(m)
    X = np.array([[3., 0.], [2., 1.], [1., 2.]]); T = np.array([0., 1., 2.5]); J = np.array([[1], [1]])
    grid = np.array([0., 1., 2., 3.])
    rows = m._extractObservationAtTime(X, T, grid)
    try:
        cnt = m._addJumpsBetweenTime(J, T, grid, True)
    except Exception as exc:
        tags.append("observation:crafted:raised:%s" % type(exc).__name__)
        return
    r = leanio.driver().call({"op": "grid", "times": SC.qs(T), "states": [SC.qs(x) for x in X], "counts": J.tolist(),
                              "grid": SC.qs(grid), "n_trans": 1, "legacy": SC.LEGACY_EXACT_COUNTS})
    if [[float(SC.fr(v)) for v in row] for row in r["rows"]] != rows.tolist():
        mism.append({"what": "grid:rows(crafted)", "detail": "lean %s python %s" % (r["rows"], rows.tolist())})
    if [[int(v) for v in row] for row in r["interval_counts"]] != [[int(v) for v in row] for row in cnt.tolist()]:
        mism.append({"what": "grid:counts(crafted)", "detail": "lean %s python %s" % (r["interval_counts"], cnt.tolist())})
    V = np.array([[-1.], [1.]])
    agree = all(np.array_equal(rows[k + 1] - rows[k], V.dot(cnt[k])) for k in range(len(grid) - 1))
    tags.append("observation:event_on_grid_point:rows-and-counts-%s" % ("agree" if agree else "disagree"))


def run_case(case):
    tags, mism, viol = [], [], []
    if case.get("crafted"):
        crafted(tags, mism, viol)
        return {"nontrivial": False, "mismatches": mism, "violations": viol, "tags": tags}
    spec, meta, sim = case["spec"], case["meta"], case["sim"]
    exact = sim["mode"] == "exact"
    model = SC.build_model(case)
    nS, nE = len(meta["states"]), len(meta["procs"])
    grid = [float(g) for g in sim["grid"]]
    tags += ["mode:" + sim["mode"], "grid:" + sim["grid_kind"], "grid_points=%s" % (len(grid) if len(grid) < 4 else "4+"), "nS=%d" % nS, "nE=%d" % nE]
    lr = SC.lean_lims(spec)
    ta = leanio.driver().call({"op": "time_arg", "kind": sim["grid_kind"], "values": [SC.q(g) for g in grid]})
    tr = SC.traced_run(model, time_arg(sim), exact, sim["np_seed"], iterations=2, max_steps=case.get("max_steps", SC.MAX_STEPS))
    modek = "exact" if exact else "tau"
    empty = [len(j["T"]) == 1 for j in tr.jumps]
    if tr.error is not None and SC.unbounded_adaptive_tau(tr, sim):
        return {"nontrivial": False, "mismatches": mism, "violations": viol, "tags": tags + ["raised:unbounded-adaptive-tau(C04 finding)"]}
    if tr.error is not None:
        kind = "empty_path" if any(empty) else "nonempty_path"
        viol.append({"what": "solve_stochast(grid) raised %s: %s" % (type(tr.error).__name__, str(tr.error)[:200]),
                     "signature": "C15:raise:%s:%s:%s" % (type(tr.error).__name__, modek, kind),
                     "detail": "x0=%s grid=%s raw path lengths %s" % (case["x0"], grid, [len(j["T"]) for j in tr.jumps])})
        return {"nontrivial": False, "mismatches": mism, "violations": viol, "tags": tags + ["raised:" + kind]}
    Xg, Jg, Tg = tr.result
    if ta.get("err") or ta.get("grid") is None or [SC.fr(v) for v in ta["grid"]] != [SC.fr(SC.q(g)) for g in grid] or not isinstance(Tg, np.ndarray):
        mism.append({"what": "time_arg", "detail": "lean %s python returned %s" % (ta, type(Tg).__name__)})
    elif not np.array_equal(np.asarray(Tg, float), np.array(grid)):
        mism.append({"what": "time_arg:returned-times", "detail": "python returned %s for grid %s" % (np.asarray(Tg).tolist(), grid)})
    x0 = np.array(case["x0"], float)
    V = np.asarray(tr.evaluators["vMat"](x0, sim["t0"]), float).reshape(nS, nE)
    nontrivial = False
    for p in range(len(Xg)):
        jr = tr.jumps[p]
        X, T, J = jr["X"], jr["T"], jr["J"]
        if J.ndim == 1:
            J = J.reshape(0, nE)
        if abs(jr["finalT"] - grid[-1]) > 0 or (not ta.get("err") and SC.fr(ta["final_t"]) != SC.fr(SC.q(grid[-1]))):
            mism.append({"what": "time_arg:finalT", "detail": "_jump got %r, grid ends at %r, lean %s" % (jr["finalT"], grid[-1], ta.get("final_t"))})
        rows = np.array(Xg[p], float); cnt = np.array(Jg[p], float)
        if len(T) == 1: tags.append("path_without_events")
        if T[-1] < grid[-1] and not jr["truncated"]: tags.append("grid_past_end_of_path")
        if jr["truncated"]: tags.append("truncated")
        # ---- model <-> code
        r = leanio.driver().call({"op": "grid", "times": SC.qs(T), "states": [SC.qs(x) for x in X],
                                  "counts": [[int(v) for v in row] for row in J.tolist()], "grid": [SC.q(g) for g in grid],
                                  "n_trans": nE, "legacy": bool(SC.LEGACY_EXACT_COUNTS and exact)})
        if exact and not (rows.shape == (len(grid), nS) and all(SC.same_vec(lrw, rw) for lrw, rw in zip(r["rows"], rows))):
            mism.append({"what": "grid:rows", "detail": "lean %s python %s (raw T=%s)" % ([[float(SC.fr(v)) for v in w] for w in r["rows"]][:6], rows.tolist()[:6], T.tolist()[:8])})
        lc = [[int(v) for v in row] for row in r["interval_counts"]]
        if cnt.shape != (len(grid) - 1, nE) or lc != [[int(v) for v in row] for row in cnt.tolist()] or not np.all(np.mod(cnt, 1) == 0):
            mism.append({"what": "grid:interval-counts", "detail": "lean %s python %s" % (lc[:6], cnt.tolist()[:6])})
        # ---- direct oracle
        sig = lambda what: "C15:%s:%s" % (what, modek)
        if rows.shape[0] != len(grid):
            viol.append({"what": "not one row per requested time", "signature": sig("rows-count"), "detail": "%d rows for %d times" % (rows.shape[0], len(grid))})
            continue
        if grid[0] > sim["t0"]:
            tags.append("grid_starts_after_t0")
        elif not np.array_equal(rows[0], x0):
            viol.append({"what": "first row is not the initial state", "signature": sig("row-zero"), "detail": "row0=%s x0=%s" % (rows[0].tolist(), x0.tolist())})
        # numpy's bins are [g_k, g_k+1) (last one closed): an event exactly on a grid point other than the last is counted in
        # the following interval.  Excluded by hypothesis (measure zero in exact mode; with a fixed tau it does happen)
        on_grid = any(tt == g for tt in T[1:] for g in grid[:-1])
        if on_grid: tags.append("event_on_grid_point")
        # per-transition firings in (g_k, g_k+1]
        ref = np.zeros((len(grid) - 1, nE))
        per_int = SC.events_per_interval(T, grid)
        for s_i, tt in enumerate(T[1:]):
            for k in range(len(grid) - 1):
                if grid[k] < tt <= grid[k + 1]:
                    ref[k] += J[s_i]
        if exact:
            look = SC.raw_lookup(X, T, grid)
            if not np.array_equal(rows, look):
                k = int(np.argmax(np.any(rows != look, axis=1)))
                viol.append({"what": "row k is not the state of the underlying path at time t_k", "signature": sig("row-lookup"),
                             "detail": "row %d (t=%r) = %s, path state %s" % (k, grid[k], rows[k].tolist(), look[k].tolist())})
            if max(per_int + [0]) >= 2: nontrivial = True
            if not on_grid:
                if cnt.shape != ref.shape or not np.array_equal(cnt, ref):
                    k = int(np.argmax(np.any(cnt != ref, axis=1))) if cnt.shape == ref.shape else 0
                    viol.append({"what": "per-interval counts are not the per-transition event counts of the interval", "signature": sig("interval-counts"),
                                 "detail": "interval %d (%r, %r]: reported %s, events of the path %s" % (k, grid[k], grid[k + 1], cnt[k].tolist() if cnt.shape == ref.shape else cnt.shape, ref[k].tolist())})
                if cnt.shape == ref.shape and not all(np.array_equal(rows[k + 1] - rows[k], V.dot(cnt[k])) for k in range(len(grid) - 1)):
                    k = [np.array_equal(rows[k + 1] - rows[k], V.dot(cnt[k])) for k in range(len(grid) - 1)].index(False)
                    viol.append({"what": "consecutive rows do not differ by vMat . counts", "signature": sig("rows-differ"),
                                 "detail": "interval %d: rows %s -> %s, counts %s, V.counts %s" % (k, rows[k].tolist(), rows[k + 1].tolist(), cnt[k].tolist(), V.dot(cnt[k]).tolist())})
        else:
            if max(per_int + [0]) >= 1: nontrivial = True
            if not on_grid and (cnt.shape != ref.shape or not np.array_equal(cnt, ref)):
                viol.append({"what": "per-interval counts are not the per-transition event counts of the interval (tau-leap)", "signature": sig("interval-counts"),
                             "detail": "reported %s, events of the path %s" % (cnt.tolist()[:5], ref.tolist()[:5])})
    return {"nontrivial": nontrivial, "mismatches": mism, "violations": viol, "tags": tags,
            "sample": {"spec": spec, "x0": case["x0"], "params": case["params"], "sim": sim}}
