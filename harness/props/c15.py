"""
C15 - gridded stochastic output agrees with the underlying path.

Proof: Pygom/Props/C15.lean (`rows_count`, `row_zero`, `row_is_path_state`, `rows_differ_by_vmat_counts`,
`counts_are_per_transition`, and `exact_counts_counterexample` for the exact-mode histogram of the
unrepaired tree) about `extractObservationAtTime`, numpy's histogram convention and `addJumpsBetweenTime`
of Pygom/Stoch.lean.
Tie: the real solve_stochast(grid, 2, exact=True, full_output=True) for list / tuple / array grids, with the raw
path recorded at `_jump`; rows and per-interval counts against the Lean driver's `grid` op applied to the raw
path (exactly), and the time-argument normalisation (`time_arg` op).
Direct oracle (no Lean): rows against a plain last-record-before lookup in the raw path, first row = initial
state, one row per requested time, per-interval counts = number of firings of each transition with time in
(g_k, g_k+1], consecutive rows differ by vMat . counts.  Everything is compared with the harness's own copy of the
initial state and of the grid, never with the objects handed to pygom.

History and input form: `gridRows` / `addJumpsBetweenTime` are pure functions of (raw path, grid), the raw path a pure
function of (configuration, x0, t0, draws); stoch_common.run_session probes on the real code that earlier calls, left-over
configuration, the form / dtype of x0 and of the grid and other instances do not enter.
The FORM of the boolean options is varied as well (`exact` / `full_output` as 1 / 0 or numpy.bool_, full_output off): the property speaks
about the mode that was RUN - rows of a first-reaction path are looked up whatever object said `exact` (seeded C15-d1: `exact is True`).
Tau-leap rows are numpy's linear interpolation of the raw path: not part of the property's statement (which speaks about
exact mode), compared with the harness's own interpolation as a correspondence item (a mismatch, not a violation).
"""
import random

import numpy as np

from .. import leanio
from . import stoch_common as SC

PROP = "C15"
LEAN = {"module": "Pygom.Props.C15",
        "required": ["Pygom.C15.rows_count", "Pygom.C15.row_zero", "Pygom.C15.row_is_path_state",
                     "Pygom.C15.counts_are_per_transition", "Pygom.C15.rows_differ_by_vmat_counts",
                     "Pygom.C15.exact_counts_counterexample", "Pygom.C15.exact_run_rows_differ", "Pygom.C15.rows_telescope",
                     "Pygom.C15.exact_run_rows_telescope", "Pygom.C15.grid_point_coincidence_counterexample", "Pygom.C15.time_arg_forms"]}
BUDGET = {"quick": {"models": 300, "sessions": 160},
          "thorough": {"models": 4000, "sessions": 1200, "max_steps": 2000, "steps": [40, 150, 600, 1500], "session_steps": [40, 150, 600]}}
RULE = ("bounded-rate event models (shared generator), integer initial states handed over as int / int32 / float64 ndarray, list or "
        "tuple of ints or floats, exact mode (plus 1 in 5 tau-leap runs: count histogram, one row per time, first row = x0, every row "
        "between the bracketing records of the raw path), 2 paths each; grids of 2-12 points starting at t0 (some after t0), uniform, "
        "random or integer-valued spacing, given as list, tuple or array of float or int dtype, horizons from half the expected run "
        "length to ten times it (grids extending past extinction, paths without any event); one crafted case puts an event exactly "
        "on a grid point; plus SESSIONS on one instance (3-5 calls: gridded and raw, exact and tau-leap, 1-3 paths, pre_tau / epsilon "
        "left over, initial values re-assigned in another form or with other values, parameters changed and restored, a deep copy of the configured instance taking over, sibling instance in between, first call "
        "repeated, last call repeated on a fresh instance, every returned array kept and compared again at the end, the caller's "
        "x0 and grid objects unchanged - side effects the pure model excludes but the property does not state are tags and broken "
        "correspondence, never violations); the boolean options in every accepted FORM: `exact` and `full_output` as True / False, 1 / 0 or "
        "numpy.bool_ (half of the calls each; the unchanged tree tests truthiness), full_output off in 1 of 8 calls (rows judged, no "
        "counts returned); the fresh reference and the repeated call use their own form; a case is non-trivial when some interval holds >= 2 events")
ASSUMPTIONS = ["no event time coincides with an interior grid point (hypothesis of rows_differ_by_vmat_counts; probability zero for "
               "exponential waiting times; the crafted case reports what the code does there as an observation)",
               "the state-change matrix does not depend on the state (numeric magnitudes)",
               "the grid starts at the initial time and is increasing"]
TRUSTED = ["harness generator and tracer (numpy.random / evaluator / _jump wrappers)", "Lean driver JSON codec"]


def _forms(r, base, sim):
    nS = len(base["x0"])
    sim["x0_form"] = r.choice([f for f in SC.X0_FORMS if f != "scalar" or nS == 1])
    sim["t0_form"] = r.choice(["np_f64"] * 6 + ["np_i64", "np_i64", "np_f32", "np_f32"])


def _flag_forms(r, sim):
    """the FORM of the boolean options of a one-call case (drawn last: the rest of the case is what it was without them): `exact` and
    `full_output` as 1 / 0 or numpy.bool_ (half of the cases each), full_output off in 1 of 8 (the state arrays alone are returned).
    The property speaks about the mode that was RUN: a path made by the first-reaction method is looked up, never interpolated,
    whatever object said `exact`."""
    if r.random() < 0.5:
        sim["exact_form"] = r.choice(["int", "np_bool"])
    if r.random() < 0.5:
        sim["full_output_form"] = r.choice(["int", "np_bool"])
    if r.random() < 0.125:
        sim["full_output"] = False


def make_cases(rng, tier, budget):
    cases = [{"crafted": True}]
    while len(cases) < budget["models"] + 1:
        r = random.Random(rng.getrandbits(64))
        base = SC.gen_sim_case(r, max_x0=25)
        if base is None:
            continue
        mode = "exact" if r.random() < 0.8 else r.choice(["tau_adaptive", "tau_fixed"])
        c = dict(base)
        c["sim"] = SC.sim_settings(r, base, mode, steps=budget.get("steps"))
        t0 = c["sim"]["t0"]
        span = (c["sim"]["T"] - t0) * r.choice([0.5, 1, 1, 3, 10])
        n = r.randint(2, 12)
        if r.random() < 0.5:
            g = [t0 + span * k / (n - 1) for k in range(n)]
        else:
            g = sorted(set([t0, t0 + span] + [t0 + span * r.random() for _ in range(n - 2)]))
        if r.random() < 0.3:
            g = [float(round(v, 2)) for v in g]
            g = sorted(set(g))
            if len(g) < 2:
                g = [t0, t0 + 1.0]
        kind = r.choice(["list", "tuple", "array"])
        edge = r.random()
        if edge < 0.04:
            g, kind = [g[-1]], "array"          # a one-element ARRAY is a one-point grid (a one-element list is a horizon)
        elif edge < 0.09 and len(g) >= 3:
            g = g[1:]                                             # grid starting after t0: first row is not x0 (outside row_zero)
        elif edge < 0.30:
            lo = int(np.ceil(t0)); hi = max(lo + 1, int(np.ceil(t0 + span)))    # integer-valued grid, handed over with an int dtype
            g = [float(v) for v in sorted(set([lo, hi] + [r.randint(lo, hi) for _ in range(n - 2)]))]
            kind = r.choice(["list_int", "tuple_int", "array_int"])
        c["sim"]["time"] = {"kind": kind, "values": [float(v) for v in g]}
        c["sim"]["T"] = g[-1]
        _forms(r, base, c["sim"])
        c["max_steps"] = budget.get("max_steps", SC.MAX_STEPS)
        _flag_forms(r, c["sim"])
        cases.append(c)
    n = 0
    while n < budget.get("sessions", 0):
        r = random.Random(rng.getrandbits(64))
        base = SC.gen_sim_case(r, max_x0=25)
        sib = SC.gen_sim_case(r, max_x0=25)
        if base is None:
            continue
        c = dict(base)
        c["sim"] = SC.sim_settings(r, base, r.choice(["exact", "exact", "tau_adaptive", "tau_fixed"]), steps=budget.get("session_steps", budget.get("steps")))
        _forms(r, base, c["sim"])
        c["session"] = SC.gen_session(r, base, c["sim"], grid_share=0.75, exact_share=0.65, sibling_base=sib)
        SC.add_flag_forms(r, c["session"], share=0.5, full_output_false=0.125)
        c["max_steps"] = budget.get("max_steps", SC.MAX_STEPS)
        cases.append(c)
        n += 1
    return cases


def search_cases(rng, tier, budget):
    return make_cases(rng, tier, {**budget, "models": budget["models"] * 3, "sessions": budget.get("sessions", 0) * 3})


def crafted(tags, mism, viol):
    """an event exactly on an interior grid point: lookup is '<=' (row already contains the event), numpy's bin is
    '[ , )' (the event is counted in the NEXT interval).  Reported as an observation, not a violation."""
    from pygom import SimulateOde, Transition, Event
    from .. import bootstrap
    m = SimulateOde(state=["S", "I"], param=["b"], event=[Event(rate="b*S", transition_list=[Transition(origin="S", destination="I", transition_type="T")])])
    bootstrap.fast_backend(m)
    X = np.array([[3., 0.], [2., 1.], [1., 2.]]); T = np.array([0., 1., 2.5]); J = np.array([[1], [1]])
    grid = np.array([0., 1., 2., 3.])
    rows = m._extractObservationAtTime(X, T, grid)
    try:
        cnt = m._addJumpsBetweenTime(J, T, grid, True)
    except Exception as exc:
        tags.append("observation:crafted:raised:%s" % type(exc).__name__)
        return
    r = leanio.driver().call({"op": "grid", "times": SC.qs(T), "states": [SC.qs(x) for x in X], "counts": J.tolist(),
                              "grid": SC.qs(grid), "n_trans": 1, "legacy": SC.LEGACY_EXACT_COUNTS})
    if [[float(SC.fr(v)) for v in row] for row in r["rows"]] != rows.tolist():
        mism.append({"what": "grid:rows(crafted)", "detail": "lean %s python %s" % (r["rows"], rows.tolist())})
    if [[int(v) for v in row] for row in r["interval_counts"]] != [[int(v) for v in row] for row in cnt.tolist()]:
        mism.append({"what": "grid:counts(crafted)", "detail": "lean %s python %s" % (r["interval_counts"], cnt.tolist())})
    V = np.array([[-1.], [1.]])
    agree = all(np.array_equal(rows[k + 1] - rows[k], V.dot(cnt[k])) for k in range(len(grid) - 1))
    tags.append("observation:event_on_grid_point:rows-and-counts-%s" % ("agree" if agree else "disagree"))


def run_case(case):
    tags, mism, viol = [], [], []
    if case.get("crafted"):
        crafted(tags, mism, viol)
        return {"nontrivial": False, "mismatches": mism, "violations": viol, "tags": tags}
    spec, meta = case["spec"], case["meta"]
    nS, nE = len(meta["states"]), len(meta["procs"])
    tags += ["nS=%d" % nS, "nE=%d" % nE]
    S = {"nontrivial": False}

    def judge(call, model):
        sim, exact, tr = call.sim, call.exact, call.tr
        modek = "exact" if exact else "tau"
        if not call.is_grid:
            # a raw call inside a session (gridded then raw, raw then gridded): legality of raw paths is C04's; here only the
            # session's own oracles (kept arrays, caller's objects, repeat, fresh instance) apply
            tags.append("raw_call_in_session")
            return tr.error is None
        grid = call.grid
        tags.extend(["mode:" + sim["mode"], "grid:" + call.ts["kind"], "grid_points=%s" % (len(grid) if len(grid) < 4 else "4+")])
        ta = leanio.driver().call({"op": "time_arg", "kind": SC.lean_time_kind(call.ts), "values": [SC.q(g) for g in grid]})
        empty = [len(j["T"]) == 1 for j in tr.jumps]
        if tr.error is not None and SC.unbounded_adaptive_tau(tr, sim):
            tags.append("raised:unbounded-adaptive-tau(C04 finding)")
            return False
        if tr.error is not None:
            kind = "empty_path" if any(empty) else "nonempty_path"
            viol.append({"what": "solve_stochast(grid) raised %s: %s" % (type(tr.error).__name__, str(tr.error)[:200]),
                         "signature": "C15:raise:%s:%s:%s" % (type(tr.error).__name__, modek, kind),
                         "detail": "x0=%s (%s) grid=%s (%s) raw path lengths %s, op %d" % (call.x0, sim["x0_form"], grid, call.ts["kind"], [len(j["T"]) for j in tr.jumps], call.index)})
            tags.append("raised:" + kind)
            return False
        full = getattr(call, "full_output", True)
        # full_output switched off (in whatever form): the list of state arrays alone; rows are judged, counts are not returned
        Xg, Jg, Tg = tr.result if full else (tr.result, None, np.array(grid))
        if not full and not (isinstance(tr.result, list) and all(isinstance(a, np.ndarray) for a in tr.result)):
            viol.append({"what": "solve_stochast(grid, full_output=<false>) does not return the list of state arrays", "signature": "C15:full-output-off:%s" % modek,
                         "detail": "returned %s (full_output handed over as %r), op %d" % (type(tr.result).__name__, call.op.get("full_output_form") or "bool", call.index)})
            return False
        if ta.get("err") or ta.get("grid") is None or [SC.fr(v) for v in ta["grid"]] != [SC.fr(SC.q(g)) for g in grid] or not isinstance(Tg, np.ndarray):
            mism.append({"what": "time_arg", "detail": "lean %s python returned %s" % (ta, type(Tg).__name__)})
        elif not np.array_equal(np.asarray(Tg, float), np.array(grid)):
            mism.append({"what": "time_arg:returned-times", "detail": "python returned %s for grid %s" % (np.asarray(Tg).tolist(), grid)})
        x0 = np.array(call.x0, float)                    # the harness's own copy, never the array handed to pygom
        V = np.asarray(tr.evaluators["vMat"](x0, sim["t0"]), float).reshape(nS, nE)
        sig = lambda what: "C15:%s:%s" % (what, modek)
        here = " [call at op %d, x0 handed over as %s, grid as %s, exact as %s, full_output as %s%s]" % (
            call.index, sim["x0_form"], call.ts["kind"], call.op.get("exact_form") or "bool", call.op.get("full_output_form") or "bool", "" if full else " (off)")
        if len(Xg) != sim["iterations"]:
            viol.append({"what": "not one gridded path per requested iteration", "signature": sig("paths-count"),
                         "detail": "%d paths for %d iterations" % (len(Xg), sim["iterations"]) + here})
            return False
        for p in range(len(Xg)):
            jr = tr.jumps[p]
            X, T, J = jr["X"], jr["T"], jr["J"]
            if J.ndim == 1:
                J = J.reshape(0, nE)
            if abs(jr["finalT"] - grid[-1]) > 0 or (not ta.get("err") and SC.fr(ta["final_t"]) != SC.fr(SC.q(grid[-1]))):
                mism.append({"what": "time_arg:finalT", "detail": "_jump got %r, grid ends at %r, lean %s" % (jr["finalT"], grid[-1], ta.get("final_t"))})
            rows = np.array(Xg[p], float); cnt = np.array(Jg[p], float) if full else None
            if len(T) == 1: tags.append("path_without_events")
            if T[-1] < grid[-1] and not jr["truncated"]: tags.append("grid_past_end_of_path")
            if jr["truncated"]: tags.append("truncated")
            # ---- model <-> code
            r = leanio.driver().call({"op": "grid", "times": SC.qs(T), "states": [SC.qs(x) for x in X],
                                      "counts": [[int(v) for v in row] for row in J.tolist()], "grid": [SC.q(g) for g in grid],
                                      "n_trans": nE, "legacy": bool(SC.LEGACY_EXACT_COUNTS and exact)})
            if exact and not (rows.shape == (len(grid), nS) and all(SC.same_vec(lrw, rw) for lrw, rw in zip(r["rows"], rows))):
                mism.append({"what": "grid:rows", "detail": "lean %s python %s (raw T=%s)" % ([[float(SC.fr(v)) for v in w] for w in r["rows"]][:6], rows.tolist()[:6], T.tolist()[:8])})
            lc = [[int(v) for v in row] for row in r["interval_counts"]]
            if cnt is None:
                pass
            elif cnt.shape != (len(grid) - 1, nE) or lc != [[int(v) for v in row] for row in cnt.tolist()] or not np.all(np.mod(cnt, 1) == 0):
                mism.append({"what": "grid:interval-counts", "detail": "lean %s python %s" % (lc[:6], cnt.tolist()[:6])})
            # ---- direct oracle
            if rows.ndim != 2 or rows.shape[0] != len(grid) or rows.shape[1] != nS:
                viol.append({"what": "not one row per requested time", "signature": sig("rows-count"),
                             "detail": "rows of shape %s for %d times, %d states" % (rows.shape, len(grid), nS) + here})
                continue
            if grid[0] > sim["t0"]:
                pass    # tagged by the session runner: the first row is then not x0 (outside row_zero)
            elif not np.array_equal(rows[0], x0):
                viol.append({"what": "first row is not the initial state", "signature": sig("row-zero"),
                             "detail": "path %d: row0=%s x0=%s" % (p, rows[0].tolist(), x0.tolist()) + here})
            # numpy's bins are [g_k, g_k+1) (last one closed): an event exactly on a grid point other than the last is counted in
            # the following interval.  Excluded by hypothesis (measure zero in exact mode; with a fixed tau it does happen)
            on_grid = any(tt == g for tt in T[1:] for g in grid[:-1])
            if on_grid: tags.append("event_on_grid_point")
            # per-transition firings in (g_k, g_k+1]
            ref = np.zeros((len(grid) - 1, nE))
            per_int = SC.events_per_interval(T, grid)
            for s_i, tt in enumerate(T[1:]):
                for k in range(len(grid) - 1):
                    if grid[k] < tt <= grid[k + 1]:
                        ref[k] += J[s_i]
            if exact:
                look = SC.raw_lookup(X, T, grid)
                if not np.array_equal(rows, look):
                    k = int(np.argmax(np.any(rows != look, axis=1)))
                    viol.append({"what": "row k is not the state of the underlying path at time t_k", "signature": sig("row-lookup"),
                                 "detail": "row %d (t=%r) = %s, path state %s" % (k, grid[k], rows[k].tolist(), look[k].tolist()) + here})
                if max(per_int + [0]) >= 2: S["nontrivial"] = True
                if not on_grid and cnt is not None:
                    if cnt.shape != ref.shape or not np.array_equal(cnt, ref):
                        k = int(np.argmax(np.any(cnt != ref, axis=1))) if cnt.shape == ref.shape else 0
                        viol.append({"what": "per-interval counts are not the per-transition event counts of the interval", "signature": sig("interval-counts"),
                                     "detail": "interval %d (%r, %r]: reported %s, events of the path %s" % (k, grid[k], grid[min(k + 1, len(grid) - 1)], cnt[k].tolist() if cnt.shape == ref.shape else cnt.shape, ref[k].tolist() if len(ref) else []) + here})
                    if cnt.shape == ref.shape and not all(np.array_equal(rows[k + 1] - rows[k], V.dot(cnt[k])) for k in range(len(grid) - 1)):
                        k = [np.array_equal(rows[k + 1] - rows[k], V.dot(cnt[k])) for k in range(len(grid) - 1)].index(False)
                        viol.append({"what": "consecutive rows do not differ by vMat . counts", "signature": sig("rows-differ"),
                                     "detail": "interval %d: rows %s -> %s, counts %s, V.counts %s" % (k, rows[k].tolist(), rows[k + 1].tolist(), cnt[k].tolist(), V.dot(cnt[k]).tolist()) + here})
            else:
                if max(per_int + [0]) >= 1: S["nontrivial"] = True
                if not on_grid and cnt is not None and (cnt.shape != ref.shape or not np.array_equal(cnt, ref)):
                    viol.append({"what": "per-interval counts are not the per-transition event counts of the interval (tau-leap)", "signature": sig("interval-counts"),
                                 "detail": "reported %s, events of the path %s" % (cnt.tolist()[:5], ref.tolist()[:5]) + here})
                # tau-leap rows: whatever is meant by "the value at t_k" of a path recorded at leap ends (previous record, next
                # record, anything in between), it lies between the two records that bracket t_k, component by component
                lo_r, hi_r, interp = tau_brackets(X, T, grid)
                tol = 1e-9 * (1.0 + np.abs(X).max())
                if len(T) > 1 and not np.all(np.diff(T) > 0):
                    # recorded times that repeat (known finding C04-tau-below-ulp): interpolation at a repeated time is ambiguous
                    tags.append("path_with_repeated_times(C04 finding)")
                elif np.any(rows < lo_r - tol) or np.any(rows > hi_r + tol):
                    k = int(np.argmax(np.any((rows < lo_r - tol) | (rows > hi_r + tol), axis=1)))
                    viol.append({"what": "a gridded tau-leap row is not between the records of the underlying path that bracket its time", "signature": sig("row-bracket"),
                                 "detail": "row %d (t=%r) = %s, bracketing records min %s max %s" % (k, grid[k], rows[k].tolist(), lo_r[k].tolist(), hi_r[k].tolist()) + here})
                elif not np.allclose(rows, interp, rtol=1e-9, atol=tol):
                    k = int(np.argmax(np.any(~np.isclose(rows, interp, rtol=1e-9, atol=tol), axis=1)))
                    mism.append({"what": "grid:tau-rows-not-linear-interpolation",
                                 "detail": "row %d (t=%r) = %s, linear interpolation of the raw path (harness reference) %s" % (k, grid[k], rows[k].tolist(), interp[k].tolist()) + here})
        return True

    SC.run_session(case, judge, "C15", tags, mism, viol, max_steps=case.get("max_steps", SC.MAX_STEPS))
    return {"nontrivial": S["nontrivial"], "mismatches": mism, "violations": viol, "tags": tags,
            "sample": {"spec": spec, "x0": case["x0"], "params": case["params"], "sim": case["sim"], "session": case.get("session")}}


def tau_brackets(X, T, grid):
    """per grid time: componentwise min and max of the two raw records that bracket it (the first / last record outside the
    recorded range), and the linear interpolation between them - plain loops, independent of numpy.interp"""
    lo, hi, mid = [], [], []
    n = len(T)
    for g in grid:
        if g <= T[0]:
            a = b = 0; w = 0.0
        elif g >= T[-1]:
            a = b = n - 1; w = 0.0
        else:
            b = next(i for i in range(n) if T[i] >= g)
            a = b - 1
            w = (g - T[a]) / (T[b] - T[a])
        lo.append(np.minimum(X[a], X[b])); hi.append(np.maximum(X[a], X[b])); mid.append(X[a] + (X[b] - X[a]) * w)
    return np.array(lo, float), np.array(hi, float), np.array(mid, float)
