"""
C04 - every simulated path is a legal walk of the model's events.

Proof: Pygom/Props/C04.lean (start, strictly increasing times, counts, increment = V.counts, exit) about
the executable model Pygom/Stoch.lean, for every model shape and every draw list.
Tie: the real solve_stochast(T, 2, exact=, full_output=True) is run with every numpy draw and every
evaluator call recorded; each loop iteration is replayed through the Lean driver from the OBSERVED
pre-state (so float rounding cannot accumulate) and post-state, counts, dt, tau, success and branch are compared.
Direct oracle (no Lean): the property itself on the returned arrays.
"""
import random

import numpy as np

from .. import leanio
from . import stoch_common as SC

PROP = "C04"
LEAN = {"module": "Pygom.Props.C04",
        "required": ["Pygom.C04.path_start", "Pygom.C04.path_times_increasing", "Pygom.C04.adaptiveTau_pos",
                     "Pygom.C04.path_counts", "Pygom.C04.path_increment", "Pygom.C04.path_exit",
                     "Pygom.C04.path_exit_partial"]}
BUDGET = {"quick": {"models": 120}, "thorough": {"models": 1000, "max_steps": 3000, "steps": [40, 150, 600, 2500]}}
RULE = ("bounded-rate event models from the shared generator (1-5 states incl. range-style names, 1-5 events of 1-3 T/B/D "
        "transitions, integer magnitudes 1-3, linear/mass-action/saturating/exponential autonomous rates, derived parameters, "
        "every API route; 25% single-state or single-event; 10% of tau runs carry explicit ODE terms), integer initial states, "
        "x {exact, adaptive tau, fixed tau} x 2 paths each, scalar or one-element-list horizon, step cap; "
        "a case is non-trivial when some path has >= 5 accepted steps")
ASSUMPTIONS = ["exponential variates are positive and fixed pre_tau is positive (hypotheses of path_times_increasing)",
               "termination in finitely many steps is a probability-one statement about the draw stream, not proved (path_exit_partial)",
               "IEEE double vs exact rational arithmetic: times/tau compared to 1e-12 relative, integer states and counts exactly",
               "epsilon > 0 (a non-positive epsilon divides by zero in the cython safety loop)"]
TRUSTED = ["harness generator and tracer (numpy.random / evaluator / _jump wrappers)", "Lean driver JSON codec",
           "numpy's generator produces the variates (their law is C05/C16's concern)"]


def make_cases(rng, tier, budget):
    cases = []
    i = 0
    while len(cases) < 3 * budget["models"]:
        r = random.Random(rng.getrandbits(64))
        base = SC.gen_sim_case(r, max_x0=30, ode_share=0.0)
        if base is None:
            continue
        for mode in ("exact", "tau_adaptive", "tau_fixed"):
            b = base
            if mode != "exact" and r.random() < 0.1:
                for _ in range(8):      # a model with explicit ODE terms next to its events
                    b2 = SC.gen_sim_case(random.Random(r.getrandbits(64)), max_x0=30, ode_share=1.0)
                    if b2 is not None and b2["has_ode"]:
                        b = b2
                        break
            c = dict(b)
            c["sim"] = SC.sim_settings(r, b, mode, steps=budget.get("steps"))
            c["sim"]["horizon_kind"] = r.choice(["float", "float", "list1", "int"])
            if c["sim"]["horizon_kind"] == "int":
                c["sim"]["T"] = float(max(1, int(np.ceil(c["sim"]["T"]))))
            c["max_steps"] = budget.get("max_steps", SC.MAX_STEPS)
            cases.append(c)
        i += 1
    return cases


def search_cases(rng, tier, budget):
    return make_cases(rng, tier, {"models": budget["models"] * 3, **{k: v for k, v in budget.items() if k != "models"}})


def horizon_arg(sim):
    k = sim.get("horizon_kind", "float")
    if k == "list1":
        return [sim["T"]]
    if k == "int":
        return int(sim["T"])
    return sim["T"]


def run_case(case):
    spec, meta, sim = case["spec"], case["meta"], case["sim"]
    tags, mism, viol = [], [], []
    exact = sim["mode"] == "exact"
    model = SC.build_model(case)
    lims = SC.declared_limits(spec)
    nS, nE = len(meta["states"]), len(meta["procs"])
    tags += ["mode:" + sim["mode"], "nS=%d" % nS, "nE=%d" % nE, "horizon:" + sim.get("horizon_kind", "float")]
    if nS == 1: tags.append("single_state")
    if nE == 1: tags.append("single_event")
    if case.get("has_ode"): tags.append("has_ode")
    if any(tr["mag"] != ["num", "1"] for p in meta["procs"] for tr in p["transitions"]): tags.append("magnitude>1")
    if any(len(p["transitions"]) > 1 for p in meta["procs"]): tags.append("multi_transition_event")
    for k in set(meta["kinds"]): tags.append("rate:" + k)

    lr = SC.lean_lims(spec)
    sl = getattr(model, "_state_lims", None)
    if sl is not None and [list(l) for l in sl] != lr["lims"]:
        mism.append({"what": "state_lims", "detail": "python _state_lims %s lean %s" % (sl, lr["lims"])})

    harg = horizon_arg(sim)
    ta = leanio.driver().call({"op": "time_arg", "kind": "list" if isinstance(harg, list) else "number",
                               "values": [SC.q(sim["T"])]})
    tr = SC.traced_run(model, harg, exact, sim["np_seed"], iterations=2, max_steps=case.get("max_steps", SC.MAX_STEPS))
    shape = "nS=%s,nE=%s" % ("1" if nS == 1 else "n", "1" if nE == 1 else "n")
    if tr.error is not None and SC.unbounded_adaptive_tau(tr, sim):
        viol.append({"what": "solve_stochast raised ValueError('lam value too large'): the adaptive tau of a state where no propensity "
                             "changes appreciably is astronomically large and rate*tau overflows the Poisson sampler",
                     "signature": "C04:raise:ValueError:tau_adaptive:lam-too-large:tau>1e15",
                     "detail": "x0=%s params=%s T=%r" % (case["x0"], case["params"], sim["T"])})
        return {"nontrivial": False, "mismatches": mism, "violations": viol, "tags": tags + ["raised:unbounded-adaptive-tau"]}
    if tr.error is not None:
        viol.append({"what": "solve_stochast raised %s: %s" % (type(tr.error).__name__, str(tr.error)[:200]),
                     "signature": "C04:raise:%s:%s:%s" % (type(tr.error).__name__, sim["mode"].split("_")[0], shape),
                     "detail": "x0=%s params=%s T=%r" % (case["x0"], case["params"], sim["T"])})
        return {"nontrivial": False, "mismatches": mism, "violations": viol, "tags": tags + ["raised"]}
    Xs, Js, Ts = tr.result
    if ta.get("err") or ta.get("grid") is not None or isinstance(Ts, np.ndarray):
        mism.append({"what": "time_arg", "detail": "lean %s ; python returned times of type %s" % (ta, type(Ts).__name__)})
    accepted = 0
    for p in range(len(Xs)):
        jr = tr.jumps[p]
        X, J, T = np.array(Xs[p], float), np.array(Js[p]), np.array(Ts[p], float)
        if J.ndim == 1:
            J = J.reshape(0, nE)
        if not (np.array_equal(X, jr["X"]) and np.array_equal(T, jr["T"])):
            mism.append({"what": "raw-output", "detail": "solve_stochast(scalar) does not return what _jump produced"})
        if abs(jr["finalT"] - float(sim["T"])) > 0 or (not ta.get("err") and SC.fr(ta["final_t"]) != SC.fr(SC.q(sim["T"]))):
            mism.append({"what": "time_arg:finalT", "detail": "_jump got finalT=%r, horizon %r, lean %s" % (jr["finalT"], sim["T"], ta)})
        its = SC.segment(tr.log[jr["log"][0]:jr["log"][1]], exact)
        jr["J"] = J
        st = SC.tie_steps(model, case, jr, its, lr["lims"], mism, tags)
        SC.oracle_c04(model, case, X, J, T, exact, float(sim["T"]), jr["truncated"], its, lims, tr.evaluators, viol)
        accepted = max(accepted, len(T) - 1)
        if jr["truncated"]: tags.append("truncated")
        if st["stop"]: tags.append("stop:" + st["stop"])
        elif not jr["truncated"]: tags.append("exit:horizon")
        if st["rejected_tau"]: tags.append("tau_rejected")
        if st["retries_ok"]: tags.append("retry_accepted")
    return {"nontrivial": accepted >= 5, "mismatches": mism, "violations": viol, "tags": tags,
            "sample": {"spec": spec, "x0": case["x0"], "params": case["params"], "sim": sim, "accepted_steps": accepted}}
