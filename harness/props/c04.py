"""
C04 - every simulated path is a legal walk of the model's events.

Proof: Pygom/Props/C04.lean (start, strictly increasing times, counts, increment = V.counts, exit) about
the executable model Pygom/Stoch.lean, for every model shape and every draw list.
Tie: the real solve_stochast(T, 2, exact=, full_output=True) is run with every numpy draw and every
evaluator call recorded; each loop iteration is replayed through the Lean driver from the OBSERVED
pre-state (so float rounding cannot accumulate) and post-state, counts, dt, tau, success and branch are compared.
Direct oracle (no Lean): the property itself on the returned arrays, judged against the HARNESS'S OWN copy of the initial
state (never the array that was handed to pygom).

History and input form.  In the Lean model a path is a pure function of (configuration in force, x0, t0, horizon, draws):
`path_start` holds for every call, `runMany_all_start` for each of n successive paths, `exact_ignores_tau_config` says the
exact algorithm does not read pre_tau / epsilon.  The sessions of stoch_common.run_session probe the same on the real code
(several calls on one instance, left-over pre_tau / epsilon, every form of x0 / t0 / horizon, sibling instances, kept arrays).
"""
import random

import numpy as np

from .. import leanio
from . import stoch_common as SC

PROP = "C04"
LEAN = {"module": "Pygom.Props.C04", "extra_modules": ["Pygom.Props.C04Seq"],
        "required": ["Pygom.C04.runMany_all_start", "Pygom.C04.exact_ignores_tau_config", "Pygom.C04.exact_steps_one_event_any_tau_config",
                     "Pygom.C04.path_start", "Pygom.C04.path_times_increasing", "Pygom.C04.adaptiveTau_pos",
                     "Pygom.C04.path_counts", "Pygom.C04.path_increment", "Pygom.C04.path_exit",
                     "Pygom.C04.path_exit_partial"]}
BUDGET = {"quick": {"models": 120, "sessions": 160},
          "thorough": {"models": 1000, "sessions": 900, "max_steps": 3000, "steps": [40, 150, 600, 2500], "session_steps": [40, 150, 600]}}
RULE = ("bounded-rate event models from the shared generator (1-5 states incl. range-style names, 1-5 events of 1-3 T/B/D "
        "transitions, integer magnitudes 1-3, linear/mass-action/saturating/exponential autonomous rates, derived parameters, "
        "every API route; 25% single-state or single-event; 10% of tau runs carry explicit ODE terms), integer initial states 0-30 "
        "(1 model in 8: up to 400, half of those handed over as int32), "
        "x {exact, adaptive tau, fixed tau} x 2 paths each, step cap; the initial state is handed over as int / int32 / float64 ndarray, "
        "list or tuple of ints or floats (a bare number for one-state models), the initial time as numpy float64 / int64 / float32 "
        "(Python float / int: rejected by the unchanged pygom, tagged), the horizon as float, int, numpy scalar, one-element list "
        "or tuple; plus SESSIONS on one instance: 3-5 calls (exact and tau-leap, 1-3 paths, scalar horizons and list / tuple / array "
        "grids of float or int dtype, also starting after t0 or extending past extinction) with pre_tau / epsilon left over from "
        "earlier calls, initial values re-assigned in another form or with other values (initial_values or initial_state + "
        "initial_time), parameters changed and restored, a deep copy of the configured instance taking over, a sibling instance (same or another definition) simulated in between, the first call repeated at the end "
        "and the last call repeated on a freshly built instance; every returned array is kept and compared again at the end, "
        "the caller's arrays and model.initial_state are compared with the harness's own copies after every call; "
        "side effects the pure model excludes but the property does not state (caller's objects or model.initial_state written to, a "
        "repeated call or a fresh instance not reproducing a call) are tags and broken correspondence, never violations; "
        "a case is non-trivial when some path has >= 5 accepted steps")
ASSUMPTIONS = ["exponential variates are positive and fixed pre_tau is positive (hypotheses of path_times_increasing)",
               "termination in finitely many steps is a probability-one statement about the draw stream, not proved (path_exit_partial)",
               "IEEE double vs exact rational arithmetic: times/tau compared to 1e-12 relative, integer states and counts exactly",
               "epsilon > 0 (a non-positive epsilon divides by zero in the cython safety loop)"]
TRUSTED = ["harness generator and tracer (numpy.random / evaluator / _jump wrappers)", "Lean driver JSON codec",
           "numpy's generator produces the variates (their law is C05/C16's concern)"]


def _forms(r, base, sim, *, session=False):
    nS = len(base["x0"])
    sim["x0_form"] = r.choice([f for f in SC.X0_FORMS if f != "scalar" or nS == 1])
    if base.get("large") and r.random() < 0.5:
        sim["x0_form"] = "arr_i32"          # populations of hundreds in a 32-bit array: products of three of them pass 2^31
    sim["t0_form"] = r.choice(["np_f64"] * 10 + ["np_i64"] * 4 + ["np_f32"] * 4 + ([] if session else ["py_float", "py_int"]))


def make_cases(rng, tier, budget):
    cases = []
    while len(cases) < 3 * budget["models"]:
        r = random.Random(rng.getrandbits(64))
        large = r.random() < 0.12                 # 1 model in 8 with populations up to 400 (rates stay bounded: smaller parameters)
        base = SC.gen_sim_case(r, max_x0=400 if large else 30, ode_share=0.0)
        if base is None:
            continue
        base["large"] = large
        for mode in ("exact", "tau_adaptive", "tau_fixed"):
            b = base
            if mode != "exact" and r.random() < 0.1:
                for _ in range(8):      # a model with explicit ODE terms next to its events
                    b2 = SC.gen_sim_case(random.Random(r.getrandbits(64)), max_x0=30, ode_share=1.0)
                    if b2 is not None and b2["has_ode"]:
                        b = b2
                        break
            c = dict(b)
            c["sim"] = SC.sim_settings(r, b, mode, steps=budget.get("steps"))
            c["sim"]["time"] = SC.gen_scalar_time(r, c["sim"]["T"])
            c["sim"]["T"] = c["sim"]["time"]["values"][0]
            _forms(r, b, c["sim"])
            c["max_steps"] = budget.get("max_steps", SC.MAX_STEPS)
            cases.append(c)
    n = 0
    while n < budget.get("sessions", 0):
        r = random.Random(rng.getrandbits(64))
        large = r.random() < 0.12
        base = SC.gen_sim_case(r, max_x0=400 if large else 30, ode_share=0.0)
        sib = SC.gen_sim_case(r, max_x0=30, ode_share=0.0)
        if base is None:
            continue
        base["large"] = large
        c = dict(base)
        c["sim"] = SC.sim_settings(r, base, r.choice(["exact", "tau_adaptive", "tau_fixed"]), steps=budget.get("session_steps", budget.get("steps")))
        _forms(r, base, c["sim"], session=True)
        c["session"] = SC.gen_session(r, base, c["sim"], grid_share=0.3, sibling_base=sib)
        SC.add_flag_forms(r, c["session"], share=0.4)      # `exact` / `full_output` as 1 / 0 or numpy.bool_ in some calls (truthiness is what counts)
        c["max_steps"] = budget.get("max_steps", SC.MAX_STEPS)
        cases.append(c)
        n += 1
    return cases


def search_cases(rng, tier, budget):
    return make_cases(rng, tier, {**budget, "models": budget["models"] * 3, "sessions": budget.get("sessions", 0) * 3})


def run_case(case):
    spec, meta = case["spec"], case["meta"]
    tags, mism, viol = [], [], []
    lims = SC.declared_limits(spec)
    nS, nE = len(meta["states"]), len(meta["procs"])
    tags += ["nS=%d" % nS, "nE=%d" % nE]
    if nS == 1: tags.append("single_state")
    if nE == 1: tags.append("single_event")
    if case.get("has_ode"): tags.append("has_ode")
    if case.get("large"): tags.append("large_population")
    if any(tr["mag"] != ["num", "1"] for p in meta["procs"] for tr in p["transitions"]): tags.append("magnitude>1")
    if any(len(p["transitions"]) > 1 for p in meta["procs"]): tags.append("multi_transition_event")
    for k in set(meta["kinds"]): tags.append("rate:" + k)
    shape = "nS=%s,nE=%s" % ("1" if nS == 1 else "n", "1" if nE == 1 else "n")
    state = {"accepted": 0, "lr": None}

    def judge(call, model):
        sim, exact, tr = call.sim, call.exact, call.tr
        tags.append("mode:" + sim["mode"])
        if state["lr"] is None:
            state["lr"] = SC.lean_lims(spec)
            sl = getattr(model, "_state_lims", None)
            if sl is not None and [list(l) for l in sl] != state["lr"]["lims"]:
                mism.append({"what": "state_lims", "detail": "python _state_lims %s lean %s" % (sl, state["lr"]["lims"])})
        lr = state["lr"]
        ta = leanio.driver().call({"op": "time_arg", "kind": SC.lean_time_kind(call.ts), "values": [SC.q(g) for g in call.ts["values"]]})
        if tr.error is not None and SC.unbounded_adaptive_tau(tr, sim):
            viol.append({"what": "solve_stochast raised ValueError('lam value too large'): the adaptive tau of a state where no propensity "
                                 "changes appreciably is astronomically large and rate*tau overflows the Poisson sampler",
                         "signature": "C04:raise:ValueError:tau_adaptive:lam-too-large:tau>1e15",
                         "detail": "x0=%s params=%s T=%r" % (call.x0, case["params"], sim["T"])})
            tags.append("raised:unbounded-adaptive-tau")
            return False
        if tr.error is not None:
            cause = shape
            if sim["x0_form"] in SC.NARROW_INT_FORMS and SC.narrow_int_overflow(tr, call.x0, sim["t0"]):
                cause = "narrow-int-x0-overflow"      # the evaluators were given the caller's int32 state: products wrapped around
            viol.append({"what": "solve_stochast raised %s: %s" % (type(tr.error).__name__, str(tr.error)[:200]),
                         "signature": "C04:raise:%s:%s:%s" % (type(tr.error).__name__, sim["mode"].split("_")[0], cause),
                         "detail": "x0=%s (%s) t0 form %s params=%s time=%s op %d" % (call.x0, sim["x0_form"], sim["t0_form"], case["params"], call.ts, call.index)})
            tags.append("raised")
            return False
        Xs, Js, Ts = tr.result
        if ta.get("err") or (ta.get("grid") is not None) != call.is_grid or isinstance(Ts, np.ndarray) != call.is_grid:
            mism.append({"what": "time_arg", "detail": "lean %s ; python returned times of type %s for %s" % (ta, type(Ts).__name__, call.ts)})
        if len(Xs) != sim["iterations"] or len(tr.jumps) != sim["iterations"]:
            viol.append({"what": "not one path per requested iteration", "signature": "C04:paths-count:%s" % sim["mode"].split("_")[0],
                         "detail": "%d paths returned, %d _jump calls, %d iterations requested" % (len(Xs), len(tr.jumps), sim["iterations"])})
            return False
        for p in range(len(Xs)):
            jr = tr.jumps[p]
            if call.is_grid:
                # C04 is about the raw path: judged on what _jump returned (rows and interval counts are C15's)
                X, J, T = np.array(jr["X"], float), np.array(jr["J"]), np.array(jr["T"], float)
            else:
                X, J, T = np.array(Xs[p], float), np.array(Js[p]), np.array(Ts[p], float)
            if J.ndim == 1:
                J = J.reshape(0, nE)
            if not call.is_grid and not (np.array_equal(X, jr["X"]) and np.array_equal(T, jr["T"])):
                mism.append({"what": "raw-output", "detail": "solve_stochast(scalar) does not return what _jump produced"})
            if abs(jr["finalT"] - float(sim["T"])) > 0 or (not ta.get("err") and SC.fr(ta["final_t"]) != SC.fr(SC.q(sim["T"]))):
                mism.append({"what": "time_arg:finalT", "detail": "_jump got finalT=%r, horizon %r, lean %s" % (jr["finalT"], sim["T"], ta)})
            its = SC.segment(tr.log[jr["log"][0]:jr["log"][1]], exact)
            jr["J"] = J
            try:
                st = SC.tie_steps(model, call.case, jr, its, lr["lims"], mism, tags)
            except (KeyError, IndexError, ValueError) as exc:     # a recorded stream that does not have the modelled structure at all
                mism.append({"what": "trace:unparsed", "detail": "%s: %s" % (type(exc).__name__, exc)})
                st = {"stop": None, "rejected_tau": 0, "retries_ok": 0}
            extra = ":leftover-tau-config" if (call.leftover and sim["pre_tau"] is not None) else ""
            SC.oracle_c04(model, call.case, X, J, T, exact, float(sim["T"]), jr["truncated"], its, lims, tr.evaluators, viol,
                          sig_extra=extra, where="call at op %d, path %d, x0 handed over as %s" % (call.index, p, sim["x0_form"]), dT=jr["dT"])
            state["accepted"] = max(state["accepted"], len(T) - 1)
            if jr["truncated"]: tags.append("truncated")
            if st["stop"]: tags.append("stop:" + st["stop"])
            elif not jr["truncated"]: tags.append("exit:horizon")
            if st["rejected_tau"]: tags.append("tau_rejected")
            if st["retries_ok"]: tags.append("retry_accepted")
        return True

    SC.run_session(case, judge, "C04", tags, mism, viol, max_steps=case.get("max_steps", SC.MAX_STEPS))
    return {"nontrivial": state["accepted"] >= 5, "mismatches": mism, "violations": viol, "tags": tags,
            "sample": {"spec": spec, "x0": case["x0"], "params": case["params"], "sim": case["sim"], "session": case.get("session"),
                       "accepted_steps": state["accepted"]}}
