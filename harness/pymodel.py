"""
Build the real pygom model from a spec, through the API routes the spec names.
"""
from . import bootstrap
from . import exprs as E


def _tr(tj, plain=False):
    from pygom import Transition
    kw = {}
    if tj.get("origin") is not None:
        kw["origin"] = tj["origin"]
    if tj.get("dest") is not None:
        kw["destination"] = tj["dest"]
    if tj.get("eq") is not None:
        kw["equation"] = E.to_str(tj["eq"])
    mag = tj.get("mag")
    if mag is not None and mag != ["num", "1"]:
        kw["magnitude"] = E.to_plain_str(mag) if plain else E.to_str(mag)
    elif mag is not None and tj.get("explicit_mag"):
        kw["magnitude"] = "1"
    return Transition(transition_type=tj["type"], **kw)


def _ev(ej):
    from pygom import Event
    if "transition" in ej and ej["transition"] is not None:
        return _tr(ej["transition"])
    rate = E.to_str(ej["rate"]) if ej.get("rate") is not None else None
    return Event(transition_list=[_tr(t) for t in ej["transitions"]], rate=rate)


def _decl(d):
    if "str" in d:
        return d["str"]
    out = []
    for it in d["list"]:
        if isinstance(it, str):
            out.append(it)
        else:
            out.append((it[0], tuple(it[1])))
    return out


SETTER = {"add_event": "event_list", "add_transition": "transition_list", "add_birth_death": "birth_death_list",
          "add_ode": "ode_list"}

# input forms the unchanged pygom accepts (anything else it rejects with an error: such a form is tagged, not
# judged; an accepted form must be accepted and must give the right model - C12)
ACCEPTED_FORMS = {("ctor", "event", "list"), ("ctor", "event", "tuple"),
                  ("ctor", "transition", "list"), ("ctor", "transition", "tuple"),
                  ("ctor", "birth_death", "list"), ("ctor", "birth_death", "tuple"), ("ctor", "birth_death", "single"),
                  ("ctor", "ode", "list"), ("ctor", "ode", "single"),
                  ("decl", "state", "list"), ("decl", "state", "str"),
                  ("decl", "param", "list"), ("decl", "param", "str"), ("decl", "param", "tuple"),
                  ("then", "add_event", "add"), ("then", "add_event", "setter_list"), ("then", "add_event", "setter_tuple"),
                  ("then", "add_transition", "add"), ("then", "add_transition", "setter_list"), ("then", "add_transition", "setter_tuple"),
                  ("then", "add_birth_death", "add"), ("then", "add_birth_death", "setter_list"),
                  ("then", "add_birth_death", "setter_tuple"), ("then", "add_birth_death", "setter_single"),
                  ("then", "add_ode", "add"), ("then", "add_ode", "setter_list"), ("then", "add_ode", "setter_single")}


def _shape(objs, form):
    """a list of API objects in the container form asked for ("single" only makes sense for one object)"""
    if form == "tuple":
        return tuple(objs)
    if form == "single" and len(objs) == 1:
        return objs[0]
    return list(objs)


def apply_then(model, op, form="add"):
    """`form`: "add" = the add_* method; "setter_list" / "setter_tuple" / "setter_single" = assignment of a
    one-element list / tuple / the bare object to the corresponding *_list property (which appends)"""
    k = op["op"]
    if form != "add" and k in SETTER:
        obj = _ev(op) if k == "add_event" else _tr(op["t"])
        setattr(model, SETTER[k], _shape([obj], form[len("setter_"):]))
        return
    if k == "add_event":
        model.add_event(_ev(op))
    elif k == "add_transition":
        model.add_transition(_tr(op["t"]))
    elif k == "add_birth_death":
        model.add_birth_death(_tr(op["t"]))
    elif k == "add_ode":
        model.add_ode(_tr(op["t"]))
    elif k == "add_derived":
        model._addDerivedParam(op["name"], E.to_str(op["expr"]))
    elif k == "add_params":
        model.param_list = list(op["names"])
    elif k == "add_states":
        model.state_list = list(op["names"])
    else:
        raise ValueError(k)


def build(spec, backend="lambda", upto=None, forms=None):
    """returns the SimulateOde built through the routes of `spec`.
    Python exceptions propagate (the caller maps them to the error enum).
    `forms` (optional, ignored by the Lean model, which sees lists): {"ctor": {keyword: "list"|"tuple"|"single"},
    "state": "tuple", "param": "tuple", "then": [form per operation, see apply_then]}"""
    bootstrap.init()
    from pygom import SimulateOde
    forms = forms or {}
    cf = forms.get("ctor", {})
    c = spec.get("ctor", {})
    kw = {}
    if spec.get("derived"):
        kw["derived_param"] = [(n, E.to_str(e)) for n, e in spec["derived"]]
    if c.get("event"):
        kw["event"] = _shape([_ev(e) for e in c["event"]], cf.get("event", "list"))
    if c.get("transition"):
        kw["transition"] = _shape([_tr(t) for t in c["transition"]], cf.get("transition", "list"))
    if c.get("birth_death"):
        kw["birth_death"] = _shape([_tr(t) for t in c["birth_death"]], cf.get("birth_death", "list"))
    if c.get("ode"):
        kw["ode"] = _shape([_tr(t) for t in c["ode"]], cf.get("ode", "list"))
    st, pa = _decl(spec["state"]), _decl(spec["param"])
    if forms.get("state") == "tuple" and not isinstance(st, str):
        st = tuple(st)
    if forms.get("param") == "tuple" and not isinstance(pa, str):
        pa = tuple(pa)
    m = SimulateOde(state=st, param=pa, **kw)
    if backend == "lambda":
        bootstrap.fast_backend(m)
    ops = spec.get("then", [])
    tf = forms.get("then", [])
    for i, op in enumerate(ops if upto is None else ops[:upto]):
        apply_then(m, op, tf[i] if i < len(tf) else "add")
    return m


def err_enum(exc):
    """map a Python exception to the small enum shared with the Lean model"""
    n = type(exc).__name__
    if n in ("InputStateError",):
        return "InputStateError"
    if n in ("InputError",):
        return "InputError"
    if n in ("ValueError",):
        return "ValueError"
    if n in ("AssertionError",):
        return "AssertionError"
    return "Other:" + n
