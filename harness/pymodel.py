"""
Build the real pygom model from a spec, through the API routes the spec names.
"""
from . import bootstrap
from . import exprs as E


def _tr(tj, plain=False, sx=None):
    """`sx` = the spec's "syntax" style (exprs.user_str: natural precedence, as a user types it); None = the fully
    parenthesised reference form"""
    from pygom import Transition
    kw = {}
    if tj.get("origin") is not None:
        kw["origin"] = tj["origin"]
    if tj.get("dest") is not None:
        kw["destination"] = tj["dest"]
    if tj.get("eq") is not None:
        kw["equation"] = E.fmt(tj["eq"], sx)
    mag = tj.get("mag")
    if mag is not None and mag != ["num", "1"]:
        kw["magnitude"] = E.to_plain_str(mag) if plain else E.fmt(mag, sx)
    elif mag is not None and tj.get("explicit_mag"):
        kw["magnitude"] = "1"
    return Transition(transition_type=tj["type"], **kw)


def _ev(ej, sx=None):
    from pygom import Event
    if "transition" in ej and ej["transition"] is not None:
        return _tr(ej["transition"], sx=sx)
    rate = E.fmt(ej["rate"], sx) if ej.get("rate") is not None else None
    return Event(transition_list=[_tr(t, sx=sx) for t in ej["transitions"]], rate=rate)


def _decl(d):
    if "str" in d:
        return d["str"]
    out = []
    for it in d["list"]:
        if isinstance(it, str):
            out.append(it)
        else:
            out.append((it[0], tuple(it[1])))
    return out


SETTER = {"add_event": "event_list", "add_transition": "transition_list", "add_birth_death": "birth_death_list",
          "add_ode": "ode_list"}

# input forms the unchanged pygom accepts (anything else it rejects with an error: such a form is tagged, not
# judged; an accepted form must be accepted and must give the right model - C12)
ACCEPTED_FORMS = {("ctor", "event", "list"), ("ctor", "event", "tuple"),
                  ("ctor", "transition", "list"), ("ctor", "transition", "tuple"),
                  ("ctor", "birth_death", "list"), ("ctor", "birth_death", "tuple"), ("ctor", "birth_death", "single"),
                  ("ctor", "ode", "list"), ("ctor", "ode", "single"),
                  ("decl", "state", "list"), ("decl", "state", "str"),
                  ("decl", "param", "list"), ("decl", "param", "str"), ("decl", "param", "tuple"),
                  ("then", "add_event", "add"), ("then", "add_event", "setter_list"), ("then", "add_event", "setter_tuple"),
                  ("then", "add_transition", "add"), ("then", "add_transition", "setter_list"), ("then", "add_transition", "setter_tuple"),
                  ("then", "add_birth_death", "add"), ("then", "add_birth_death", "setter_list"),
                  ("then", "add_birth_death", "setter_tuple"), ("then", "add_birth_death", "setter_single"),
                  ("then", "add_ode", "add"), ("then", "add_ode", "setter_list"), ("then", "add_ode", "setter_single")}


def _shape(objs, form):
    """a list of API objects in the container form asked for ("single" only makes sense for one object)"""
    if form == "tuple":
        return tuple(objs)
    if form == "single" and len(objs) == 1:
        return objs[0]
    return list(objs)


def apply_then(model, op, form="add", sx=None):
    """`sx`: the spec's "syntax" style (see _tr); `form`: "add" = the add_* method; "setter_list" / "setter_tuple" / "setter_single" = assignment of a
    one-element list / tuple / the bare object to the corresponding *_list property (which appends)"""
    k = op["op"]
    if form != "add" and k in SETTER:
        obj = _ev(op, sx) if k == "add_event" else _tr(op["t"], sx=sx)
        setattr(model, SETTER[k], _shape([obj], form[len("setter_"):]))
        return
    if k == "add_event":
        model.add_event(_ev(op, sx))
    elif k == "add_transition":
        model.add_transition(_tr(op["t"], sx=sx))
    elif k == "add_birth_death":
        model.add_birth_death(_tr(op["t"], sx=sx))
    elif k == "add_ode":
        model.add_ode(_tr(op["t"], sx=sx))
    elif k == "add_derived":
        model._addDerivedParam(op["name"], E.fmt(op["expr"], sx))
    elif k == "add_params":
        model.param_list = list(op["names"])
    elif k == "add_states":
        model.state_list = list(op["names"])
    else:
        raise ValueError(k)


def build(spec, backend="lambda", upto=None, forms=None):
    """returns the SimulateOde built through the routes of `spec`.
    Python exceptions propagate (the caller maps them to the error enum).
    `forms` (optional, ignored by the Lean model, which sees lists): {"ctor": {keyword: "list"|"tuple"|"single"},
    "state": "tuple", "param": "tuple", "then": [form per operation, see apply_then]}"""
    bootstrap.init()
    from pygom import SimulateOde
    forms = forms or {}
    sx = spec.get("syntax")          # ignored by the Lean model (an expression is a tree there)
    cf = forms.get("ctor", {})
    c = spec.get("ctor", {})
    kw = {}
    if spec.get("derived"):
        kw["derived_param"] = [(n, E.fmt(e, sx)) for n, e in spec["derived"]]
    if c.get("event"):
        kw["event"] = _shape([_ev(e, sx) for e in c["event"]], cf.get("event", "list"))
    if c.get("transition"):
        kw["transition"] = _shape([_tr(t, sx=sx) for t in c["transition"]], cf.get("transition", "list"))
    if c.get("birth_death"):
        kw["birth_death"] = _shape([_tr(t, sx=sx) for t in c["birth_death"]], cf.get("birth_death", "list"))
    if c.get("ode"):
        kw["ode"] = _shape([_tr(t, sx=sx) for t in c["ode"]], cf.get("ode", "list"))
    st, pa = _decl(spec["state"]), _decl(spec["param"])
    if forms.get("state") == "tuple" and not isinstance(st, str):
        st = tuple(st)
    if forms.get("param") == "tuple" and not isinstance(pa, str):
        pa = tuple(pa)
    m = SimulateOde(state=st, param=pa, **kw)
    if backend == "lambda":
        bootstrap.fast_backend(m)
    ops = spec.get("then", [])
    tf = forms.get("then", [])
    for i, op in enumerate(ops if upto is None else ops[:upto]):
        apply_then(m, op, tf[i] if i < len(tf) else "add", sx=sx)
    return m


def spec_strings(spec):
    """every (expression tree, string handed to pygom) pair of a spec printed with a "syntax" style - for the printer's
    self-check (exprs.python_value of the string against exprs.ev of the tree)"""
    sx = spec.get("syntax")
    out = []

    def tr(tj):
        if tj.get("eq") is not None:
            out.append((tj["eq"], E.fmt(tj["eq"], sx)))
        if tj.get("mag") is not None and tj["mag"] != ["num", "1"]:
            out.append((tj["mag"], E.fmt(tj["mag"], sx)))

    def ev(ej):
        if ej.get("transition") is not None:
            return tr(ej["transition"])
        if ej.get("rate") is not None:
            out.append((ej["rate"], E.fmt(ej["rate"], sx)))
        for t in ej["transitions"]:
            tr(t)

    for n, e in spec.get("derived", []):
        out.append((e, E.fmt(e, sx)))
    c = spec.get("ctor", {})
    for ej in c.get("event", []): ev(ej)
    for key in ("transition", "birth_death", "ode"):
        for tj in c.get(key, []): tr(tj)
    for op in spec.get("then", []):
        if op["op"] == "add_event": ev(op)
        elif "t" in op: tr(op["t"])
    return out


def err_enum(exc):
    """map a Python exception to the small enum shared with the Lean model"""
    n = type(exc).__name__
    if n in ("InputStateError",):
        return "InputStateError"
    if n in ("InputError",):
        return "InputError"
    if n in ("ValueError",):
        return "ValueError"
    if n in ("AssertionError",):
        return "AssertionError"
    return "Other:" + n
