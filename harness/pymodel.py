"""
Build the real pygom model from a spec, through the API routes the spec names.
"""
from . import bootstrap
from . import exprs as E


def _tr(tj, plain=False):
    from pygom import Transition
    kw = {}
    if tj.get("origin") is not None:
        kw["origin"] = tj["origin"]
    if tj.get("dest") is not None:
        kw["destination"] = tj["dest"]
    if tj.get("eq") is not None:
        kw["equation"] = E.to_str(tj["eq"])
    mag = tj.get("mag")
    if mag is not None and mag != ["num", "1"]:
        kw["magnitude"] = E.to_plain_str(mag) if plain else E.to_str(mag)
    elif mag is not None and tj.get("explicit_mag"):
        kw["magnitude"] = "1"
    return Transition(transition_type=tj["type"], **kw)


def _ev(ej):
    from pygom import Event
    if "transition" in ej and ej["transition"] is not None:
        return _tr(ej["transition"])
    rate = E.to_str(ej["rate"]) if ej.get("rate") is not None else None
    return Event(transition_list=[_tr(t) for t in ej["transitions"]], rate=rate)


def _decl(d):
    if "str" in d:
        return d["str"]
    out = []
    for it in d["list"]:
        if isinstance(it, str):
            out.append(it)
        else:
            out.append((it[0], tuple(it[1])))
    return out


def apply_then(model, op):
    k = op["op"]
    if k == "add_event":
        model.add_event(_ev(op))
    elif k == "add_transition":
        model.add_transition(_tr(op["t"]))
    elif k == "add_birth_death":
        model.add_birth_death(_tr(op["t"]))
    elif k == "add_ode":
        model.add_ode(_tr(op["t"]))
    elif k == "add_derived":
        model._addDerivedParam(op["name"], E.to_str(op["expr"]))
    elif k == "add_params":
        model.param_list = list(op["names"])
    elif k == "add_states":
        model.state_list = list(op["names"])
    else:
        raise ValueError(k)


def build(spec, backend="lambda", upto=None):
    """returns the SimulateOde built through the routes of `spec`.
    Python exceptions propagate (the caller maps them to the error enum)."""
    bootstrap.init()
    from pygom import SimulateOde
    c = spec.get("ctor", {})
    kw = {}
    if spec.get("derived"):
        kw["derived_param"] = [(n, E.to_str(e)) for n, e in spec["derived"]]
    if c.get("event"):
        kw["event"] = [_ev(e) for e in c["event"]]
    if c.get("transition"):
        kw["transition"] = [_tr(t) for t in c["transition"]]
    if c.get("birth_death"):
        kw["birth_death"] = [_tr(t) for t in c["birth_death"]]
    if c.get("ode"):
        kw["ode"] = [_tr(t) for t in c["ode"]]
    m = SimulateOde(state=_decl(spec["state"]), param=_decl(spec["param"]), **kw)
    if backend == "lambda":
        bootstrap.fast_backend(m)
    ops = spec.get("then", [])
    for op in (ops if upto is None else ops[:upto]):
        apply_then(m, op)
    return m


def err_enum(exc):
    """map a Python exception to the small enum shared with the Lean model"""
    n = type(exc).__name__
    if n in ("InputStateError",):
        return "InputStateError"
    if n in ("InputError",):
        return "InputError"
    if n in ("ValueError",):
        return "ValueError"
    if n in ("AssertionError",):
        return "AssertionError"
    return "Other:" + n
