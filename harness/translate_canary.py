"""
(T) translator for C08: regenerates  lean/Pygom/Gen/CanaryCfg.lean  from the AST of
    $VERIF_REPO/src/pygom/model/base_ode_model.py   (mutators: which of them call `_hasNewTransition.trip()`,
                                                      do the declaration setters call `set_sp()`)
    $VERIF_REPO/src/pygom/model/simulate.py          (`HasNewTransition.states`, `add_func` registrations)
    $VERIF_REPO/src/pygom/model/deterministic.py     (`add_func` registrations and their `is_master_canary`)
    $VERIF_REPO/src/pygom/model/ode_utils/compile_canary.py   (where the flags live: does `CompileCanary.trip()` REBIND
                                                      `self._states` - one dict per canary object - or update it in
                                                      place - the class attribute `_states = {}` shared by all)

so that `Pygom.C08Source.extracted_good` / `extracted_watches_registered` are re-checked against what the
source says NOW.  What is extracted (and nothing else):

* `extractedWatched`    - the string constants of `simulate.HasNewTransition.states`
* `extractedRegistered` - (method_name, is_master_canary) of every `self.add_func("<name>", ...)` call in
                          `DeterministicOde.__init__` and `SimulateOde.__init__`
* `extractedTrips k`    - for each mutator k: EVERY statement that changes the definition (an `.append(` on a
                          `self._...List`, a call of `self._addVariable/_addStateSymbol/_addParamSymbol`, an augmented
                          assignment to `self._derivedParamEqn`) is followed, on the way out of the function, by a call
                          `self._hasNewTransition.trip()`: in the same block, or after the enclosing compound
                          statement in an enclosing block
* `extractedDeclSetsSp` - both declaration setters call `self.set_sp()` after their mutations
* `extractedTripRebinds` - every statement of `CompileCanary.trip` is an assignment `self._states = <expression not
                          mentioning _states>` (true), or some statement writes INTO `self._states` (subscript
                          assignment, `.update/.clear/.setdefault/.pop`, possibly inside `for`/`if`) (false)
* `extractedInitTrips`  - `CompileCanary.__init__` calls `self.trip()`, and neither `HasNewTransition` subclass defines
                          anything but `states`
  (`extractedSharedStore` = not (rebinds and init trips): with a class-level `_states` that is never rebound per object,
   all canaries of all model instances share one dict)

A mutator in which no definition-changing statement can be found, or a missing class / method, is a REFUSAL
(broken tie, reported as such) - never silently `true`.
"""
import ast
import os

from . import translate_kernels as TK

MUTATORS = {  # MutKind constructor -> (method name, is property setter)
    "addEvent": ("add_event", False),
    "addTransition": ("add_transition", False),
    "addBirthDeath": ("add_birth_death", False),
    "addOde": ("add_ode", False),
    "addDerived": ("_addDerivedParam", False),
    "addParams": ("param_list", True),
    "addStates": ("state_list", True),
}
MUTATING_CALLS = {"_addVariable", "_addStateSymbol", "_addParamSymbol"}


class Refuse(Exception):
    pass


def _parse(repo, rel):
    p = os.path.join(repo, "src", "pygom", "model", rel)
    with open(p, "rb") as f:
        return ast.parse(f.read().decode("utf-8", "replace"), filename=p)


def _class(tree, name):
    for n in tree.body:
        if isinstance(n, ast.ClassDef) and n.name == name:
            return n
    raise Refuse("class %s not found" % name)


def _method(cls, name, setter):
    for n in cls.body:
        if isinstance(n, ast.FunctionDef) and n.name == name:
            is_setter = any(isinstance(d, ast.Attribute) and d.attr == "setter" for d in n.decorator_list)
            if is_setter == setter:
                return n
    raise Refuse("method %s.%s%s not found" % (cls.name, name, " (setter)" if setter else ""))


def _is_self_attr_call(node, attr_chain):
    """node is a Call of self.<a>.<b>... with the given attribute chain"""
    if not isinstance(node, ast.Call):
        return False
    f = node.func
    for a in reversed(attr_chain):
        if not (isinstance(f, ast.Attribute) and f.attr == a):
            return False
        f = f.value
    return isinstance(f, ast.Name) and f.id == "self"


def _is_trip(stmt):
    return isinstance(stmt, ast.Expr) and _is_self_attr_call(stmt.value, ["_hasNewTransition", "trip"])


def _is_set_sp(stmt):
    return isinstance(stmt, ast.Expr) and _is_self_attr_call(stmt.value, ["set_sp"])


def _is_mutation(stmt):
    if isinstance(stmt, ast.Expr) and isinstance(stmt.value, ast.Call):
        f = stmt.value.func
        if isinstance(f, ast.Attribute):
            # self._xxxList.append(...)
            if f.attr in ("append", "extend", "insert") and isinstance(f.value, ast.Attribute) and isinstance(f.value.value, ast.Name) \
                    and f.value.value.id == "self" and f.value.attr.endswith("List"):
                return True
            if isinstance(f.value, ast.Name) and f.value.id == "self" and f.attr in MUTATING_CALLS:
                return True
    if isinstance(stmt, ast.AugAssign) and isinstance(stmt.target, ast.Attribute) and isinstance(stmt.target.value, ast.Name) \
            and stmt.target.value.id == "self" and stmt.target.attr in ("_derivedParamEqn",):
        return True
    return False


def _blocks(stmt):
    """child statement lists of a compound statement"""
    out = []
    for fld in ("body", "orelse", "finalbody"):
        b = getattr(stmt, fld, None)
        if isinstance(b, list) and b and isinstance(b[0], ast.stmt):
            out.append(b)
    for h in getattr(stmt, "handlers", []) or []:
        out.append(h.body)
    return out


def _analyse(fn, follow):
    """returns (number of definition-changing statements, number of them NOT followed by `follow` on the way out)"""
    total, uncovered = [0], [0]

    def walk(block, covered_after):
        # covered_after: a `follow` statement occurs after this block in an enclosing block
        for i, st in enumerate(block):
            later = covered_after or any(follow(s) for s in block[i + 1:])
            if _is_mutation(st):
                total[0] += 1
                here = later or any(follow(s) for s in block[:i])     # same block, before: still "in the same block"
                if not here:
                    uncovered[0] += 1
            for b in _blocks(st):
                walk(b, later)
    walk(fn.body, False)
    return total[0], uncovered[0]


def _states_list(cls):
    for n in cls.body:
        if isinstance(n, ast.Assign) and any(isinstance(t, ast.Name) and t.id == "states" for t in n.targets):
            if isinstance(n.value, (ast.List, ast.Tuple)) and all(isinstance(e, ast.Constant) and isinstance(e.value, str) for e in n.value.elts):
                return [e.value for e in n.value.elts]
            raise Refuse("%s.states is not a literal list of strings" % cls.name)
    raise Refuse("%s.states not found" % cls.name)


def _registrations(cls):
    init = _method(cls, "__init__", False)
    out = []
    for node in ast.walk(init):
        if _is_self_attr_call(node, ["add_func"]):
            if not node.args or not (isinstance(node.args[0], ast.Constant) and isinstance(node.args[0].value, str)):
                raise Refuse("%s.__init__: add_func with a non-literal method name" % cls.name)
            master = False
            for kw in node.keywords:
                if kw.arg == "is_master_canary":
                    if not isinstance(kw.value, ast.Constant):
                        raise Refuse("is_master_canary is not a literal")
                    master = bool(kw.value.value)
            if len(node.args) >= 4:
                a = node.args[3]
                if not isinstance(a, ast.Constant):
                    raise Refuse("is_master_canary is not a literal")
                master = bool(a.value)
            out.append((node.args[0].value, master))
    return out


def _mentions_states(node):
    return any(isinstance(n, ast.Attribute) and n.attr == "_states" for n in ast.walk(node))


def _is_self_states(node):
    return isinstance(node, ast.Attribute) and node.attr == "_states" and isinstance(node.value, ast.Name) and node.value.id == "self"


def _writes_into_states(st):
    """statement that updates the dict `self._states` in place"""
    if isinstance(st, (ast.Assign, ast.AugAssign)):
        targets = st.targets if isinstance(st, ast.Assign) else [st.target]
        if all(isinstance(t, ast.Subscript) and _is_self_states(t.value) for t in targets) and not _mentions_states(st.value):
            return True
    if isinstance(st, ast.Expr) and isinstance(st.value, ast.Call) and isinstance(st.value.func, ast.Attribute) \
            and st.value.func.attr in ("update", "clear", "setdefault", "pop") and _is_self_states(st.value.func.value):
        return True
    return False


def _trip_store(cls):
    """-> (rebinds: bool).  Translated subset of `trip`: docstring; `self._states = <expr without _states>`; in-place writes
    (above), possibly nested in `for` / `if` whose headers do not mention `_states`.  Anything else: Refuse."""
    fn = _method(cls, "trip", False)
    kinds = []

    def walk(block, top):
        for i, st in enumerate(block):
            if isinstance(st, ast.Expr) and isinstance(st.value, ast.Constant) and isinstance(st.value.value, str):
                continue
            if isinstance(st, ast.Pass):
                continue
            if isinstance(st, ast.Assign) and len(st.targets) == 1 and _is_self_states(st.targets[0]):
                if _mentions_states(st.value) or not top:
                    raise Refuse("CompileCanary.trip: `self._states = ...` built from the old dict, or inside a compound statement")
                kinds.append("rebind")
            elif _writes_into_states(st):
                kinds.append("inplace")
            elif isinstance(st, (ast.For, ast.If)) and not _mentions_states(st.iter if isinstance(st, ast.For) else st.test):
                walk(st.body, False)
                walk(st.orelse, False)
            else:
                raise Refuse("CompileCanary.trip: statement outside the translated subset (line %d)" % st.lineno)
    walk(fn.body, True)
    if not kinds:
        raise Refuse("CompileCanary.trip does not write `_states`")
    if "inplace" in kinds:
        # a rebinding FIRST, followed by in-place writes to the new dict, still gives one dict per object
        return kinds[0] == "rebind"
    return True


def _init_trips(cls):
    init = _method(cls, "__init__", False)
    return any(isinstance(st, ast.Expr) and _is_self_attr_call(st.value, ["trip"]) for st in init.body)


def _only_states(cls):
    for n in cls.body:
        if isinstance(n, ast.Expr) and isinstance(n.value, ast.Constant):
            continue
        if isinstance(n, ast.Assign) and all(isinstance(t, ast.Name) and t.id == "states" for t in n.targets):
            continue
        raise Refuse("%s defines more than `states` (line %d)" % (cls.name, n.lineno))
    return True


def _class_level_states(cls):
    """`_states` is a class attribute of CompileCanary (if it is not, `self._states[...]` in `trip` would raise before any
    sharing could happen; the modelled source has it)"""
    return any(isinstance(n, ast.Assign) and any(isinstance(t, ast.Name) and t.id == "_states" for t in n.targets) for n in cls.body)


def translate(repo):
    res = {"refused": [], "trips": {}, "watched": [], "registered": [], "declSetsSp": None, "detail": {},
           "tripRebinds": None, "initTrips": None}
    try:
        p = os.path.join(repo, "src", "pygom", "model", "ode_utils", "compile_canary.py")
        with open(p, "rb") as f:
            cc = _class(ast.parse(f.read().decode("utf-8", "replace"), filename=p), "CompileCanary")
        res["tripRebinds"] = _trip_store(cc)
        ok = _init_trips(cc)
        for rel in ("base_ode_model.py", "simulate.py"):
            ok = ok and _only_states(_class(_parse(repo, rel), "HasNewTransition"))
        res["initTrips"] = ok
        res["detail"]["flag_store"] = {"trip_rebinds_self._states": res["tripRebinds"], "init_calls_trip": ok,
                                       "class_level__states": _class_level_states(cc)}
    except (Refuse, OSError, SyntaxError) as e:
        res["refused"].append({"what": "compile_canary.CompileCanary (flag store)", "detail": str(e)})
    try:
        base = _class(_parse(repo, "base_ode_model.py"), "BaseOdeModel")
    except (Refuse, OSError, SyntaxError) as e:
        res["refused"].append({"what": "base_ode_model.BaseOdeModel", "detail": str(e)})
        base = None
    if base is not None:
        for kind, (name, setter) in MUTATORS.items():
            try:
                fn = _method(base, name, setter)
                n, bad = _analyse(fn, _is_trip)
                if n == 0:
                    raise Refuse("no definition-changing statement recognised in %s" % name)
                res["trips"][kind] = (bad == 0)
                res["detail"][kind] = {"method": name, "mutating_statements": n, "not_followed_by_trip": bad}
            except Refuse as e:
                res["refused"].append({"what": "mutator " + name, "detail": str(e)})
        try:
            ok = True
            for name in ("param_list", "state_list"):
                n, bad = _analyse(_method(base, name, True), _is_set_sp)
                if n == 0:
                    raise Refuse("no definition-changing statement recognised in %s setter" % name)
                ok = ok and bad == 0
            res["declSetsSp"] = ok
        except Refuse as e:
            res["refused"].append({"what": "declaration setters / set_sp", "detail": str(e)})
    try:
        sim = _parse(repo, "simulate.py")
        res["watched"] = _states_list(_class(sim, "HasNewTransition"))
        det = _parse(repo, "deterministic.py")
        res["registered"] = _registrations(_class(det, "DeterministicOde")) + _registrations(_class(sim, "SimulateOde"))
        if not res["registered"]:
            raise Refuse("no add_func registration found")
    except (Refuse, OSError, SyntaxError) as e:
        res["refused"].append({"what": "HasNewTransition.states / add_func registrations", "detail": str(e)})
    return res


def render(res):
    def b(x):
        return "true" if x else "false"
    lines = ["/-",
             "GENERATED by harness/translate_canary.py from base_ode_model.py, simulate.py, deterministic.py, ode_utils/compile_canary.py",
             "of the tree under test.",
             "Do not edit: rewritten (only when it changes) by every run of ./check C08.",
             "-/",
             "import Pygom.Canary",
             "",
             "namespace Pygom",
             "namespace Canary",
             "namespace Gen",
             "",
             "/-- `simulate.HasNewTransition.states` -/",
             "def extractedWatched : List String := [%s]" % ", ".join('"%s"' % s for s in res["watched"]),
             "",
             "/-- (method_name, is_master_canary) of every `add_func` call in `DeterministicOde.__init__` and `SimulateOde.__init__` -/",
             "def extractedRegistered : List (String × Bool) := [%s]" % ", ".join('("%s", %s)' % (n, b(m)) for n, m in res["registered"]),
             "",
             "/-- every definition-changing statement of the mutator is followed by `self._hasNewTransition.trip()` -/",
             "def extractedTrips : MutKind → Bool"]
    for kind in MUTATORS:
        v = res["trips"].get(kind)
        lines.append("  | .%s => %s%s" % (kind, b(v), "" if v is not None else "   -- REFUSED: could not be extracted"))
    lines += ["",
              "/-- both declaration setters call `self.set_sp()` after declaring the new symbols -/",
              "def extractedDeclSetsSp : Bool := %s" % b(res["declSetsSp"]),
              "",
              "/-- every statement of `CompileCanary.trip` that writes `_states` REBINDS `self._states` (a new dict per canary object) -/",
              "def extractedTripRebinds : Bool := %s%s" % (b(res.get("tripRebinds")), "" if res.get("tripRebinds") is not None else "   -- REFUSED: could not be extracted"),
              "",
              "/-- `CompileCanary.__init__` calls `self.trip()`; the `HasNewTransition` subclasses define nothing but `states` -/",
              "def extractedInitTrips : Bool := %s" % b(res.get("initTrips")),
              "",
              "/-- all canaries of all model instances write one dict (the class attribute `_states`) -/",
              "def extractedSharedStore : Bool := !(extractedTripRebinds && extractedInitTrips)",
              "",
              "/-- the source variant the text of the tree under test describes -/",
              "def extractedCfg : Cfg :=",
              "  { watched := fun e => extractedWatched.contains e.name,",
              "    master := fun e => (extractedRegistered.lookup e.name).getD false,",
              "    trips := extractedTrips,",
              "    declSetsSp := extractedDeclSetsSp }",
              "",
              "end Gen",
              "end Canary",
              "end Pygom",
              ""]
    return "\n".join(lines)


def regenerate(repo):
    res = translate(repo)
    path = os.path.join(TK.GEN_DIR, "CanaryCfg.lean")
    res["changed"] = TK.write_if_changed(path, render(res))
    res["path"] = path
    return res


if __name__ == "__main__":
    import json, sys
    r = regenerate(sys.argv[1] if len(sys.argv) > 1 else os.environ.get("VERIF_REPO", "/repo"))
    print(json.dumps({k: r[k] for k in ("trips", "watched", "registered", "declSetsSp", "tripRebinds", "initTrips", "refused", "detail", "changed")}, indent=1))
