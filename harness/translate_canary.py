"""
(T) translator for C08: regenerates  lean/Pygom/Gen/CanaryCfg.lean  from the AST of
    $VERIF_REPO/src/pygom/model/base_ode_model.py   (mutators: which of them call `_hasNewTransition.trip()`,
                                                      do the declaration setters call `set_sp()`)
    $VERIF_REPO/src/pygom/model/simulate.py          (`HasNewTransition.states`, `add_func` registrations)
    $VERIF_REPO/src/pygom/model/deterministic.py     (`add_func` registrations and their `is_master_canary`)
    $VERIF_REPO/src/pygom/model/ode_utils/compile_canary.py   (where the flags live: does `CompileCanary.trip()` REBIND
                                                      `self._states` - one dict per canary object - or update it in
                                                      place - the class attribute `_states = {}` shared by all)

so that `Pygom.C08Source.extracted_good` / `extracted_watches_registered` are re-checked against what the
source says NOW.  What is extracted (and nothing else):

* `extractedWatched`    - the string constants of `simulate.HasNewTransition.states`
* `extractedRegistered` - (method_name, is_master_canary) of every `self.add_func("<name>", ...)` call in
                          `DeterministicOde.__init__` and `SimulateOde.__init__`
* `extractedTrips k`    - for each mutator k: EVERY statement that changes the definition (an `.append(` on a
                          `self._...List`, a call of `self._addVariable/_addStateSymbol/_addParamSymbol`, an augmented
                          assignment to `self._derivedParamEqn`) is followed, on the way out of the function, by a call
                          `self._hasNewTransition.trip()`: in the same block, or after the enclosing compound
                          statement in an enclosing block
* `extractedDeclSetsSp` - both declaration setters call `self.set_sp()` after their mutations
* `extractedTripRebinds` - every statement of `CompileCanary.trip` is an assignment `self._states = <expression not
                          mentioning _states>` (true), or some statement writes INTO `self._states` (subscript
                          assignment, `.update/.clear/.setdefault/.pop`, possibly inside `for`/`if`) (false)
* `extractedInitTrips`  - `CompileCanary.__init__` calls `self.trip()`, and neither `HasNewTransition` subclass defines
                          anything but `states`
  (`extractedSharedStore` = not (rebinds and init trips): with a class-level `_states` that is never rebound per object,
   all canaries of all model instances share one dict)

* `extractedAliases`    - for each public alias of an evaluator (`ode_T`, `jacobian_T`, `grad_T`, `diff_jacobian_T`,
                          `grad_jacobianT`, `total_transition`): which evaluator's compiled object it returns and HOW - through
                          the evaluator's method `self.<name>(state, t)` (guard `none`), or by a fast path that calls
                          `<name>Compiled` directly while some canary flag `g` is down (guard `some g`).  A public method of
                          the two classes that is a one-line alias of a registered evaluator and is NOT in the table is a refusal.
* "followed by trip()"  - a `return` / `raise` that can be reached after a definition-changing statement and before the
                          `trip()` (an early exit) makes that statement "not followed by trip"; writes such as
                          `self._odeList[i] = ...`, `self._xxxList += ...`, `del self._xxxList[i]` are definition-changing too

A mutator in which no definition-changing statement can be found, or a missing class / method, is a REFUSAL
(broken tie, reported as such) - never silently `true`.
"""
import ast
import os

from . import translate_kernels as TK

MUTATORS = {  # MutKind constructor -> (method name, is property setter)
    "addEvent": ("add_event", False),
    "addTransition": ("add_transition", False),
    "addBirthDeath": ("add_birth_death", False),
    "addOde": ("add_ode", False),
    "addDerived": ("_addDerivedParam", False),
    "addParams": ("param_list", True),
    "addStates": ("state_list", True),
}
MUTATING_CALLS = {"_addVariable", "_addStateSymbol", "_addParamSymbol"}


class Refuse(Exception):
    pass


def _parse(repo, rel):
    p = os.path.join(repo, "src", "pygom", "model", rel)
    with open(p, "rb") as f:
        return ast.parse(f.read().decode("utf-8", "replace"), filename=p)


def _class(tree, name):
    for n in tree.body:
        if isinstance(n, ast.ClassDef) and n.name == name:
            return n
    raise Refuse("class %s not found" % name)


def _method(cls, name, setter):
    for n in cls.body:
        if isinstance(n, ast.FunctionDef) and n.name == name:
            is_setter = any(isinstance(d, ast.Attribute) and d.attr == "setter" for d in n.decorator_list)
            if is_setter == setter:
                return n
    raise Refuse("method %s.%s%s not found" % (cls.name, name, " (setter)" if setter else ""))


def _is_self_attr_call(node, attr_chain):
    """node is a Call of self.<a>.<b>... with the given attribute chain"""
    if not isinstance(node, ast.Call):
        return False
    f = node.func
    for a in reversed(attr_chain):
        if not (isinstance(f, ast.Attribute) and f.attr == a):
            return False
        f = f.value
    return isinstance(f, ast.Name) and f.id == "self"


def _is_trip(stmt):
    return isinstance(stmt, ast.Expr) and _is_self_attr_call(stmt.value, ["_hasNewTransition", "trip"])


def _is_set_sp(stmt):
    return isinstance(stmt, ast.Expr) and _is_self_attr_call(stmt.value, ["set_sp"])


LIST_WRITES = ("append", "extend", "insert", "remove", "pop", "clear", "sort", "reverse")


def _is_self_list(node):
    """`self._xxxList`"""
    return isinstance(node, ast.Attribute) and isinstance(node.value, ast.Name) and node.value.id == "self" and node.attr.endswith("List")


def _is_list_target(t):
    """an assignment target that changes a definition list: `self._xxxList`, `self._xxxList[...]` (also nested subscripts)"""
    while isinstance(t, ast.Subscript):
        t = t.value
    return _is_self_list(t)


def _is_mutation(stmt):
    if isinstance(stmt, ast.Expr) and isinstance(stmt.value, ast.Call):
        f = stmt.value.func
        if isinstance(f, ast.Attribute):
            # self._xxxList.append(...)
            if f.attr in LIST_WRITES and _is_self_list(f.value):
                return True
            if isinstance(f.value, ast.Name) and f.value.id == "self" and f.attr in MUTATING_CALLS:
                return True
    # self._xxxList[i] = ... / self._xxxList = ... / self._xxxList += ... / del self._xxxList[i]
    if isinstance(stmt, ast.Assign) and any(_is_list_target(t) for t in stmt.targets):
        return True
    if isinstance(stmt, ast.AugAssign) and _is_list_target(stmt.target):
        return True
    if isinstance(stmt, ast.Delete) and any(_is_list_target(t) for t in stmt.targets):
        return True
    if isinstance(stmt, ast.AugAssign) and isinstance(stmt.target, ast.Attribute) and isinstance(stmt.target.value, ast.Name) \
            and stmt.target.value.id == "self" and stmt.target.attr in ("_derivedParamEqn",):
        return True
    return False


def _blocks(stmt):
    """child statement lists of a compound statement"""
    out = []
    for fld in ("body", "orelse", "finalbody"):
        b = getattr(stmt, fld, None)
        if isinstance(b, list) and b and isinstance(b[0], ast.stmt):
            out.append(b)
    for h in getattr(stmt, "handlers", []) or []:
        out.append(h.body)
    return out


def _has_exit(node):
    """a `return` / `raise` somewhere inside the statement (nested function definitions excluded)"""
    stack = [node]
    while stack:
        n = stack.pop()
        if isinstance(n, (ast.Return, ast.Raise)):
            return True
        if isinstance(n, (ast.FunctionDef, ast.AsyncFunctionDef, ast.Lambda)) and n is not node:
            continue
        stack.extend(ast.iter_child_nodes(n))
    return False


def _analyse(fn, follow):
    """returns (number of definition-changing statements, number of them NOT followed by `follow` on the way out).

    The way out of a definition-changing statement: the statements after it in its block, then those after the enclosing
    compound statement in the enclosing block, and so on up to the end of the function (the sibling branches of an `if` are
    not on it; the body of an enclosing loop is, once more, for its exits).  The statement counts as followed when a `follow`
    statement stands on that way BEFORE any statement through which the function can be left (`return` / `raise`, also
    nested in a compound statement): an early `return` between the change and `trip()` is "not followed by trip".  A
    `follow` statement earlier in the same block also counts (the flags stay up until the next evaluation)."""
    total, uncovered = [0], [0]

    def covered(path):
        for st in path:
            if isinstance(st, tuple):                 # ("again", loop body): the next iteration of an enclosing loop
                if any(_has_exit(b) for b in st[1]):
                    return False
                continue
            if follow(st):
                return True
            if _has_exit(st):
                return False
        return False

    def walk(block, cont):
        # cont: what is executed after this block on the way out
        for i, st in enumerate(block):
            rest = list(block[i + 1:])
            if _is_mutation(st):
                total[0] += 1
                if not (any(follow(s) for s in block[:i]) or covered(rest + cont)):
                    uncovered[0] += 1
            if isinstance(st, (ast.For, ast.While)):
                walk(st.body, [("again", st.body)] + list(st.orelse) + rest + cont)
                walk(st.orelse, rest + cont)
            else:
                for b in _blocks(st):
                    walk(b, rest + cont)
    walk(fn.body, [])
    return total[0], uncovered[0]


def _states_list(cls):
    for n in cls.body:
        if isinstance(n, ast.Assign) and any(isinstance(t, ast.Name) and t.id == "states" for t in n.targets):
            if isinstance(n.value, (ast.List, ast.Tuple)) and all(isinstance(e, ast.Constant) and isinstance(e.value, str) for e in n.value.elts):
                return [e.value for e in n.value.elts]
            raise Refuse("%s.states is not a literal list of strings" % cls.name)
    raise Refuse("%s.states not found" % cls.name)


def _registrations(cls):
    init = _method(cls, "__init__", False)
    out = []
    for node in ast.walk(init):
        if _is_self_attr_call(node, ["add_func"]):
            if not node.args or not (isinstance(node.args[0], ast.Constant) and isinstance(node.args[0].value, str)):
                raise Refuse("%s.__init__: add_func with a non-literal method name" % cls.name)
            master = False
            for kw in node.keywords:
                if kw.arg == "is_master_canary":
                    if not isinstance(kw.value, ast.Constant):
                        raise Refuse("is_master_canary is not a literal")
                    master = bool(kw.value.value)
            if len(node.args) >= 4:
                a = node.args[3]
                if not isinstance(a, ast.Constant):
                    raise Refuse("is_master_canary is not a literal")
                master = bool(a.value)
            out.append((node.args[0].value, master))
    return out


def _mentions_states(node):
    return any(isinstance(n, ast.Attribute) and n.attr == "_states" for n in ast.walk(node))


def _is_self_states(node):
    return isinstance(node, ast.Attribute) and node.attr == "_states" and isinstance(node.value, ast.Name) and node.value.id == "self"


def _writes_into_states(st):
    """statement that updates the dict `self._states` in place"""
    if isinstance(st, (ast.Assign, ast.AugAssign)):
        targets = st.targets if isinstance(st, ast.Assign) else [st.target]
        if all(isinstance(t, ast.Subscript) and _is_self_states(t.value) for t in targets) and not _mentions_states(st.value):
            return True
    if isinstance(st, ast.Expr) and isinstance(st.value, ast.Call) and isinstance(st.value.func, ast.Attribute) \
            and st.value.func.attr in ("update", "clear", "setdefault", "pop") and _is_self_states(st.value.func.value):
        return True
    return False


def _trip_store(cls):
    """-> (rebinds: bool).  Translated subset of `trip`: docstring; `self._states = <expr without _states>`; in-place writes
    (above), possibly nested in `for` / `if` whose headers do not mention `_states`.  Anything else: Refuse."""
    fn = _method(cls, "trip", False)
    kinds = []

    def walk(block, top):
        for i, st in enumerate(block):
            if isinstance(st, ast.Expr) and isinstance(st.value, ast.Constant) and isinstance(st.value.value, str):
                continue
            if isinstance(st, ast.Pass):
                continue
            if isinstance(st, ast.Assign) and len(st.targets) == 1 and _is_self_states(st.targets[0]):
                if _mentions_states(st.value) or not top:
                    raise Refuse("CompileCanary.trip: `self._states = ...` built from the old dict, or inside a compound statement")
                kinds.append("rebind")
            elif _writes_into_states(st):
                kinds.append("inplace")
            elif isinstance(st, (ast.For, ast.If)) and not _mentions_states(st.iter if isinstance(st, ast.For) else st.test):
                walk(st.body, False)
                walk(st.orelse, False)
            else:
                raise Refuse("CompileCanary.trip: statement outside the translated subset (line %d)" % st.lineno)
    walk(fn.body, True)
    if not kinds:
        raise Refuse("CompileCanary.trip does not write `_states`")
    if "inplace" in kinds:
        # a rebinding FIRST, followed by in-place writes to the new dict, still gives one dict per object
        return kinds[0] == "rebind"
    return True


def _init_trips(cls):
    init = _method(cls, "__init__", False)
    return any(isinstance(st, ast.Expr) and _is_self_attr_call(st.value, ["trip"]) for st in init.body)


def _only_states(cls):
    for n in cls.body:
        if isinstance(n, ast.Expr) and isinstance(n.value, ast.Constant):
            continue
        if isinstance(n, ast.Assign) and all(isinstance(t, ast.Name) and t.id == "states" for t in n.targets):
            continue
        raise Refuse("%s defines more than `states` (line %d)" % (cls.name, n.lineno))
    return True


def _class_level_states(cls):
    """`_states` is a class attribute of CompileCanary (if it is not, `self._states[...]` in `trip` would raise before any
    sharing could happen; the modelled source has it)"""
    return any(isinstance(n, ast.Assign) and any(isinstance(t, ast.Name) and t.id == "_states" for t in n.targets) for n in cls.body)


# ---- secondary entry points: public aliases of the evaluators ----------------------------------------------------------
ALIASES = [  # (method name, class, file, modelled target)
    ("ode_T", "DeterministicOde", "deterministic.py", "ode"),
    ("jacobian_T", "DeterministicOde", "deterministic.py", "jacobian"),
    ("grad_T", "DeterministicOde", "deterministic.py", "grad"),
    ("diff_jacobian_T", "DeterministicOde", "deterministic.py", "diff_jacobian"),
    ("grad_jacobianT", "DeterministicOde", "deterministic.py", "grad_jacobian"),
    ("total_transition", "SimulateOde", "simulate.py", "eventRateVector"),
]


def _self_calls(node, names):
    """[(name, call)] for every call `self.<name>(...)` inside `node` with name in `names`"""
    out = []
    for n in ast.walk(node):
        if isinstance(n, ast.Call) and isinstance(n.func, ast.Attribute) and isinstance(n.func.value, ast.Name) \
                and n.func.value.id == "self" and n.func.attr in names:
            out.append((n.func.attr, n))
    return out


def _passes_state_and_time(call, fn):
    """the call hands on exactly the method's own `state` and `t` arguments: positionally as (state, t), or as the keywords
    state= / time= (or t=)"""
    argnames = [a.arg for a in fn.args.args]
    if "state" not in argnames or "t" not in argnames:
        return False
    name = lambda a: a.id if isinstance(a, ast.Name) else None
    if len(call.args) == 2 and not call.keywords:
        return [name(a) for a in call.args] == ["state", "t"]
    if not call.args and len(call.keywords) == 2:
        kw = {k.arg: name(k.value) for k in call.keywords}
        return kw.get("state") == "state" and (kw.get("time") == "t" or kw.get("t") == "t")
    return False


def _flag_of(node):
    """`getattr(self._hasNewTransition, "<g>"[, default])` or `self._hasNewTransition.<g>` -> g"""
    if isinstance(node, ast.Call) and isinstance(node.func, ast.Name) and node.func.id == "getattr" and len(node.args) in (2, 3):
        a, b = node.args[0], node.args[1]
        if isinstance(a, ast.Attribute) and a.attr == "_hasNewTransition" and isinstance(a.value, ast.Name) and a.value.id == "self" \
                and isinstance(b, ast.Constant) and isinstance(b.value, str):
            return b.value
    if isinstance(node, ast.Attribute) and isinstance(node.value, ast.Attribute) and node.value.attr == "_hasNewTransition" \
            and isinstance(node.value.value, ast.Name) and node.value.value.id == "self":
        return node.attr
    return None


def _alias_impl(fn, registered):
    """-> (target, guard or None).  Translated subset (anything else: Refuse):
         [docstring]  return <expression with exactly one call self.<target>(state, t)>                      -> (target, None)
         [docstring]  if hasattr(self, "<target>Compiled") and not <flag g>: return <expr with one call
                      self.<target>Compiled(state=, time=)>  ;  return <... self.<target>(state, t) ...>     -> (target, g)"""
    body = [st for st in fn.body if not (isinstance(st, ast.Expr) and isinstance(st.value, ast.Constant))]
    compiled = set(n + "Compiled" for n in registered)

    def plain_return(st):
        if not (isinstance(st, ast.Return) and st.value is not None):
            raise Refuse("%s: statement outside the translated subset (line %d)" % (fn.name, st.lineno))
        calls = _self_calls(st.value, set(registered))
        if len(calls) != 1 or _self_calls(st.value, compiled):
            raise Refuse("%s: the returned expression does not call exactly one registered evaluator (line %d)" % (fn.name, st.lineno))
        if not _passes_state_and_time(calls[0][1], fn):
            raise Refuse("%s: the evaluator is not called with the method's own (state, t) (line %d)" % (fn.name, st.lineno))
        return calls[0][0]

    if len(body) == 1:
        return plain_return(body[0]), None
    if len(body) == 2 and isinstance(body[0], ast.If) and not body[0].orelse and len(body[0].body) == 1:
        target = plain_return(body[1])
        test = body[0].test
        if not (isinstance(test, ast.BoolOp) and isinstance(test.op, ast.And) and len(test.values) == 2):
            raise Refuse("%s: fast-path test outside the translated subset (line %d)" % (fn.name, test.lineno))
        has, guard = None, None
        for v in test.values:
            if isinstance(v, ast.Call) and isinstance(v.func, ast.Name) and v.func.id == "hasattr" and len(v.args) == 2 \
                    and isinstance(v.args[0], ast.Name) and v.args[0].id == "self" and isinstance(v.args[1], ast.Constant):
                has = v.args[1].value
            elif isinstance(v, ast.UnaryOp) and isinstance(v.op, ast.Not):
                guard = _flag_of(v.operand)
        ret = body[0].body[0]
        if has is None or guard is None or not (isinstance(ret, ast.Return) and ret.value is not None):
            raise Refuse("%s: fast-path test outside the translated subset (line %d)" % (fn.name, test.lineno))
        calls = _self_calls(ret.value, compiled)
        if len(calls) != 1 or _self_calls(ret.value, set(registered)) or calls[0][0] != has or has != target + "Compiled":
            raise Refuse("%s: the fast path does not return the compiled object of the evaluator the method falls back to (line %d)" % (fn.name, ret.lineno))
        if not _passes_state_and_time(calls[0][1], fn):
            raise Refuse("%s: the compiled object is not called with the method's own (state, t) (line %d)" % (fn.name, ret.lineno))
        return target, guard
    raise Refuse("%s: body outside the translated subset" % fn.name)


def _unlisted_aliases(trees, registered):
    """public methods of DeterministicOde / SimulateOde, not in ALIASES, whose whole body is one `return` of an expression
    that calls exactly one registered evaluator with the method's own (state, t): a further alias the model does not know"""
    known = set(a[0] for a in ALIASES)
    out = []
    for cname, tree in trees:
        for n in _class(tree, cname).body:
            if isinstance(n, ast.FunctionDef) and not n.name.startswith("_") and n.name not in known and not n.decorator_list:
                try:
                    tgt, g = _alias_impl(n, registered)
                    out.append("%s.%s -> %s" % (cname, n.name, tgt))
                except Refuse:
                    pass
    return out


def translate(repo):
    res = {"refused": [], "trips": {}, "watched": [], "registered": [], "declSetsSp": None, "detail": {},
           "tripRebinds": None, "initTrips": None, "aliases": []}
    try:
        p = os.path.join(repo, "src", "pygom", "model", "ode_utils", "compile_canary.py")
        with open(p, "rb") as f:
            cc = _class(ast.parse(f.read().decode("utf-8", "replace"), filename=p), "CompileCanary")
        res["tripRebinds"] = _trip_store(cc)
        ok = _init_trips(cc)
        for rel in ("base_ode_model.py", "simulate.py"):
            ok = ok and _only_states(_class(_parse(repo, rel), "HasNewTransition"))
        res["initTrips"] = ok
        res["detail"]["flag_store"] = {"trip_rebinds_self._states": res["tripRebinds"], "init_calls_trip": ok,
                                       "class_level__states": _class_level_states(cc)}
    except (Refuse, OSError, SyntaxError) as e:
        res["refused"].append({"what": "compile_canary.CompileCanary (flag store)", "detail": str(e)})
    try:
        base = _class(_parse(repo, "base_ode_model.py"), "BaseOdeModel")
    except (Refuse, OSError, SyntaxError) as e:
        res["refused"].append({"what": "base_ode_model.BaseOdeModel", "detail": str(e)})
        base = None
    if base is not None:
        for kind, (name, setter) in MUTATORS.items():
            try:
                fn = _method(base, name, setter)
                n, bad = _analyse(fn, _is_trip)
                if n == 0:
                    raise Refuse("no definition-changing statement recognised in %s" % name)
                res["trips"][kind] = (bad == 0)
                res["detail"][kind] = {"method": name, "mutating_statements": n, "not_followed_by_trip": bad}
            except Refuse as e:
                res["refused"].append({"what": "mutator " + name, "detail": str(e)})
        try:
            ok = True
            for name in ("param_list", "state_list"):
                n, bad = _analyse(_method(base, name, True), _is_set_sp)
                if n == 0:
                    raise Refuse("no definition-changing statement recognised in %s setter" % name)
                ok = ok and bad == 0
            res["declSetsSp"] = ok
        except Refuse as e:
            res["refused"].append({"what": "declaration setters / set_sp", "detail": str(e)})
    try:
        sim = _parse(repo, "simulate.py")
        res["watched"] = _states_list(_class(sim, "HasNewTransition"))
        det = _parse(repo, "deterministic.py")
        res["registered"] = _registrations(_class(det, "DeterministicOde")) + _registrations(_class(sim, "SimulateOde"))
        if not res["registered"]:
            raise Refuse("no add_func registration found")
    except (Refuse, OSError, SyntaxError) as e:
        res["refused"].append({"what": "HasNewTransition.states / add_func registrations", "detail": str(e)})
        return res
    # secondary entry points: which compiled object does each alias return, through the evaluator's method or directly
    registered = [n for n, _ in res["registered"]]
    trees = {"deterministic.py": det, "simulate.py": sim}
    for name, cname, rel, _target in ALIASES:
        try:
            tgt, guard = _alias_impl(_method(_class(trees[rel], cname), name, False), registered)
            res["aliases"].append((name, tgt, guard))
        except Refuse as e:
            res["refused"].append({"what": "alias %s.%s" % (cname, name), "detail": str(e)})
    try:
        extra = _unlisted_aliases([("DeterministicOde", det), ("SimulateOde", sim)], registered)
        if extra:
            res["refused"].append({"what": "aliases", "detail": "public alias of an evaluator that the model does not list: " + ", ".join(extra)})
    except Refuse as e:
        res["refused"].append({"what": "aliases", "detail": str(e)})
    res["detail"]["aliases"] = [{"method": n, "returns": t, "via": ("%sCompiled behind the flag %r" % (t, g)) if g else "self.%s(state, t)" % t}
                                for n, t, g in res["aliases"]]
    return res


def render(res):
    def b(x):
        return "true" if x else "false"
    lines = ["/-",
             "GENERATED by harness/translate_canary.py from base_ode_model.py, simulate.py, deterministic.py, ode_utils/compile_canary.py",
             "of the tree under test.",
             "Do not edit: rewritten (only when it changes) by every run of ./check C08.",
             "-/",
             "import Pygom.Canary",
             "",
             "namespace Pygom",
             "namespace Canary",
             "namespace Gen",
             "",
             "/-- `simulate.HasNewTransition.states` -/",
             "def extractedWatched : List String := [%s]" % ", ".join('"%s"' % s for s in res["watched"]),
             "",
             "/-- (method_name, is_master_canary) of every `add_func` call in `DeterministicOde.__init__` and `SimulateOde.__init__` -/",
             "def extractedRegistered : List (String × Bool) := [%s]" % ", ".join('("%s", %s)' % (n, b(m)) for n, m in res["registered"]),
             "",
             "/-- every definition-changing statement of the mutator is followed by `self._hasNewTransition.trip()` -/",
             "def extractedTrips : MutKind → Bool"]
    for kind in MUTATORS:
        v = res["trips"].get(kind)
        lines.append("  | .%s => %s%s" % (kind, b(v), "" if v is not None else "   -- REFUSED: could not be extracted"))
    lines += ["",
              "/-- both declaration setters call `self.set_sp()` after declaring the new symbols -/",
              "def extractedDeclSetsSp : Bool := %s" % b(res["declSetsSp"]),
              "",
              "/-- every statement of `CompileCanary.trip` that writes `_states` REBINDS `self._states` (a new dict per canary object) -/",
              "def extractedTripRebinds : Bool := %s%s" % (b(res.get("tripRebinds")), "" if res.get("tripRebinds") is not None else "   -- REFUSED: could not be extracted"),
              "",
              "/-- `CompileCanary.__init__` calls `self.trip()`; the `HasNewTransition` subclasses define nothing but `states` -/",
              "def extractedInitTrips : Bool := %s" % b(res.get("initTrips")),
              "",
              "/-- all canaries of all model instances write one dict (the class attribute `_states`) -/",
              "def extractedSharedStore : Bool := !(extractedTripRebinds && extractedInitTrips)",
              "",
              "/-- (alias method, evaluator whose compiled object it returns, `none`: through `self.<evaluator>(state, t)` / `some g`: a fast",
              "path that calls `<evaluator>Compiled` directly while the flag `g` is down) for `ode_T`, `jacobian_T`, `grad_T`,",
              "`diff_jacobian_T`, `grad_jacobianT`, `total_transition` -/",
              "def extractedAliases : List (String × String × Option String) := [%s]" % ", ".join(
                  '("%s", "%s", %s)' % (n, t, ('some "%s"' % g) if g else "none") for n, t, g in res.get("aliases", [])),
              "",
              "/-- how each modelled alias reaches the compiled object, as the text reads -/",
              "def extractedAliasImpl (a : Alias) : AliasImpl :=",
              "  match extractedAliases.lookup a.name with",
              "  | some (_, some g) => match Ev.ofName? g with",
              "    | some e => .direct e",
              "    | none => .method",
              "  | _ => .method",
              "",
              "/-- the source variant the text of the tree under test describes -/",
              "def extractedCfg : Cfg :=",
              "  { watched := fun e => extractedWatched.contains e.name,",
              "    master := fun e => (extractedRegistered.lookup e.name).getD false,",
              "    trips := extractedTrips,",
              "    declSetsSp := extractedDeclSetsSp }",
              "",
              "end Gen",
              "end Canary",
              "end Pygom",
              ""]
    return "\n".join(lines)


def regenerate(repo):
    res = translate(repo)
    path = os.path.join(TK.GEN_DIR, "CanaryCfg.lean")
    res["changed"] = TK.write_if_changed(path, render(res))
    res["path"] = path
    return res


if __name__ == "__main__":
    import json, sys
    r = regenerate(sys.argv[1] if len(sys.argv) > 1 else os.environ.get("VERIF_REPO", "/repo"))
    print(json.dumps({k: r[k] for k in ("trips", "watched", "registered", "declSetsSp", "tripRebinds", "initTrips", "aliases", "refused", "detail", "changed")}, indent=1))
