import Pygom.Expr
import Pygom.Model
import Pygom.Codec
import Pygom.Build
import Pygom.Ops
