/-
Line-protocol driver: one JSON request per input line, one JSON response per output line.
The driver is a pure function of each line.
-/
import Pygom.Dispatch

open Lean (Json)
open Pygom

partial def loop (h : IO.FS.Stream) (out : IO.FS.Stream) : IO Unit := do
  let line ← h.getLine
  if line.isEmpty then return ()
  let l := line.trimAscii.toString
  if l.isEmpty then loop h out else
  let resp := match Json.parse l with
    | .error e => Json.mkObj [("fatal", s!"json parse: {e}")]
    | .ok j => handle j
  out.putStrLn resp.compress
  out.flush
  loop h out

def main : IO Unit := do
  loop (← IO.getStdin) (← IO.getStdout)
