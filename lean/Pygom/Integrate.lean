/-
Integrate.lean — bookkeeping of pygom's deterministic solving entry points (no Mathlib).

What is modelled, line by line, from `pygom/model/ode_utils/__init__.py`:
  `integrateFuncJac`, `_integrateOneStep`, `_setupIntegrator`, `_determineIntegratorGivenEigenValue`
and from `pygom/model/deterministic.py` / `simulate.py`:
  `_setIntegrateTime`, `_integrate` (odeint), `_integrate2`, `integrate`, `integrate2`, `solve_determ`.

What is NOT modelled but assumed (an explicit argument `S : Sys T X`):
  * `S.flow t t0 x`  — the state at time `t` of the ODE solution that is `x` at time `t0`
                        (what an ideal `r.integrate(t)` / `odeint` returns);
  * `S.eig t x`      — (max, min) of the eigenvalues of the Jacobian at `(t, x)`
                        (what `np.linalg.eig(jac(t, x))[0]` feeds into `max`/`min`).

A `scipy.integrate.ode` object owns an output buffer.  Some integrators hand out that very buffer as
`r.y` (LSODA in scipy 1.18), others a fresh array.  What the code appends to its `solution` list is
therefore a *cell*: a value, or a reference to buffer `id` whose contents are read only when
`np.array(solution)` is finally built.  `cfg.aliased` says which integrators alias (measured on the real
scipy at run time), `cfg.copyOnRead` says whether the code copies `r.y` (it does: `r.y.copy()`).
-/
namespace Pygom

/-- the scipy integrators `_setupIntegrator` can create -/
inductive Integrator | lsoda | vodeAdams | vodeBdf | dopri5 | dop853
  deriving DecidableEq, Repr

def Integrator.name : Integrator → String
  | .lsoda => "lsoda" | .vodeAdams => "vode" | .vodeBdf => "vode:bdf" | .dopri5 => "dopri5" | .dop853 => "dop853"

/-- `_setupIntegrator`: the `if/elif` chain on the method string; anything else (None included) falls
through to lsoda. -/
def setupIntegrator (method : Option String) : Integrator :=
  if method = some "dopri5" then .dopri5
  else if method = some "dop853" then .dop853
  else if method = some "vode" then .vodeAdams
  else if method = some "ivode" then .vodeBdf
  else if method = some "lsoda" then .lsoda
  else .lsoda

/-- `_determineIntegratorGivenEigenValue(e)` with `maxE = max(e)`, `minE = min(e)` -/
def determineIntegrator (maxE minE : Rat) : String :=
  if 0 ≤ maxE then "lsoda" else if -2 ≤ minE then "dopri5" else "vode"

/-- the assumption object: ideal flow and eigenvalue summary of the Jacobian -/
structure Sys (T X : Type) where
  flow : T → T → X → X
  eig : T → X → Rat × Rat

structure ICfg where
  aliased : Integrator → Bool    -- does `r.y` return the integrator's internal, reused buffer?
  copyOnRead : Bool              -- does `_integrateOneStep` copy `r.y`?
  fullOutput : Bool
  includeOrigin : Bool
  method : Option String

/-- what the code appends to `solution` -/
inductive Cell (X : Type) | val (x : X) | bufRef (id : Nat)

/-- integrator object: current time, identity of its buffer, which integrator it is -/
structure IObj (T : Type) where
  t : T
  id : Nat
  integ : Integrator

/-- loop state of `integrateFuncJac` -/
structure LState (T X : Type) where
  r : IObj T
  store : Nat → X             -- contents of every buffer allocated so far
  cells : List (Cell X)       -- `solution`, most recent first
  nextId : Nat                -- next fresh buffer identity
  method : String             -- the local variable `method` (reported as output['in'])
  trace : List Integrator     -- integrators created, most recent first
  evs : List (Rat × Rat)      -- (maxEigen, minEigen) appended per step, most recent first

variable {T X : Type}

def setBuf (store : Nat → X) (id : Nat) (v : X) : Nat → X := fun j => if j = id then v else store j

def derefCell (store : Nat → X) : Cell X → X
  | .val x => x
  | .bufRef id => store id

/-- `r.y` (followed by `.copy()` when the code copies) -/
def readY (c : ICfg) (r : IObj T) (store : Nat → X) : Cell X :=
  if c.aliased r.integ && !c.copyOnRead then .bufRef r.id else .val (store r.id)

/-- one iteration of `for deltaT in t:` -/
def loopStep (S : Sys T X) (c : ICfg) (s : LState T X) (dt : T) : LState T X :=
  -- r.integrate(deltaT): the integrator advances from (r.t, buffer) and overwrites its buffer
  let y1 := S.flow dt s.r.t (s.store s.r.id)
  let store1 := setBuf s.store s.r.id y1
  let r1 : IObj T := { s.r with t := dt }
  let o1 := readY c r1 store1
  if c.fullOutput then
    -- e = eig(jac(r.t, r.y)); method = _determineIntegratorGivenEigenValue(e)
    -- r = _setupIntegrator(func, jac, o1, deltaT, args, method): a NEW integrator whose
    -- set_initial_value copies the current contents of o1 into a fresh buffer
    let e := S.eig dt y1
    let m := determineIntegrator e.1 e.2
    let integ := setupIntegrator (some m)
    { r := { t := dt, id := s.nextId, integ := integ },
      store := setBuf store1 s.nextId (derefCell store1 o1),
      cells := o1 :: s.cells, nextId := s.nextId + 1, method := m,
      trace := integ :: s.trace, evs := e :: s.evs }
  else
    { s with r := r1, store := store1, cells := o1 :: s.cells }

/-- the method the first integrator is set up with -/
def initialMethod (S : Sys T X) (c : ICfg) (x0 : X) (t0 : T) : String :=
  match c.method with
  | some m => m
  | none => if c.fullOutput then let e := S.eig t0 x0; determineIntegrator e.1 e.2 else "lsoda"

structure IResult (X : Type) where
  rows : List X                 -- np.array(solution)
  method : String               -- output['in']
  trace : List Integrator       -- integrators created, in order
  evs : List (Rat × Rat)        -- output['maxev'], output['minev'] zipped, in order

def initState (S : Sys T X) (c : ICfg) (x0 : X) (t0 : T) : LState T X :=
  let m := initialMethod S c x0 t0
  let integ := setupIntegrator (some m)
  { r := { t := t0, id := 0, integ := integ }, store := fun _ => x0,
    cells := if c.includeOrigin then [.val x0] else [], nextId := 1, method := m,
    trace := [integ], evs := [] }

/-- `integrateFuncJac` for a list of times -/
def integrateFuncJacL (S : Sys T X) (c : ICfg) (x0 : X) (t0 : T) (ts : List T) : IResult X :=
  let s := ts.foldl (loopStep S c) (initState S c x0 t0)
  { rows := s.cells.reverse.map (derefCell s.store), method := s.method, trace := s.trace.reverse,
    evs := s.evs.reverse }

/-- the shapes a time argument can take -/
inductive TimeArg (T : Type) | scalar (t : T) | list (ts : List T) | other

inductive IErr | inputError | arrayError | indexError
  deriving DecidableEq, Repr

def IErr.toString : IErr → String
  | .inputError => "InputError" | .arrayError => "ArrayError" | .indexError => "IndexError"

/-- `integrateFuncJac(func, jac, x0, t0, t, ...)`: scalar `t` is promoted to `[t]` -/
def integrateFuncJac (S : Sys T X) (c : ICfg) (x0 : X) (t0 : T) : TimeArg T → Except IErr (IResult X)
  | .scalar t => .ok (integrateFuncJacL S c x0 t0 [t])
  | .list ts => .ok (integrateFuncJacL S c x0 t0 ts)
  | .other => .error .inputError

/-- `_setIntegrateTime`: `np.append(t0, t)`; `t[0]` on an empty list raises IndexError -/
def setIntegrateTime (t0 : T) : TimeArg T → Except IErr (List T)
  | .list [] => .error .indexError
  | .list ts => .ok (t0 :: ts)
  | .scalar t => .ok [t0, t]
  | .other => .error .arrayError

/-- ideal `scipy.integrate.odeint(f, x0, times)`: first row is `x0`, row i is the solution at `times[i]` -/
def odeintRows (S : Sys T X) (x0 : X) : List T → List X
  | [] => []
  | t0 :: rest => x0 :: rest.map (fun t => S.flow t t0 x0)

/-- `DeterministicOde.integrate(t)` (`_setIntegrateTime` then `_integrate`) -/
def modelIntegrate (S : Sys T X) (x0 : X) (t0 : T) (t : TimeArg T) : Except IErr (List X) :=
  (setIntegrateTime t0 t).map (odeintRows S x0)

/-- `SimulateOde.solve_determ(t)` with non-random parameters: `t is None` is rejected, else `integrate(t)` -/
def solveDeterm (S : Sys T X) (x0 : X) (t0 : T) : Option (TimeArg T) → Except IErr (List X)
  | none => .error .inputError
  | some t => modelIntegrate S x0 t0 t

/-- `DeterministicOde.integrate2(t, full_output, method)`: `_integrate2` always calls
`integrateFuncJac(ode_T, jacobian_T, x0, t[0], t[1::], includeOrigin=True, full_output=True, method=method)` -/
def modelIntegrate2 (S : Sys T X) (aliased : Integrator → Bool) (copyOnRead : Bool) (method : Option String)
    (x0 : X) (t0 : T) (t : TimeArg T) : Except IErr (IResult X) :=
  match setIntegrateTime t0 t with
  | .error e => .error e
  | .ok [] => .error .indexError
  | .ok (t0' :: rest) =>
    .ok (integrateFuncJacL S { aliased := aliased, copyOnRead := copyOnRead, fullOutput := true,
                               includeOrigin := true, method := method } x0 t0' rest)

/-! ### the instance between calls: what the model-level entry points read and write

`DeterministicOde` keeps `_x0`, `_t0` (assigned through `initial_state`, `initial_time`, `initial_values`) and
`_odeTime`, `_odeSolution` (written by every solve).  A session is a list of such operations on one instance;
`runOps` threads the instance through it and collects what the solves return, in order.  `Props/C02.lean`
proves that the outputs are those of the single-call functions above applied to the values assigned last
(`session_is_pure`), whatever `_odeTime` / `_odeSolution` hold. -/

structure Inst (T X : Type) where
  x0 : X
  t0 : T
  odeTime : Option (List T) := none        -- self._odeTime
  odeSolution : Option (List X) := none    -- self._odeSolution

/-- what a caller does to a configured instance, as far as C02 is concerned -/
inductive SOp (T X : Type)
  | setX0 (x : X)                                          -- model.initial_state = x
  | setT0 (t : T)                                          -- model.initial_time = t
  | setBoth (x : X) (t : T)                                -- model.initial_values = (x, t)
  | integrate (t : TimeArg T)                              -- model.integrate(t [, full_output])
  | solveDeterm (t : Option (TimeArg T))                   -- model.solve_determ(t)
  | integrate2 (method : Option String) (t : TimeArg T)    -- model.integrate2(t, full_output, method)

/-- what stays fixed during a session: the flow and the behaviour of the integrators -/
structure SEnv (T X : Type) where
  S : Sys T X
  aliased : Integrator → Bool
  copyOnRead : Bool

/-- `integrate(t)`: `_setIntegrateTime` (raises before anything is stored) then `_integrate` -/
def Inst.integrate (E : SEnv T X) (s : Inst T X) (t : TimeArg T) : Inst T X × Except IErr (List X) :=
  match setIntegrateTime s.t0 t with
  | .error e => (s, .error e)
  | .ok times =>
    let rows := odeintRows E.S s.x0 times
    ({ s with odeTime := some times, odeSolution := some rows }, .ok rows)

/-- one operation: the new instance and what the call returned (nothing for an assignment) -/
def Inst.step (E : SEnv T X) (s : Inst T X) : SOp T X → Inst T X × Option (Except IErr (List X))
  | .setX0 x => ({ s with x0 := x }, none)
  | .setT0 t => ({ s with t0 := t }, none)
  | .setBoth x t => ({ s with x0 := x, t0 := t }, none)
  | .integrate t => let r := s.integrate E t; (r.1, some r.2)
  | .solveDeterm none => (s, some (.error .inputError))
  | .solveDeterm (some t) => let r := s.integrate E t; (r.1, some r.2)
  | .integrate2 m t =>
    match setIntegrateTime s.t0 t with
    | .error e => (s, some (.error e))
    | .ok times =>
      match modelIntegrate2 E.S E.aliased E.copyOnRead m s.x0 s.t0 t with
      | .error e => ({ s with odeTime := some times }, some (.error e))
      | .ok r => ({ s with odeTime := some times, odeSolution := some r.rows }, some (.ok r.rows))

/-- a session: the final instance and everything the solves returned, in order -/
def runOps (E : SEnv T X) : Inst T X → List (SOp T X) → Inst T X × List (Except IErr (List X))
  | s, [] => (s, [])
  | s, op :: ops =>
    let r := s.step E op
    let rest := runOps E r.1 ops
    (rest.1, r.2.toList ++ rest.2)

/-- the values assigned last -/
def SOp.assign (cur : X × T) : SOp T X → X × T
  | .setX0 x => (x, cur.2)
  | .setT0 t => (cur.1, t)
  | .setBoth x t => (x, t)
  | _ => cur

/-- what a solve returns as a function of its own arguments and the values assigned last -/
def SOp.out (E : SEnv T X) (cur : X × T) : SOp T X → Option (Except IErr (List X))
  | .integrate t => some (modelIntegrate E.S cur.1 cur.2 t)
  | .solveDeterm t => some (Pygom.solveDeterm E.S cur.1 cur.2 t)
  | .integrate2 m t => some ((modelIntegrate2 E.S E.aliased E.copyOnRead m cur.1 cur.2 t).map (·.rows))
  | _ => none

/-- the session as it should be: every solve is the single-call function of the values assigned last -/
def pureOutputs (E : SEnv T X) : X × T → List (SOp T X) → List (Except IErr (List X))
  | _, [] => []
  | cur, op :: ops => (op.out E cur).toList ++ pureOutputs E (op.assign cur) ops

/-! ### executable instance: exact flow of `x' = c` on rationals -/

/-- `x + c·(t − t0)` componentwise (components of `x` beyond `c` do not move) -/
def linFlow : List Rat → Rat → Rat → List Rat → List Rat
  | _, _, _, [] => []
  | [], _, _, x => x
  | c :: cs, t, t0, x :: xs => (x + c * (t - t0)) :: linFlow cs t t0 xs

/-- eigenvalue summary of the controlled Jacobian `diag(a0 + a1 t + a2 x[0], b0 + b1 t + b2 x[0])` -/
def linEig (a b : Rat × Rat × Rat) (t : Rat) (x : List Rat) : Rat × Rat :=
  let x0 := x.headD 0
  let e1 := a.1 + a.2.1 * t + a.2.2 * x0
  let e2 := b.1 + b.2.1 * t + b.2.2 * x0
  (if e1 ≤ e2 then e2 else e1, if e1 ≤ e2 then e1 else e2)

def linSys (c : List Rat) (a b : Rat × Rat × Rat) : Sys Rat (List Rat) :=
  { flow := linFlow c, eig := linEig a b }

end Pygom
