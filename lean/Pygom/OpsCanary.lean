/-
Driver op `canary`: run a history of mutators / parameter assignments / evaluations through the
recompile-flag state machine of `Pygom/Canary.lean`.

request   {"op":"canary", "cfg":"source"|"as_found" (default source),
           "model": <same spec as `assemble`>,
           "history":[ <mutator in the `then` format> | {"op":"set_params","values":["1/2",...]?}
                       | {"op":"evaluate","name":"ode" | an alias such as "jacobian_T" (reported under its target's name)} ...]}
response  {"stage":"build","err":e}  when the initial definition is rejected, else
          {"steps":[ {"kind":"mutate","ok":b,"ver":k}
                   | {"kind":"set_params","sp":[..]}
                   | {"kind":"evaluate","name":n,"def_ver":v,"def_at":i,"sp":[..],"recompiled":b,
                      "cur_ver":k,"nvals":len(_paramValue),"fresh":b,"flags":{name:bool}} ...],
           "versions":k, "final_sp":[..]}
`def_ver` = number of successful mutator calls the snapshot's definition includes, `def_at` = index in the
history of the last of them (-1: the initial definition).

Driver op `canary2`: TWO live instances (`Canary.pstep`), every history entry carries `"inst": 0|1`.
request   {"op":"canary2", "cfg":..., "shared": bool (default: `Canary.sourceShared`), "model": specA, "model_b": specB,
           "history":[ {..., "inst":0|1} ...]}
response  {"steps":[ the same objects as `canary` (without `def_at`), each with "inst" ]}
-/
import Pygom.Canary
import Pygom.Ops

namespace Pygom
open Lean (Json)
open Canary

def canaryOpOfJson (j : Json) : Except String Op := do
  match (← (fld j "op").getStr?) with
  | "set_params" =>
    let vals ← if (fld j "values").isNull then pure [] else listOfJson ratOfJson (fld j "values")
    pure (.setParams vals)
  | "evaluate" =>
    let nm ← (fld j "name").getStr?
    match Ev.ofName? nm with
    | some e => pure (.evaluate e [] 0)
    | none =>
      -- a public alias (`ode_T`, `jacobian_T`, ..., `total_transition`): as the source writes them an alias is the
      -- evaluation of its target (`AOp.lower`; `Pygom.C08.alias_method_eq_primary`, `arun_lower`)
      match Alias.ofName? nm with
      | some a => pure (AOp.lower (.alias a [] 0))
      | none => .error s!"unknown evaluator {nm}"
  | _ => do pure (.mutate (← mutOfJson j))

def flagsToJson (s : CState) : Json := Json.mkObj (Ev.all.map (fun e => (e.name, Json.bool (s.flag e))))

/-- history index of the mutator that produced version `v` (`idx` lists them newest first) -/
def verIndex (idx : List Nat) (v : Nat) : Int :=
  if v == 0 then -1 else ((idx.reverse[v - 1]?).map Int.ofNat).getD (-2)

def canaryLoop (cfg : Cfg) : CState → List Op → Nat → List Nat → List Json → List Json
  | _, [], _, _, acc => acc.reverse
  | s, op :: ops, i, idx, acc =>
    match op with
    | .mutate m =>
      let r := mutate cfg s m
      let idx' := if r.2 then i :: idx else idx
      canaryLoop cfg r.1 ops (i + 1) idx'
        (Json.mkObj [("kind", "mutate"), ("ok", Json.bool r.2), ("ver", (r.1.ver : Nat))] :: acc)
    | .setParams vals =>
      let s' := setParams s vals
      canaryLoop cfg s' ops (i + 1) idx
        (Json.mkObj [("kind", "set_params"), ("sp", strsToJson s'.sp)] :: acc)
    | .evaluate e _ _ =>
      let r := evalStep cfg s e
      let sn := r.2.1
      let fresh := sn.ver == s.ver && sn.sp == freshSp s.cur
      canaryLoop cfg r.1 ops (i + 1) idx
        (Json.mkObj [("kind", "evaluate"), ("name", e.name), ("def_ver", (sn.ver : Nat)),
                     ("def_at", Json.num (Lean.JsonNumber.fromInt (verIndex idx sn.ver))),
                     ("sp", strsToJson sn.sp), ("recompiled", Json.bool r.2.2), ("cur_ver", (s.ver : Nat)), ("nvals", (s.pvals.length : Nat)),
                     ("fresh", Json.bool fresh), ("flags", flagsToJson r.1)] :: acc)

def opCanary (j : Json) : Except String Json := do
  let spec ← specOfJson (fld j "model")
  let cfg := if (fld j "cfg").getStr?.toOption.getD "source" == "as_found" then asFoundCfg else sourceCfg
  let ops ← listOfJson canaryOpOfJson (fld j "history")
  match buildModel spec with
  | .error e => pure (Json.mkObj [("stage", "build"), ("err", e.toString)])
  | .ok m =>
    let s0 := cinit cfg m (List.replicate m.params.length 0)
    let steps := canaryLoop cfg s0 ops 0 [] []
    let sN := runState cfg s0 ops
    pure (Json.mkObj [("steps", Json.arr steps.toArray), ("versions", (sN.ver : Nat)), ("final_sp", strsToJson sN.sp)])

def whoOfJson (j : Json) : Who :=
  match (fld j "inst").getNat?.toOption.getD 0 with
  | 0 => .A
  | _ => .B

def whoToNat : Who → Nat
  | .A => 0
  | .B => 1

/-- runs `Canary.pstep` itself (the function the two-instance theorems of Props/C08.lean are about) -/
def canary2Loop (cfg : Cfg) (shared : Bool) : PState → List (Who × Op) → List Json → List Json
  | _, [], acc => acc.reverse
  | p, (w, op) :: ops, acc =>
    let r := pstep cfg shared p (w, op)
    let s := p.get w
    let s' := r.1.get w
    let inst : Json := (whoToNat w : Nat)
    let js : Json :=
      match op, r.2 with
      | .mutate _, _ =>
        Json.mkObj [("inst", inst), ("kind", "mutate"), ("ok", Json.bool (s'.ver != s.ver)), ("ver", (s'.ver : Nat))]
      | .setParams _, _ =>
        Json.mkObj [("inst", inst), ("kind", "set_params"), ("sp", strsToJson s'.sp)]
      | .evaluate e _ _, some o =>
        Json.mkObj [("inst", inst), ("kind", "evaluate"), ("name", e.name), ("def_ver", (o.used.ver : Nat)),
                     ("sp", strsToJson o.used.sp), ("recompiled", Json.bool o.recompiled), ("cur_ver", (o.curVer : Nat)),
                     ("nvals", (o.pvals.length : Nat)),
                     ("fresh", Json.bool (o.used.ver == o.curVer && o.used.sp == freshSp o.cur)), ("flags", flagsToJson s')]
      | .evaluate e _ _, none => Json.mkObj [("inst", inst), ("kind", "evaluate"), ("name", e.name), ("err", "no observation")]
    canary2Loop cfg shared r.1 ops (js :: acc)

def opCanary2 (j : Json) : Except String Json := do
  let specA ← specOfJson (fld j "model")
  let specB ← specOfJson (fld j "model_b")
  let cfg := if (fld j "cfg").getStr?.toOption.getD "source" == "as_found" then asFoundCfg else sourceCfg
  let shared := (fld j "shared").getBool?.toOption.getD sourceShared
  let hist ← (fld j "history").getArr?
  let ops ← hist.toList.mapM (fun h => do pure (whoOfJson h, ← canaryOpOfJson h))
  match buildModel specA, buildModel specB with
  | .error e, _ => pure (Json.mkObj [("stage", "build"), ("err", e.toString)])
  | _, .error e => pure (Json.mkObj [("stage", "build_b"), ("err", e.toString)])
  | .ok mA, .ok mB =>
    let p0 := pinit cfg mA (List.replicate mA.params.length 0) mB (List.replicate mB.params.length 0)
    pure (Json.mkObj [("steps", Json.arr (canary2Loop cfg shared p0 ops []).toArray)])

def handleCanary (op : String) (j : Json) : Option (Except String Json) :=
  match op with
  | "canary" => some (opCanary j)
  | "canary2" => some (opCanary2 j)
  | _ => none

end Pygom
