/-
Seeded simulation (C16): every stochastic entry point of pygom as a function

    run : Stream → Output × Stream

threading ONE explicit stream.  The stream is the state `σ` of an arbitrary generator `g : Gen σ`
(numpy's global `RandomState` after `np.random.seed(s)` is one such state); the ONLY access the model has
to randomness is `g.next state request`, which serves one request and returns the next state.  There is no
other argument a variate could come from: "all draws go through the one (global, seeded) generator".

Mirrored from the code:

* `rexp(1, r)` = `np.random.exponential(scale=1.0/r, size=1)[0]`, `rpois(1, m)` = `np.random.poisson(m, size=1)[0]`
  (utilR/distn.py, `seed=None`: the serial path never passes a seed);
* `_newJumpTimes`: one exponential per POSITIVE rate, in event order; `tauLeap`: one Poisson per event, in event
  order, mean `tau*rate`; both return before drawing when every rate is zero (stochastic_simulation.py);
* `SimulateOde._jump`: `self.parameters = self._stochasticParam` first when the parameters are stochastic (one draw per
  distribution-valued entry of the dict, in dict order), then the `while t < finalT` loop; a rejected tau-leap is
  retried by first reaction from the same `(x, t)` with fresh exponentials (simulate.py);
* `solve_stochast(t, n, parallel=False)`: `[self._jump(finalT, …) for _i in range(iteration)]`  (simulate.py);
* `integrate(t)`: redraw when `_stochasticParam is not None`, then `_integrate`  (deterministic.py);
* `simulate_param` / `solve_determ`: `self._odeSolution = self.integrate(t)` BEFORE the loop (one extra set of draws),
  then `[self.integrate(t) for i in range(iteration)]`, `Y = np.dstack(solutionList).mean(axis=2)`,
  returns `(Y, solutionList)`  (simulate.py);
* the `parameters` setter with a dict: starts from a copy of the current map, walks the dict in order, stores
  numbers, samples `value.rvs(1)[0]` / `value[0](1, *value[1])` for distributions  (base_ode_model.py).

The step functions, limits, tau selection and the loop body are those of `Pygom/Stoch.lean` (C04): one loop
iteration here is `Stoch.iter` applied to the variates served by the generator.  The integrator is an argument
(`solve`, C02).  Every function also returns the list of requests it made (`reqs`): this is what a recorder wrapped
around numpy sees, and what the harness compares with the real run.

No Mathlib import (linked into the driver).
-/
import Pygom.Stoch

namespace Pygom.Seed
open Pygom.Stoch

/-! ### generator -/

/-- what is asked of the generator: kind and parameter -/
inductive Req
  | expo (scale : Rat)     -- `np.random.exponential(scale=1.0/rate, size=1)`
  | pois (mean : Rat)      -- `np.random.poisson(tau*rate, size=1)`
  | param (k : Nat)        -- the sampler of parameter `k` (frozen distribution `.rvs(1)` or `sampler(1, *args)`)
deriving Repr, BEq, DecidableEq, Inhabited

/-- a generator over states `σ`.  `next s r` serves request `r` in state `s`: the variate and the state after.
(How much of the underlying bit stream a request consumes may depend on the request: numpy's Poisson sampler
uses a variable number of uniforms.)  A Poisson count is the served value read through `natOf`. -/
structure Gen (σ : Type) where
  next : σ → Req → Rat × σ

/-- serve a list of requests in order -/
def serve {σ : Type} (g : Gen σ) : List Req → σ → List Rat × σ
  | [], s => ([], s)
  | r :: rs, s => ((g.next s r).1 :: (serve g rs (g.next s r).2).1, (serve g rs (g.next s r).2).2)

/-- the integer a Poisson request returns -/
def natOf (v : Rat) : Nat := v.floor.toNat

/-- a recorded stream replayed: the state is the list of variates still to come; every request takes the head.
(`0` once the list is exhausted - the driver reports how many were left / missing.) -/
def listGen : Gen (List Rat) where
  next := fun s _ => (s.headD 0, s.tail)

/-! ### one loop iteration of `_jump` -/

/-- requests of `_newJumpTimes(rates)`: `rexp(1, r)` for every `r > 0`, in order -/
def expoReqs (rates : List Rat) : List Req :=
  (rates.filter (fun r => decide (0 < r))).map (fun r => Req.expo (1 / r))

/-- requests of the `for i, r in enumerate(rates): rpois(1, tau_scale*r)` loop of `tauLeap` -/
def poisReqs (tau : Rat) (rates : List Rat) : List Req := rates.map (fun r => Req.pois (tau * r))

/-- `tauLeap` went through `_checkJump` and the proposal left the limits: `_jump` retries by first reaction -/
def tauRejected (s : Settings) (e : Eval) (x : Vec) (t : Rat) (pois : List Nat) : Bool :=
  match tauLeap s e x t pois with
  | .checked r => !r.success
  | _ => false

/-- first batch of requests of an iteration.  Both step functions return before drawing when every rate is zero;
`tauLeap` returns before drawing when the safety loop gives up. -/
def reqs1 (s : Settings) (e : Eval) (exact : Bool) (x : Vec) : List Req :=
  if allZero e.rates then [] else
  if exact then expoReqs e.rates else
  match tauOf s e x with
  | none => []
  | some tau => poisReqs tau e.rates

/-- second batch: the exponentials of the first-reaction retry, requested only when the tau-leap made with the
Poisson variates `vals1` was rejected -/
def reqs2 (s : Settings) (e : Eval) (exact : Bool) (x : Vec) (t : Rat) (vals1 : List Rat) : List Req :=
  if allZero e.rates || exact then [] else
  if tauRejected s e x t (vals1.map natOf) then expoReqs e.rates else []

/-- the random input `Stoch.iter` receives, from the served variates -/
def iterIn (exact : Bool) (vals1 vals2 : List Rat) : IterIn :=
  if exact then ⟨[], vals1⟩ else ⟨vals1.map natOf, vals2⟩

structure StepOut where
  out : IterOut
  reqs : List Req
  used : IterIn
deriving Inhabited

/-- one iteration of the `while t < finalT` loop, drawing from the stream -/
def stepS {σ : Type} (g : Gen σ) (s : Settings) (e : Eval) (exact : Bool) (x : Vec) (t : Rat) (st : σ) : StepOut × σ :=
  let a := serve g (reqs1 s e exact x) st
  let b := serve g (reqs2 s e exact x t a.1) a.2
  (⟨iter s e exact x t (iterIn exact a.1 b.1), reqs1 s e exact x ++ reqs2 s e exact x t a.1, iterIn exact a.1 b.1⟩, b.2)

/-! ### the `_jump` loop -/

structure JumpOut where
  recs : List Rec          -- records appended after the initial `(x0, t0)`
  reqs : List Req          -- every request made, in order
  inputs : List IterIn     -- per iteration, the variates handed to `Stoch.iter`
  exit : Exit
deriving Inhabited

/-- `while t < finalT: …` with at most `fuel` iterations (`fuel` is an artefact of the model: termination is a
probability-one statement, see C04 `path_exit_partial`; every theorem holds for every `fuel`) -/
def jumpS {σ : Type} (g : Gen σ) (c : Cfg) (exact : Bool) : Nat → Vec → Rat → σ → JumpOut × σ
  | 0, _, t, st => (⟨[], [], [], if t < c.finalT then .inputEnded else .horizon⟩, st)
  | fuel + 1, x, t, st =>
    if t < c.finalT then
      let a := stepS g c.set (c.ev x t) exact x t st
      match a.1.out with
      | .stop w => (⟨[], a.1.reqs, [a.1.used], .stop w⟩, a.2)
      | .next r =>
        let b := jumpS g c exact fuel r.x r.t a.2
        (⟨r :: b.1.recs, a.1.reqs ++ b.1.reqs, a.1.used :: b.1.inputs, b.1.exit⟩, b.2)
    else (⟨[], [], [], .horizon⟩, st)

/-! ### stochastic parameters: the `parameters` setter -/

/-- value of one entry of the dict handed to the setter -/
inductive PEntry
  | fixed (v : Rat)        -- a number
  | random                 -- a frozen scipy distribution or a `(sampler, args)` tuple
deriving Repr, BEq, DecidableEq, Inhabited

/-- the dict, in its own (insertion) order: `(index of the parameter in param_list, entry)` -/
abbrev PSpec := List (Nat × PEntry)

/-- requests of one pass of the setter: one per distribution-valued entry, in dict order -/
def paramReqs : PSpec → List Req
  | [] => []
  | (_, .fixed _) :: es => paramReqs es
  | (i, .random) :: es => Req.param i :: paramReqs es

/-- the parameter vector after the setter: starts from the current values, walks the dict, stores numbers and the
sampled values (`vs`: the variates served for `paramReqs spec`, in order) -/
def assign : PSpec → List Rat → List Rat → List Rat
  | [], _, cur => cur
  | (i, .fixed v) :: es, vs, cur => assign es vs (cur.set i v)
  | (i, .random) :: es, vs, cur => assign es vs.tail (cur.set i (vs.headD 0))   -- `serve` returns one variate per request

/-- `self.parameters = self._stochasticParam` -/
def redraw {σ : Type} (g : Gen σ) (spec : PSpec) (cur : List Rat) (st : σ) : List Rat × σ :=
  (assign spec (serve g (paramReqs spec) st).1 cur, (serve g (paramReqs spec) st).2)

/-! ### `solve_stochast` (serial) -/

/-- the mutable part of the Python world a run can see and change: the model's current parameter values
(`_paramValue`) and the generator state -/
abbrev World (σ : Type) := List Rat × σ

structure JumpModel where
  spec : Option PSpec          -- `_stochasticParam` when it is a dict, else `none`
  cfg : List Rat → Cfg         -- evaluators / limits / horizon for given parameter values
  exact : Bool
  x0 : Vec
  t0 : Rat
  fuel : Nat
deriving Inhabited

/-- one `_jump(finalT)`: redraw the stochastic parameters (if any), then run the loop from `(x0, t0)` -/
def jumpOnce {σ : Type} (g : Gen σ) (m : JumpModel) (w : World σ) : JumpOut × World σ :=
  match m.spec with
  | none =>
    ((jumpS g (m.cfg w.1) m.exact m.fuel m.x0 m.t0 w.2).1, (w.1, (jumpS g (m.cfg w.1) m.exact m.fuel m.x0 m.t0 w.2).2))
  | some spec =>
    let p := redraw g spec w.1 w.2
    let j := jumpS g (m.cfg p.1) m.exact m.fuel m.x0 m.t0 p.2
    ({ j.1 with reqs := paramReqs spec ++ j.1.reqs }, (p.1, j.2))

/-- a call repeated `n` times, each started in the world the previous one left -/
def runMany {ω α : Type} (run : ω → α × ω) : Nat → ω → List α × ω
  | 0, w => ([], w)
  | n + 1, w => ((run w).1 :: (runMany run n (run w).2).1, (runMany run n (run w).2).2)

/-- the world after `k` calls -/
def after {ω α : Type} (run : ω → α × ω) : Nat → ω → ω
  | 0, w => w
  | k + 1, w => after run k (run w).2

/-- `solve_stochast(t, n, parallel=False, full_output=True)` with a scalar horizon: the `n` raw paths.
(With a grid the returned rows / interval counts are `extractObservationAtTime` / `addJumpsBetweenTime` of each raw
path - functions of the path alone, C15.) -/
def solveStochast {σ : Type} (g : Gen σ) (m : JumpModel) (n : Nat) (w : World σ) : List JumpOut × World σ :=
  runMany (jumpOnce g m) n w

/-! ### `simulate_param` / `solve_determ` with stochastic parameters -/

/-- a solution array: one row per requested time, one entry per state -/
abbrev Sol := List (List Rat)

structure ParamModel where
  spec : PSpec                 -- `_stochasticParam`
  solve : List Rat → Sol       -- `_integrate(self._odeTime)` for given parameter values (the integrator: C02)
deriving Inhabited

structure IntOut where
  sol : Sol
  reqs : List Req
  params : List Rat            -- the parameter values the solution was computed with
deriving Inhabited

/-- `integrate(t)` of a model with stochastic parameters: redraw, then integrate -/
def integrateS {σ : Type} (g : Gen σ) (m : ParamModel) (w : World σ) : IntOut × World σ :=
  let p := redraw g m.spec w.1 w.2
  (⟨m.solve p.1, paramReqs m.spec, p.1⟩, p)

def entry (s : Sol) (i j : Nat) : Rat := (s.getD i []).getD j 0

/-- `np.dstack(solutionList).mean(axis=2)`: shape of the first solution, entry `(i, j)` = sum over the list / length -/
def meanSol (l : List Sol) : Sol :=
  let rows := (l.headD []).length
  let cols := ((l.headD []).headD []).length
  (List.range rows).map (fun i => (List.range cols).map (fun j => (l.map (fun s => entry s i j)).sum / (l.length : Rat)))

structure ParamOut where
  Y : Sol                      -- the reported mean trajectory
  Yall : List Sol              -- `solutionList`
  pre : Sol                    -- `self._odeSolution` (the integration made before the loop)
  reqs : List Req
  runs : List IntOut
deriving Inhabited

/-- `simulate_param(t, n, parallel=False, full_output=True)`; also `solve_determ(t, n, …)` when the parameters are
stochastic -/
def simulateParam {σ : Type} (g : Gen σ) (m : ParamModel) (n : Nat) (w : World σ) : ParamOut × World σ :=
  let pre := integrateS g m w                                  -- self._odeSolution = self.integrate(t)
  let many := runMany (integrateS g m) n pre.2                 -- [self.integrate(t) for i in range(iteration)]
  (⟨meanSol (many.1.map (·.sol)), many.1.map (·.sol), pre.1.sol, pre.1.reqs ++ many.1.flatMap (·.reqs), many.1⟩, many.2)

/-- `solve_determ(t, iteration)`: one plain integration when `_stochasticParam is None` (no request), else
`simulateParam` -/
def solveDeterm {σ : Type} (g : Gen σ) (spec : Option PSpec) (solve : List Rat → Sol) (n : Nat) (w : World σ) :
    (Sol ⊕ ParamOut) × World σ :=
  match spec with
  | none => (.inl (solve w.1), w)
  | some sp => ((.inr (simulateParam g ⟨sp, solve⟩ n w).1), (simulateParam g ⟨sp, solve⟩ n w).2)

/-! ### the model OBJECT across calls: what the `parameters` setter records

`_stochasticParam` is part of the object, not of a call: the setter decides what it holds, every entry point reads it.
Mirrored from `BaseOdeModel.parameters` (base_ode_model.py, after fix cc23e1d):

* a dict with at least one distribution-valued entry: the entries are walked in order (numbers stored, distributions
  sampled) and THE DICT becomes the record, whatever was recorded before;
* a dict of plain numbers: the numbers are stored; the names given drop out of the record, and when no distribution is
  left in it the record is cleared (a record of `None` stays `None`);
* any other accepted form (list / array of numbers, list of `(name, number)` pairs): numbers for ALL parameters, the record
  is cleared;
* the redraw `self.parameters = self._stochasticParam` hands the recorded dict itself over: the record is left alone. -/

/-- what the setter is handed -/
inductive Assign
  | dict (d : PSpec)        -- a dict, in its own (insertion) order
  | all (vs : List Rat)     -- numbers for all parameters, in `param_list` order
deriving Repr, Inhabited

def PEntry.isRandom : PEntry → Bool
  | .random => true
  | .fixed _ => false

def hasRandom (d : PSpec) : Bool := d.any (fun e => e.2.isRandom)

/-- the record after a dict `d` of plain numbers -/
def clearRecord (rec : Option PSpec) (d : PSpec) : Option PSpec :=
  match rec with
  | none => none
  | some r =>
    let left := r.filter (fun e => !((d.map Prod.fst).contains e.1))
    if hasRandom left then some left else none

/-- the part of the model object the stochastic entry points read and write: `_paramValue` and `_stochasticParam` -/
structure Obj where
  cur : List Rat
  record : Option PSpec
deriving Repr, Inhabited

/-- `model.parameters = …` -/
def setParams {σ : Type} (g : Gen σ) (a : Assign) (o : Obj) (st : σ) : Obj × σ :=
  match a with
  | .all vs => (⟨vs, none⟩, st)
  | .dict d =>
    if hasRandom d then (⟨(redraw g d o.cur st).1, some d⟩, (redraw g d o.cur st).2)
    else (⟨assign d [] o.cur, clearRecord o.record d⟩, st)

/-- a sequence of assignments -/
def setMany {σ : Type} (g : Gen σ) : List Assign → Obj → σ → Obj × σ
  | [], o, st => (o, st)
  | a :: as, o, st => setMany g as (setParams g a o st).1 (setParams g a o st).2

/-- one `_jump` of the object: the record in force decides whether parameters are redrawn -/
def jumpObj {σ : Type} (g : Gen σ) (m : JumpModel) (o : Obj) (st : σ) : JumpOut × (Obj × σ) :=
  let r := jumpOnce g { m with spec := o.record } (o.cur, st)
  (r.1, (⟨r.2.1, o.record⟩, r.2.2))

/-- `integrate(t)` of the object: a redraw when a record is in force, else a plain integration -/
def integrateObj {σ : Type} (g : Gen σ) (solve : List Rat → Sol) (o : Obj) (st : σ) : IntOut × (Obj × σ) :=
  match o.record with
  | none => (⟨solve o.cur, [], o.cur⟩, (o, st))
  | some sp =>
    let r := integrateS g ⟨sp, solve⟩ (o.cur, st)
    (r.1, (⟨r.2.1, some sp⟩, r.2.2))

/-- the setter as it was before fix cc23e1d: the record is only ever replaced by a dict with distributions, never
cleared (kept for `stale_record_redraws_counterexample`) -/
def setParamsLegacy {σ : Type} (g : Gen σ) (a : Assign) (o : Obj) (st : σ) : Obj × σ :=
  match a with
  | .all vs => (⟨vs, o.record⟩, st)
  | .dict d =>
    if hasRandom d then (⟨(redraw g d o.cur st).1, some d⟩, (redraw g d o.cur st).2)
    else (⟨assign d [] o.cur, o.record⟩, st)

/-! ### a second, foreign source (what the property excludes) -/

/-- a generator that serves the requests selected by `foreign` from a SECOND state `τ` (an unseeded `RandomState()`,
`default_rng()`, the `random` module) and the others from the primary one -/
def route {σ τ : Type} (g : Gen σ) (h : Gen τ) (foreign : Req → Bool) : Gen (σ × τ) where
  next := fun w r =>
    if foreign r then ((h.next w.2 r).1, (w.1, (h.next w.2 r).2))
    else ((g.next w.1 r).1, ((g.next w.1 r).2, w.2))

def Req.isExpo : Req → Bool
  | .expo _ => true
  | _ => false

end Pygom.Seed
