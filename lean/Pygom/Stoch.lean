/-
Stochastic simulation of pygom as pure functions of explicit draw lists (DESIGN.md 4.3), mirrored
from the code line by line:

* `_newJumpTimes`, `firstReaction`, `_updateStateWithJump`, `_checkJump`,
  `_get_adaptive_tau_step`, `tauLeap`                     (stochastic_simulation.py)
* `_cy_test_tau_leap_safety`                             (_tau_leap.pyx)
* `SimulateOde._jump`, `solve_stochast` (time argument), `_extractObservationAtTime`,
  `_addJumpsBetweenTime`                                 (simulate.py)
* `_add_list_attr_with_limits` (limit list)               (base_ode_model.py)
* `numpy.histogram(a, bins=edges, weights=w)`             (numpy's bin convention)

Arithmetic is exact (`Rat`, `Int`, `Nat`); randomness is an argument: every stochastic function
receives the variates it would have drawn.  No Mathlib import (linked into the driver).

Two places follow the *repaired* code (proposed_fixes/C15-*.diff, C11-*.diff); the behaviour of the
tree before the repair is kept next to them under the names `…Legacy` and is what the
counterexample theorems of Props/C11.lean and Props/C15.lean are about:
  `stateLims` / `stateLimsLegacy`,   `addJumpsBetweenTime` / `addJumpsBetweenTimeLegacy`.
-/
import Pygom.Model

namespace Pygom.Stoch

abbrev Vec := List Rat
/-- one entry of `_state_lims`: `(lower, upper)`, `none` = Python `None` -/
abbrev Lim := Option Int × Option Int

/-! ### limits: `_checkJump` -/

/-- the body of the `for i, x_lim in enumerate(x_lims)` loop for one pair `(x_lim, x_new[i])`:
`true` when this component sets `failed_jump` -/
def violates (l : Lim) (v : Rat) : Bool :=
  match l with
  | (none, none) => false                                             -- `if x_lim != (None, None)`
  | (none, some hi) => decide ((hi : Rat) < v)                        -- `x_new[i] > x_max`
  | (some lo, none) => decide (v < (lo : Rat))                        -- `x_new[i] < x_min`
  | (some lo, some hi) => decide (v < (lo : Rat)) || decide ((hi : Rat) < v)

/-- `failed_jump` after the loop.  The loop enumerates `x_lims` and indexes `x_new[i]`: states beyond
the length of the limit list are not looked at. -/
def failedJump : List Lim → Vec → Bool
  | l :: ls, v :: vs => violates l v || failedJump ls vs
  | _, _ => false

/-- the 5-tuple `(t_new, jump_time, x_new, jumps, success)` returned by `_checkJump` -/
structure StepRes where
  t : Rat
  dt : Rat
  x : Vec
  counts : List Nat
  success : Bool
deriving Repr, BEq, Inhabited

def checkJump (x xNew : Vec) (lims : List Lim) (t dt : Rat) (counts : List Nat) : StepRes :=
  if failedJump lims xNew then ⟨t, dt, x, counts, false⟩
  else ⟨t + dt, dt, xNew, counts, true⟩

/-! ### vectors -/

/-- `x + y` for a state vector `x`; keeps the length of `x` (arrays of different shapes are an
error in numpy and never occur: every column of `vMat` has one entry per state) -/
def vadd : Vec → Vec → Vec
  | [], _ => []
  | a :: x, [] => a :: x
  | a :: x, b :: y => (a + b) :: vadd x y

def vscale (v : Vec) (n : Rat) : Vec := v.map (· * n)

/-- `_updateStateWithJump(x, k, changes, n)` = `x + changes[:, k]*n` -/
def updateStateWithJump (x : Vec) (cols : List Vec) (k : Nat) (n : Rat) : Vec :=
  vadd x (vscale (cols.getD k []) n)

/-! ### first reaction -/

/-- `_newJumpTimes`: `[rexp(1, r) if r > 0 else np.inf for r in rates]`.  The exponential variates
are consumed from `draws` in order (one per positive rate); `none` = `np.inf`.  Result `none` when
the supplied draw list is too short. -/
def newJumpTimes : List Rat → List Rat → Option (List (Option Rat))
  | [], _ => some []
  | r :: rs, ds =>
    if 0 < r then
      match ds with
      | [] => none
      | d :: ds' => (newJumpTimes rs ds').map (fun ts => some d :: ts)
    else (newJumpTimes rs ds).map (fun ts => none :: ts)

/-- number of variates `_newJumpTimes` draws -/
def nPositive (rates : List Rat) : Nat := rates.countP (fun r => decide (0 < r))

/-- `np.argmin` on an array with `np.inf` entries: first index of the minimum and its value;
`none` when every entry is `np.inf` (or the array is empty) -/
def argminOpt : List (Option Rat) → Option (Nat × Rat)
  | [] => none
  | (t :: ts) =>
    match argminOpt ts, t with
    | none, none => none
    | none, some a => some (0, a)
    | some (i, b), none => some (i+1, b)
    | some (i, b), some a => if a ≤ b then some (0, a) else some (i+1, b)

/-- `jumps=[0]*len(rates); jumps[min_index]=1` -/
def onehot (n k : Nat) : List Nat := (List.replicate n 0).set k 1

def allZero (rates : List Rat) : Bool := rates.all (fun r => decide (r = 0))

/-- what a step function hands back to `_jump` -/
inductive Outcome
  | zeroRates                 -- `return 0, 0, 0, 0, False`  (all rates are zero)
  | noFiniteTime              -- `return x, t, False` : a 3-tuple, the caller's unpacking raises
  | notSafe                   -- `return x, t, False` after the safety loop gave up (3-tuple, raises)
  | starved                   -- the supplied draw list is too short (artefact of the model only)
  | checked (r : StepRes)     -- went through `_checkJump`
deriving Repr, BEq, Inhabited

/-- `firstReaction(x, x_lims, t, vMat, eventRateVector)`, given the evaluated `changes = vMat(x,t)`
(list of columns) and `rates = eventRateVector(x,t)` -/
def firstReaction (cols : List Vec) (rates : List Rat) (lims : List Lim) (x : Vec) (t : Rat)
    (expo : List Rat) : Outcome :=
  if allZero rates then .zeroRates else
  match newJumpTimes rates expo with
  | none => .starved
  | some jt =>
    match argminOpt jt with
    | none => .noFiniteTime
    | some (k, dt) =>
      .checked (checkJump x (updateStateWithJump x cols k 1) lims t dt (onehot rates.length k))

/-! ### tau leap -/

def rabs (q : Rat) : Rat := if q < 0 then -q else q

/-- Python's `min` over a non-empty sequence (the empty case is unreachable: guarded by `.size`) -/
def minList : List Rat → Rat
  | [] => 0
  | a :: as => as.foldl (fun m b => if b < m then b else m) a

/-- `_get_adaptive_tau_step` given `rates`, `mu = transitionMean(x,t)`, `sigma2 = transitionVar(x,t)` -/
def adaptiveTau (eps : Rat) (rates mu sigma2 : List Rat) : Rat :=
  let mu' := mu.filter (fun m => decide (m ≠ 0))
  let s2' := sigma2.filter (fun s => decide (s ≠ 0))
  if mu'.isEmpty && s2'.isEmpty then 1 else
  let bound := eps * rates.sum
  if mu'.isEmpty then minList (s2'.map (fun s => bound * bound / s))
  else if s2'.isEmpty then minList (mu'.map (fun m => bound / rabs m))
  else
    let a := minList (mu'.map (fun m => bound / rabs m))
    let b := minList (s2'.map (fun s => bound * bound / s))
    if b < a then b else a

/-- `loss_mat=reactant_mat.copy(); loss_mat[loss_mat==1]=0; loss_mat[loss_mat==-1]=1`
(one inner list per event, one entry per state) -/
def lossMat (react : List (List Int)) : List (List Int) :=
  react.map (fun col => col.map (fun v =>
    let v1 := if v = 1 then 0 else v
    if v1 = -1 then 1 else v1))

/-- one pass of the double loop of `_cy_test_tau_leap_safety`: `cdf_val` starts at 1.0 and is lowered to
`pdtr(floor(x[j]), rates[i]*tau)` for every entry `loss[j,i] == 1`.  `pdtr` (the Poisson cdf of
scipy.special) is an argument: with the loss matrix the code builds it is never consulted. -/
def safetyCdf (pdtr : Int → Rat → Rat) (x : Vec) (loss : List (List Int)) (rates : List Rat) (tau : Rat) : Rat :=
  (loss.zip rates).foldl (fun cdf cr =>
    (cr.1.zip x).foldl (fun cdf ex =>
      if ex.1 = 1 then
        let c := pdtr ex.2.floor (cr.2 * tau)
        if c < cdf then c else cdf
      else cdf) cdf) 1

/-- the `while safe is False` loop (`count` attempts, gives up after 257: `none` = `return False`) -/
def safetyLoop (pdtr : Int → Rat → Rat) (x : Vec) (loss : List (List Int)) (rates : List Rat) (eps : Rat) :
    Nat → Nat → Rat → Option Rat
  | 0, _, _ => none
  | fuel + 1, count, tau =>
    let maxCdf := 1 - safetyCdf pdtr x loss rates tau
    if eps < maxCdf then
      let tau' := tau / (maxCdf / eps)
      if 256 < count then none else safetyLoop pdtr x loss rates eps fuel (count + 1) tau'
    else
      if 256 < count then none else some tau

/-- `new_x = x.copy(); for i, r in enumerate(rates): new_x = new_x + changes[:, i]*n_i` -/
def applyCounts (x : Vec) (cols : List Vec) (counts : List Nat) : Vec :=
  (cols.zip counts).foldl (fun acc cn => vadd acc (vscale cn.1 (cn.2 : Rat))) x

/-- values of the compiled evaluators at the current `(x, t)` -/
structure Eval where
  rates : List Rat        -- eventRateVector(x,t)
  cols : List Vec         -- vMat(x,t), by column (one per event)
  pure : Vec              -- pureOdeVector(x,t)
  mu : List Rat           -- transitionMean(x,t)
  sigma2 : List Rat       -- transitionVar(x,t)
deriving Repr, Inhabited

/-- the settings `_jump` passes down: `_state_lims`, `_lambdaMat`, `_epsilon`, `pre_tau` -/
structure Settings where
  lims : List Lim
  react : List (List Int)
  eps : Rat
  preTau : Option Rat
  pdtr : Int → Rat → Rat := fun _ _ => 1
deriving Inhabited

/-- the step size `tauLeap` ends up using (`none`: the safety loop gave up) -/
def tauOf (s : Settings) (e : Eval) (x : Vec) : Option Rat :=
  let tau0 := match s.preTau with
    | none => adaptiveTau s.eps e.rates e.mu e.sigma2
    | some p => p
  safetyLoop s.pdtr x (lossMat s.react) e.rates s.eps 258 0 tau0

/-- `tauLeap(x, x_lims, t, …)` given the evaluated quantities and the Poisson variates (one per event) -/
def tauLeap (s : Settings) (e : Eval) (x : Vec) (t : Rat) (pois : List Nat) : Outcome :=
  if allZero e.rates then .zeroRates else
  match tauOf s e x with
  | none => .notSafe
  | some tau =>
    if pois.length < e.rates.length then .starved else
    let counts := pois.take e.rates.length
    let xs := applyCounts x e.cols counts
    let xn := vadd xs (vscale e.pure tau)                         -- `new_x + determ_changes*tau_scale`
    .checked (checkJump x xn s.lims t tau counts)

/-! ### the `_jump` loop -/

inductive Branch | exact | tau | retry
deriving Repr, BEq, DecidableEq, Inhabited

def Branch.toString : Branch → String
  | .exact => "exact" | .tau => "tau" | .retry => "retry"

/-- what one loop iteration appends to `xList, tList, jumpList, dtList` -/
structure Rec where
  x : Vec
  t : Rat
  counts : List Nat
  dt : Rat
  branch : Branch
deriving Repr, BEq, Inhabited

/-- why the loop was left from inside an iteration -/
inductive Stop
  | zeroRates      -- every rate is zero
  | rejected       -- a first-reaction step left the limits
  | raises         -- a step function returned a 3-tuple: the unpacking in `_jump` raises ValueError
  | starved        -- (model only) not enough variates supplied
deriving Repr, BEq, DecidableEq, Inhabited

def Stop.toString : Stop → String
  | .zeroRates => "zero_rates" | .rejected => "rejected" | .raises => "raises" | .starved => "starved"

inductive IterOut
  | stop (why : Stop)
  | next (r : Rec)
deriving Repr, BEq, Inhabited

/-- random input of one loop iteration: Poisson variates for the tau-leap attempt, exponential
variates for the first-reaction step (exact mode, or the retry after a failed tau-leap) -/
structure IterIn where
  pois : List Nat
  expo : List Rat
deriving Repr, Inhabited

def ofFirst (b : Branch) : Outcome → IterOut
  | .zeroRates => .stop .zeroRates
  | .noFiniteTime => .stop .raises
  | .notSafe => .stop .raises
  | .starved => .stop .starved
  | .checked r => if r.success then .next ⟨r.x, r.t, r.counts, r.dt, b⟩ else .stop .rejected

/-- body of `while t < finalT` in `_jump` -/
def iter (s : Settings) (e : Eval) (exact : Bool) (x : Vec) (t : Rat) (i : IterIn) : IterOut :=
  if exact then ofFirst .exact (firstReaction e.cols e.rates s.lims x t i.expo)
  else
    match tauLeap s e x t i.pois with
    | .checked r =>
      if r.success then .next ⟨r.x, r.t, r.counts, r.dt, .tau⟩
      else ofFirst .retry (firstReaction e.cols e.rates s.lims x t i.expo)   -- retry from the SAME (x, t)
    | .zeroRates => ofFirst .retry (firstReaction e.cols e.rates s.lims x t i.expo)
    | .noFiniteTime => .stop .raises
    | .notSafe => .stop .raises
    | .starved => .stop .starved

/-- a model as `_jump` sees it -/
structure Cfg where
  ev : Vec → Rat → Eval
  set : Settings
  finalT : Rat
deriving Inhabited

/-- records appended after the initial `(x0, t0)`, one iteration per element of the input list -/
def run (c : Cfg) (exact : Bool) (x : Vec) (t : Rat) : List IterIn → List Rec
  | [] => []
  | i :: is =>
    if t < c.finalT then
      match iter c.set (c.ev x t) exact x t i with
      | .stop _ => []
      | .next r => r :: run c exact r.x r.t is
    else []

/-- how the loop was left -/
inductive Exit
  | horizon              -- `while t < finalT` is false
  | stop (why : Stop)    -- `break` (or an exception) inside the body
  | inputEnded           -- (model only) the supplied list of iteration inputs ended first
deriving Repr, BEq, DecidableEq, Inhabited

def exitOf (c : Cfg) (exact : Bool) (x : Vec) (t : Rat) : List IterIn → Exit
  | [] => if t < c.finalT then .inputEnded else .horizon
  | i :: is =>
    if t < c.finalT then
      match iter c.set (c.ev x t) exact x t i with
      | .stop w => .stop w
      | .next r => exitOf c exact r.x r.t is
    else .horizon

/-- state and time the loop ends in -/
def finalState (c : Cfg) (exact : Bool) (x : Vec) (t : Rat) : List IterIn → Vec × Rat
  | [] => (x, t)
  | i :: is =>
    if t < c.finalT then
      match iter c.set (c.ev x t) exact x t i with
      | .stop _ => (x, t)
      | .next r => finalState c exact r.x r.t is
    else (x, t)

/-- the arrays `_jump` returns: `xList`, `tList` (with the initial record), `jumpList`, `dtList` -/
def pathStates (x0 : Vec) (recs : List Rec) : List Vec := x0 :: recs.map (·.x)
def pathTimes (t0 : Rat) (recs : List Rec) : List Rat := t0 :: recs.map (·.t)
def pathCounts (recs : List Rec) : List (List Nat) := recs.map (·.counts)

/-! ### time argument of `solve_stochast` -/

inductive TimeArg
  | number (T : Rat)
  | list (l : List Rat)
  | tuple (l : List Rat)
  | array (l : List Rat)
  | other
deriving Repr, Inhabited

/-- `(finalT, timePoint, t)` of `solve_stochast`; `none` = `InputError("Unknown data type for time")`
or an empty sequence (no last element) -/
def normaliseTime : TimeArg → Option (Rat × Option (List Rat))
  | .number T => some (T, none)
  | .list l | .tuple l =>
    match l with
    | [] => none
    | [a] => some (a, none)                          -- `len(t) == 1`: a horizon
    | _ => l.getLast?.map (fun T => (T, some l))     -- `finalT = t[-1:]`, `timePoint = True`
  | .array l => l.getLast?.map (fun T => (T, some l))
  | .other => none

/-! ### gridded output -/

/-- `np.searchsorted(ts, x)` (side='left') on a sorted array: number of elements `< x` -/
def searchsortedLeft (ts : List Rat) (x : Rat) : Nat := ts.countP (fun a => decide (a < x))

/-- index chosen by `_extractObservationAtTime` for one target time: the first exact match if any,
else `max(searchsorted - 1, 0)` -/
def extractIdx (ts : List Rat) (target : Rat) : Nat :=
  if target ∈ ts then ts.idxOf target else searchsortedLeft ts target - 1

def extractObservationAtTime (X : List Vec) (ts : List Rat) (grid : List Rat) : List Vec :=
  grid.map (fun g => X.getD (extractIdx ts g) [])

/-- bin `k` of `np.histogram(·, bins=edges)`: `(lo, hi, isLast)` -/
def bin (edges : List Rat) (k : Nat) : Rat × Rat × Bool :=
  (edges.getD k 0, edges.getD (k + 1) 0, decide (k + 2 = edges.length))

/-- numpy's bin convention: `[lo, hi)`, the last bin `[lo, hi]` -/
def inBin (b : Rat × Rat × Bool) (a : Rat) : Bool :=
  decide (b.1 ≤ a) && (decide (a < b.2.1) || (b.2.2 && decide (a = b.2.1)))

/-- weight falling in one bin -/
def binWeight (a : List Rat) (w : List Int) (b : Rat × Rat × Bool) : Int :=
  (List.zipWith (fun ai wi => if inBin b ai then wi else 0) a w).sum

/-- `np.histogram(a, bins=edges, weights=w)[0]` (edges non-decreasing): one entry per bin -/
def histogram (a : List Rat) (w : List Int) (edges : List Rat) : List Int :=
  (List.range (edges.length - 1)).map (fun k => binWeight a w (bin edges k))

/-- column `i` of the per-step counts `dX[:, i]` -/
def countCol (dX : List (List Nat)) (i : Nat) : List Int := dX.map (fun row => ((row.getD i 0 : Nat) : Int))

/-- `_addJumpsBetweenTime(dX, t, targetTime, exact)` after the repair: for each transition `i` the
histogram of the event times `t[1:]` weighted by `dX[:, i]`, in both modes.  Result by row
(one row per interval, one entry per transition). -/
def addJumpsBetweenTime (nTrans : Nat) (dX : List (List Nat)) (t : List Rat) (grid : List Rat) : List (List Int) :=
  let perTrans := (List.range nTrans).map (fun i => histogram t.tail (countCol dX i) grid)
  (List.range (grid.length - 1)).map (fun k => perTrans.map (fun h => h.getD k 0))

/-- the exact-mode branch before the repair: `np.histogram(t, bins=targetTime)` for every transition
(all recorded times including `t0`, no weights) -/
def addJumpsBetweenTimeLegacy (nTrans : Nat) (t : List Rat) (grid : List Rat) : List (List Int) :=
  let h := histogram t (t.map (fun _ => 1)) grid
  (List.range (grid.length - 1)).map (fun k => (List.range nTrans).map (fun _ => h.getD k 0))

/-! ### the limit list `_state_lims` -/

/-- limit of a declared entry: `(name, (lo, hi))` as given, a bare name gets `(0, None)` -/
def declLim (given : Option Lim) : Lim := given.getD (some 0, none)

/-- `_state_lims` after the repair: one entry per *state*; a range-style declaration (`"y1:4"`,
three states) repeats its limit for each of its states.  `widths[i]` is the number of states
declared entry `i` expands to. -/
def stateLims (widths : List Nat) (given : List (Option Lim)) : List Lim :=
  (widths.zip given).flatMap (fun wg => List.replicate wg.1 (declLim wg.2))

/-- `_state_lims` before the repair: one entry per *declared entry*, used positionally by `_checkJump` -/
def stateLimsLegacy (given : List (Option Lim)) : List Lim := given.map declLim

/-- widths of declared entries, from the names (`expandName` of Model.lean) -/
def declWidths (names : List String) : List Nat := names.map (fun n => (expandName n).length)

/-! ### vocabulary of the property statements (Props/C04, C11, C15) -/

/-- component `s` of `V · counts` for a state-change matrix given by columns (one per event) -/
def mulVec (cols : List Vec) (counts : List Nat) (s : Nat) : Rat :=
  ((cols.zip counts).map (fun cn => cn.1.getD s 0 * (cn.2 : Rat))).sum

/-- a property of every step of a path, each step seen from its own pre-state `(x, t)` -/
def Steps (P : Vec → Rat → Rec → Prop) : Vec → Rat → List Rec → Prop
  | _, _, [] => True
  | x, t, r :: rs => P x t r ∧ Steps P r.x r.t rs

/-- `v` respects the limit `l` -/
def okLim (l : Lim) (v : Rat) : Prop :=
  (∀ lo, l.1 = some lo → (lo : Rat) ≤ v) ∧ (∀ hi, l.2 = some hi → v ≤ (hi : Rat))

/-- every state that has a limit entry respects it -/
def Within (lims : List Lim) (x : Vec) : Prop :=
  ∀ (i : Nat) (l : Lim) (v : Rat), lims[i]? = some l → x[i]? = some v → okLim l v

/-- sum of the `d`s whose time satisfies `p` (events selected by their time) -/
def selSum (p : Rat → Bool) (taus : List Rat) (ds : List Rat) : Rat :=
  (List.zipWith (fun τ d => if p τ then d else 0) taus ds).sum

end Pygom.Stoch
