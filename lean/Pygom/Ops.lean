/-
Request dispatcher of the driver.  Every op is a pure function Json → Json.
-/
import Pygom.Build

namespace Pygom
open Lean (Json)

def errJson (e : Err) : Json := Json.mkObj [("err", e.toString)]

def opAssemble (j : Json) : Except String Json := do
  let spec ← specOfJson (fld j "model")
  match buildModel spec with
  | .error e => pure (Json.mkObj [("stage", "build"), ("err", e.toString)])
  | .ok m =>
    match assemble m with
    | .error e => pure (Json.mkObj [("stage", "assemble"), ("err", e.toString),
                                    ("states", strsToJson m.states), ("params", strsToJson m.params)])
    | .ok a =>
      let jac := jacobianEqn m.states a.ode
      let grad := gradEqn m.params a.ode
      let withDerivs := (fld j "derivs").getBool?.toOption.getD false
      let base : List (String × Json) :=
        [("states", strsToJson m.states), ("params", strsToJson m.params),
         ("lims", Json.arr (m.stateLims.map (fun l => Json.arr #[
             (match l.1 with | some x => (x : Json) | none => Json.null),
             (match l.2 with | some x => (x : Json) | none => Json.null)])).toArray),
         ("ode", exprsToJson a.ode), ("vmat_cols", matToJson a.vmatCols), ("rates", exprsToJson a.rates),
         ("pure", exprsToJson a.pureOde),
         ("react_cols", Json.arr (a.reactCols.map natsToJson).toArray)]
      let derivs : List (String × Json) :=
        if withDerivs then
          let F := transitionJacobian m.states a.rates a.vmatCols
          [("jac", matToJson jac), ("grad", matToJson grad),
           ("djac", matToJson (diffJacobianEqn m.states a.ode)),
           ("gjac", matToJson (gradJacobianEqn m.states m.params a.ode)),
           ("ggrad", matToJson (gradGradEqn m.params a.ode)),
           ("tjac", matToJson F), ("tmean", exprsToJson (transitionMean F a.rates)),
           ("tvar", exprsToJson (transitionVar F a.rates))]
        else []
      pure (Json.mkObj (base ++ derivs))

/-- one stochastic step on integer states: add `counts[j]` copies of column `j` (C10 `applyCounts`) -/
def applyCountsI (x : List Int) (cols : List (List Int)) (counts : List Int) : List Int :=
  (cols.zip counts).foldl (fun acc cc => List.zipWith (fun a v => a + v * cc.2) acc cc.1) x

def opApplyCounts (j : Json) : Except String Json := do
  let x0 ← listOfJson Json.getInt? (fld j "x0")
  let cols ← listOfJson (listOfJson Json.getInt?) (fld j "cols")
  let steps ← listOfJson (listOfJson Json.getInt?) (fld j "steps")
  let path := steps.scanl (fun x c => applyCountsI x cols c) x0
  pure (Json.mkObj [("path", Json.arr (path.map intsToJson).toArray),
                    ("sums", intsToJson (path.map List.sum))])

/-- op handlers of this file; other areas add their own `handleX : String → Json → Option (Except String Json)`
in `Pygom/Ops<Area>.lean` and are listed in `Pygom/Dispatch.lean` -/
def handleCore (op : String) (j : Json) : Option (Except String Json) :=
  match op with
  | "ping" => some (pure (Json.mkObj [("pong", true)]))
  | "assemble" => some (opAssemble j)
  | "apply_counts" => some (opApplyCounts j)
  | _ => none

end Pygom
