/-
Sensitivity systems of pygom, mirrored line by line, as index arithmetic:

* `ode_utils.vecToMatSens / matToVecSens / vecToMatFF / matToVecFF`, `shapeAdjust.kronState / kronParam`
* `DeterministicOde.sensitivity / eval_sensitivity / ode_and_sensitivity`
* `sensitivityIV / eval_sensitivityIV / ode_and_sensitivityIV`
* `sens_jacobian_state / eval_sens_jacobian_state`   (the dot - transpose - reshape)
* `ode_and_sensitivity_jacobian`  (kron blocks, and the `arrangeVector` row selection of `by_state`)
* `ode_and_sensitivityIV_jacobian`  (including the `nP == 0` branch)
* `forwardforward / eval_forwardforward / ode_and_forwardforward`  (with the `grad_jacobian` / `grad_grad` terms)
* `BaseLoss.sens_to_jtj`, and the assembly at the end of `BaseLoss.hessian`

Vectors are functions `Nat → α`, matrices `Nat → Nat → α`; shapes are explicit arguments, exactly the
numbers numpy is given.  A numpy reshape is therefore a formula on indices (`'F'`: `M[i][j] = v[j*nr+i]`,
`'C'`: `M[i][j] = v[i*nc+j]`), `np.kron(A,B)[r][c] = A[r / rB][c / cB] * B[r % rB][c % cB]`,
`np.append` / `np.bmat` are case splits on the index, a slice `v[n:]` is an index shift.
Entries live in any structure with `0, 1, +, *, -` (the driver runs the functions on `Rat`, the theorems
use `ℝ`, the counterexamples `Int`).  No Mathlib import: this file is linked into the native driver.
-/
namespace Pygom
namespace Sens

abbrev Vec (α : Type) := Nat → α
abbrev Mat (α : Type) := Nat → Nat → α

section
set_option linter.unusedVariables false
variable {α : Type} [Zero α] [One α] [Add α] [Mul α] [Neg α]

/-- `Σ_{l<n} f l` -/
def sumTo : Nat → (Nat → α) → α
  | 0, _ => 0
  | n+1, f => sumTo n f + f n

/-- `A.dot(B)` with inner dimension `m` -/
def matMul (m : Nat) (A B : Mat α) : Mat α := fun i j => sumTo m (fun l => A i l * B l j)
def matAdd (A B : Mat α) : Mat α := fun i j => A i j + B i j
def transpose (A : Mat α) : Mat α := fun i j => A j i
/-- `np.eye(n)` (read inside its shape only) -/
def eye : Mat α := fun i j => if i = j then 1 else 0
/-- `np.kron(A, B)` for `B` of shape `rB × cB` -/
def kron (rB cB : Nat) (A B : Mat α) : Mat α := fun r c => A (r / rB) (c / cB) * B (r % rB) (c % cB)
/-- `np.reshape(v, (nr, _), 'F')` -/
def reshapeF (nr : Nat) (v : Vec α) : Mat α := fun i j => v (j*nr + i)
/-- `np.reshape(v, (_, nc))` (C order) -/
def reshapeC (nc : Nat) (v : Vec α) : Mat α := fun i j => v (i*nc + j)
/-- `np.reshape(M, nr*nc, order='F')` / `M.flatten('F')` for `M` with `nr` rows -/
def flattenF (nr : Nat) (M : Mat α) : Vec α := fun m => M (m % nr) (m / nr)
/-- `np.reshape(M, nr*nc)` / `M.ravel()` for `M` with `nc` columns -/
def flattenC (nc : Nat) (M : Mat α) : Vec α := fun m => M (m / nc) (m % nc)
/-- C-order `np.reshape` of a matrix with `c1` columns into one with `c2` columns -/
def reshapeMatC (c1 c2 : Nat) (M : Mat α) : Mat α := reshapeC c2 (flattenC c1 M)
/-- the slice `v[n:]` -/
def dropV (n : Nat) (v : Vec α) : Vec α := fun m => v (n + m)
/-- a vector as a one-row matrix -/
def rowMat (v : Vec α) : Mat α := fun _ c => v c

/-! ### ode_utils -/

/-- `vecToMatSens`: `np.reshape(s, (numState, numParam), 'F')` -/
def vecToMatSens (nS : Nat) (s : Vec α) : Mat α := reshapeF nS s
/-- `matToVecSens`: `np.reshape(S, numState*numParam, order='F')` -/
def matToVecSens (nS : Nat) (S : Mat α) : Vec α := flattenF nS S
/-- `vecToMatFF`: `np.reshape(ff, (numState*numParam, numParam))` -/
def vecToMatFF (nP : Nat) (ff : Vec α) : Mat α := reshapeC nP ff
/-- `matToVecFF`: `FF.ravel()` -/
def matToVecFF (nP : Nat) (FF : Mat α) : Vec α := flattenC nP FF
/-- `shapeAdjust.kronState(A, pre)` for `A` of shape `rA × cA`: `I_d ⊗ A` if `pre` else `A ⊗ I_d` -/
def kronState (nS rA cA : Nat) (A : Mat α) (pre : Bool) : Mat α :=
  if pre then kron rA cA eye A else kron nS nS A eye
/-- `shapeAdjust.kronParam(A, pre)`: `I_p ⊗ A` if `pre` else `A ⊗ I_p` -/
def kronParam (nP rA cA : Nat) (A : Mat α) (pre : Bool) : Mat α :=
  if pre then kron rA cA eye A else kron nP nP A eye

/-! ### first-order sensitivities -/

/-- `eval_sensitivity`: `A = J.S + G`, flattened in C order (`by_state`) or by `matToVecSens` -/
def evalSensitivity (nS nP : Nat) (J G S : Mat α) (byState : Bool) : Vec α :=
  let A := matAdd (matMul nS J S) G
  if byState then flattenC nP A else matToVecSens nS A

/-- `sensitivity` -/
def sensitivity (nS nP : Nat) (J G : Mat α) (sens : Vec α) (byState : Bool) : Vec α :=
  let S := if byState then reshapeC nP sens else vecToMatSens nS sens
  evalSensitivity nS nP J G S byState

/-- `ode_and_sensitivity(state_param, t, by_state)`; `f, J, G` are `ode, jacobian, grad` at the state
`state_param[0:nS]` -/
def odeAndSensitivity (nS nP : Nat) (f : Vec α) (J G : Mat α) (z : Vec α) (byState : Bool) : Vec α :=
  let out2 := sensitivity nS nP J G (dropV nS z) byState
  fun r => if r < nS then f r else out2 (r - nS)

/-- `sensitivityIV` + `eval_sensitivityIV`: the pair `(matToVecSens(J.S+G), (J.IV).flatten('F'))`;
`len = len(sensIV)`, the initial-value block being its last `nS*nS` entries -/
def sensitivityIV (nS nP len : Nat) (J G : Mat α) (sensIV : Vec α) : Vec α × Vec α :=
  let S := vecToMatSens nS sensIV                        -- of sensIV[:(nS*nP)]
  let IV := reshapeF nS (dropV (len - nS*nS) sensIV)     -- of sensIV[-(nS*nS):]
  let A := matAdd (matMul nS J S) G
  let B := matMul nS J IV
  (matToVecSens nS A, flattenF nS B)

/-- `ode_and_sensitivityIV(state_param, t)` with `len = len(state_param)` -/
def odeAndSensitivityIV (nS nP len : Nat) (f : Vec α) (J G : Mat α) (z : Vec α) : Vec α :=
  let o := sensitivityIV nS nP (len - nS) J G (dropV nS z)
  fun r => if r < nS then f r else if r < nS + nS*nP then o.1 (r - nS) else o.2 (r - nS - nS*nP)

/-! ### Jacobians of the augmented systems -/

/-- `eval_sens_jacobian_state`: `np.reshape(diffJ.dot(vecToMatSens(sens)).transpose(), (nS*nP, nS))` -/
def evalSensJacobianState (nS : Nat) (DJ : Mat α) (sens : Vec α) : Mat α :=
  reshapeMatC (nS*nS) nS (transpose (matMul nS DJ (vecToMatSens nS sens)))

/-- `sens_jacobian_state(state_param, t)` -/
def sensJacobianState (nS : Nat) (DJ : Mat α) (z : Vec α) : Mat α := evalSensJacobianState nS DJ (dropV nS z)

/-- the `arrangeVector` loop of `ode_and_sensitivity_jacobian(by_state=True)`, entry `k = j*nS + i` -/
def arrangeVector (nS : Nat) (k : Nat) : Nat :=
  let i := k % nS
  let j := k / nS
  if i = 0 then i*nS + j else i*(nS - 1) + j

/-- `np.bmat([[A, 0],[C, D]])` with `A` of shape `n × n` -/
def bmat22 (n : Nat) (A C D : Mat α) : Mat α :=
  fun r c => if r < n then (if c < n then A r c else 0) else (if c < n then C (r - n) c else D (r - n) (c - n))

/-- `ode_and_sensitivity_jacobian(state_param, t, by_state)`; `J, GJ, DJ` are `jacobian`,
`grad_jacobian`, `diff_jacobian` at the state (`nP` only fixes the shape of `np.eye(nP)`) -/
def odeAndSensitivityJacobian (nS nP : Nat) (J GJ DJ : Mat α) (z : Vec α) (byState : Bool) : Mat α :=
  let outJ : Mat α := kron nS nS eye J                       -- np.kron(np.eye(nP), J)
  let sjs := matAdd GJ (sensJacobianState nS DJ z)
  if byState then
    let outJ' : Mat α := fun r c => outJ (arrangeVector nS r) c
    let sjs' : Mat α := fun r c => sjs (arrangeVector nS r) c
    bmat22 nS J sjs' outJ'
  else bmat22 nS J sjs outJ

/-- the by-state Jacobian as it should be (rows `i*nP+k` taken from rows `k*nS+i`, sensitivities read
in C order, sensitivity block `J ⊗ I_p`) - the proposed repair -/
def odeAndSensitivityJacobianByStateRepaired (nS nP : Nat) (J GJ DJ : Mat α) (z : Vec α) : Mat α :=
  let sensF : Vec α := matToVecSens nS (reshapeC nP (dropV nS z))
  let sjs := matAdd GJ (evalSensJacobianState nS DJ sensF)
  let idx : Nat → Nat := fun r => (r % nP)*nS + r / nP
  bmat22 nS J (fun r c => sjs (idx r) c) (kron nP nP J eye)

/-- `ode_and_sensitivityIV_jacobian(state_param, t)` -/
def odeAndSensitivityIVJacobian (nS nP : Nat) (J GJ DJ : Mat α) (z : Vec α) : Mat α :=
  let A := matMul nS DJ (reshapeF nS (dropV (nS*(nP+1)) z))
  let A' := reshapeMatC (nS*nS) nS (transpose A)
  let kJ : Mat α := kron nS nS eye J                        -- np.kron(np.eye(nS), J) and np.kron(np.eye(nP), J)
  if nP = 0 then bmat22 nS J A' kJ
  else
    let sjs := matAdd GJ (sensJacobianState nS DJ z)        -- of state_param[:(nS*(nP+1))]
    fun r c =>
      if r < nS then (if c < nS then J r c else 0)
      else if r < nS + nS*nP then
        (if c < nS then sjs (r - nS) c else if c < nS + nS*nP then kJ (r - nS) (c - nS) else 0)
      else
        (if c < nS then A' (r - nS - nS*nP) c else if c < nS + nS*nP then 0
         else kJ (r - nS - nS*nP) (c - nS - nS*nP))

/-! ### second-order (forward-forward) sensitivities -/

/-- a 3-d numpy array -/
abbrev Ten (α : Type) := Nat → Nat → Nat → α

/-- `np.reshape(v, (_, d1, d2))` (C order) -/
def reshape3C (d1 d2 : Nat) (v : Vec α) : Ten α := fun p q s => v ((p*d1 + q)*d2 + s)
/-- `T.ravel()` of a 3-d array whose trailing dimensions are `d1, d2` -/
def flatten3C (d1 d2 : Nat) (T : Ten α) : Vec α := fun m => T (m / (d1*d2)) (m / d2 % d1) (m % d2)
/-- `T.transpose(1, 0, 2)` -/
def transpose102 (T : Ten α) : Ten α := fun i k b => T k i b
/-- `T.transpose(0, 2, 1)` -/
def transpose021 (T : Ten α) : Ten α := fun i k b => T i b k
def tenAdd (A B : Ten α) : Ten α := fun i k b => A i k b + B i k b

/-- `eval_forwardforward` AS FOUND (before the `fix:` of finding C20-hessian-mixed-terms):
`kronParam(J).dot(FF) + kronState(S.T, pre=True).dot(diffJ).dot(S)` and nothing else - the terms that come from the
explicit dependence of `f` on the parameters were missing.  Kept for `Pygom.C20.ff_rhs_asFound_counterexample` and
for the diagnostic classification of a regression (harness/props/c20.py). -/
def evalForwardForwardAsFound (nS nP : Nat) (J DJ FF S : Mat α) : Mat α :=
  matAdd (matMul (nS*nP) (kronParam nP nS nS J false) FF)
         (matMul nS (matMul (nS*nS) (kronState nS nP nS (transpose S) true) DJ) S)

/-- `eval_forwardforward`, line by line.  `GJ` is `grad_jacobian(state, t)` (shape `nP*nS × nS`, row `k*nS+i`,
column `l` ↦ `∂/∂x_l ∂f_i/∂θ_k`), `GG` is `grad_grad(state, t)` (shape `nS*nP × nP`, row `i*nP+j`, column `k` ↦
`∂²f_i/∂θ_j∂θ_k`):
```
outFF  = kronParam(J).dot(FF)
outFF += kronState(A=S.T, pre=True).dot(diffJ).dot(S)
GJS    = grad_jacobian(state, t).dot(S).reshape(nP, nS, nP)
GJS    = GJS.transpose(1, 0, 2)
outFF += (GJS + GJS.transpose(0, 2, 1)).reshape(nS*nP, nP)
outFF += grad_grad(state, t)
``` -/
def evalForwardForward (nS nP : Nat) (J DJ GJ GG FF S : Mat α) : Mat α :=
  let out0 := matMul (nS*nP) (kronParam nP nS nS J false) FF
  let out1 := matAdd out0 (matMul nS (matMul (nS*nS) (kronState nS nP nS (transpose S) true) DJ) S)
  let GJS0 := reshape3C nS nP (flattenC nP (matMul nS GJ S))          -- .dot(S).reshape(nP, nS, nP)
  let GJS := transpose102 GJS0
  let out2 := matAdd out1 (reshapeC nP (flatten3C nP nP (tenAdd GJS (transpose021 GJS))))
  matAdd out2 GG

/-- `forwardforward(ff, t, state, s)` -/
def forwardForward (nS nP : Nat) (J DJ GJ GG : Mat α) (ff s : Vec α) : Vec α :=
  matToVecFF nP (evalForwardForward nS nP J DJ GJ GG (vecToMatFF nP ff) (vecToMatSens nS s))

/-- `ode_and_forwardforward(state_param, t)`; `f, J, G, DJ, GJ, GG` are `ode, jacobian, grad, diff_jacobian,
grad_jacobian, grad_grad` at the state `state_param[0:nS]` -/
def odeAndForwardForward (nS nP : Nat) (f : Vec α) (J G DJ GJ GG : Mat α) (z : Vec α) : Vec α :=
  let sens := dropV nS z                      -- state_param[nS:nS*(nP+1)]
  let ff := dropV (nS*(nP+1)) z
  let out2 := sensitivity nS nP J G sens false
  let out3 := forwardForward nS nP J DJ GJ GG ff sens
  fun r => if r < nS then f r else if r < nS + nS*nP then out2 (r - nS) else out3 (r - nS - nS*nP)

/-- the same with the as-found second-order block (diagnostics only) -/
def odeAndForwardForwardAsFound (nS nP : Nat) (f : Vec α) (J G DJ : Mat α) (z : Vec α) : Vec α :=
  let sens := dropV nS z
  let ff := dropV (nS*(nP+1)) z
  let out2 := sensitivity nS nP J G sens false
  let out3 := matToVecFF nP (evalForwardForwardAsFound nS nP J DJ (vecToMatFF nP ff) (vecToMatSens nS sens))
  fun r => if r < nS then f r else if r < nS + nS*nP then out2 (r - nS) else out3 (r - nS - nS*nP)

/-! ### base_loss.py -/

/-- the weighted block of observation `i` inside `sens_to_jtj`: `np.reshape(sens,(n,num_s,num_out),'F')[i]`
with `sens[:,:,j] *= weight` -/
def sensBlock (numS : Nat) (w : Mat α) (sens : Mat α) (i : Nat) : Mat α :=
  fun j k => sens i (j + k*numS) * w i j

/-- `sens_to_jtj(sens)` (`resid=None`): `Σ_i s_iᵀ s_i` over the `n` rows of `sens` -/
def sensToJtj (n numS : Nat) (w sens : Mat α) : Mat α :=
  fun a b => sumTo n (fun i => matMul numS (transpose (sensBlock numS w sens i)) (sensBlock numS w sens i) a b)

/-- `out = zeros(_); np.add.at(out, idx, v)`: position `q` of `v` is ADDED at `idx[q]`; an index that occurs several
times in `idx` receives the sum of its positions (unbuffered accumulation).  Since `fix:` 9e5845f this is what
`hessian` does with `_stateIndex` (a state observed more than once, `state_name=['I','I']`). -/
def scatter : List Nat → Vec α → Vec α
  | [], _ => fun _ => 0
  | x :: L, v => fun j => (if j = x then v 0 else 0) + scatter L (fun q => v (q+1)) j

/-- AS FOUND (before `fix:` 9e5845f): `out = zeros(_); out[idx] += v` is numpy's buffered `out[idx] = out[idx] + v`:
of several positions with the same index only the LAST one is kept.  Equal to `scatter` on lists without repetition;
kept for `Pygom.C20.scatter_asFound_counterexample`. -/
def scatterAsFound : List Nat → Vec α → Vec α
  | [], _ => fun _ => 0
  | x :: L, v => fun j => if j = x ∧ ¬ (x ∈ L) then 0 + v 0 else scatterAsFound L (fun q => v (q+1)) j

/-- the vector `E` of `hessian`: `E = zeros(nS); np.add.at(E, stateIndex, diff_loss[i]*weight[i])`
(sign and weight since `fix:` 0f0d14a, `d2(cost) = sum dl*w*d2(yhat) + 2*w^2*s's`; accumulation over repeated
observed states since `fix:` 9e5845f) -/
def hessE (stateIdx : List Nat) (dl w : Vec α) : Vec α := scatter stateIdx (fun q => dl q * w q)

/-- the accumulation `H += kron(E, eye(nP)).dot(FF_i)` over the `n` observation times; `FF i` is
`vecToMatFF` of row `i` of the integrated forward-forward block, `dl i` row `i` of `diff_loss`, `w i` of `_weight` -/
def hessianH (nS nP n : Nat) (stateIdx : List Nat) (dl w : Mat α) (FF : Nat → Mat α) : Mat α :=
  fun a b => sumTo n (fun i => matMul (nS*nP) (kron nP nP (rowMat (hessE stateIdx (dl i) (w i))) eye) (FF i) a b)

/-- `hessian`: `H[param_idx][:, param_idx] + 2*JTJ` -/
def hessian (nS nP n : Nat) (stateIdx paramIdx : List Nat) (dl w : Mat α) (FF : Nat → Mat α) (JTJ : Mat α) : Mat α :=
  fun a b => hessianH nS nP n stateIdx dl w FF (paramIdx.getD a 0) (paramIdx.getD b 0) + (1 + 1) * JTJ a b

/-- AS FOUND between `fix:` 0f0d14a and `fix:` 9e5845f: right sign and weight, but `E[stateIndex] += …` (last of several
equal indices wins).  Kept for `Pygom.C20.hessian_overwrite_asFound_counterexample` and for diagnostics. -/
def hessianOverwrite (nS nP n : Nat) (stateIdx paramIdx : List Nat) (dl w : Mat α) (FF : Nat → Mat α) (JTJ : Mat α) : Mat α :=
  fun a b => sumTo n (fun i => matMul (nS*nP) (kron nP nP (rowMat (scatterAsFound stateIdx (fun q => dl i q * w i q))) eye) (FF i)
      (paramIdx.getD a 0) (paramIdx.getD b 0)) + (1 + 1) * JTJ a b

/-- AS FOUND (before `fix:` 0f0d14a): `E[stateIndex] += -diff_loss[i]` - wrong sign, no weight.  Kept for
`Pygom.C20.hessian_asFound_sign_counterexample` and for diagnostics. -/
def hessEAsFound (stateIdx : List Nat) (dl : Vec α) : Vec α := scatterAsFound stateIdx (fun q => -(dl q))

def hessianAsFound (nS nP n : Nat) (stateIdx paramIdx : List Nat) (dl : Mat α) (FF : Nat → Mat α) (JTJ : Mat α) : Mat α :=
  fun a b => sumTo n (fun i => matMul (nS*nP) (kron nP nP (rowMat (hessEAsFound stateIdx (dl i))) eye) (FF i)
      (paramIdx.getD a 0) (paramIdx.getD b 0)) + (1 + 1) * JTJ a b

/-! ### lists (the driver's arrays) -/

def ofList (l : List α) : Vec α := let a := l.toArray; fun i => a.getD i 0
def ofMat (l : List (List α)) : Mat α := let a := (l.map List.toArray).toArray; fun i j => (a.getD i #[]).getD j 0
def toList (n : Nat) (v : Vec α) : List α := (List.range n).map v
def toMat (nr nc : Nat) (M : Mat α) : List (List α) := (List.range nr).map (fun i => (List.range nc).map (M i))

end
end Sens
end Pygom
