/-
Model of `BaseLoss.fit` (base_loss.py): the box-bounds packing
`np.reshape(np.append(lb, ub), (len(lb), 2), 'F')`, the method choice, and the call of
`scipy.optimize.minimize`, which is a *parameter* of the model (an optimiser contract is stated in
Props/C18.lean).   (no Mathlib)
-/
namespace Pygom.Fit

variable {α : Type} [Inhabited α]

/-- `np.reshape(s, (nr, nc), 'F')` : `M[i][j] = s[j*nr + i]` -/
def reshapeF (s : List α) (nr nc : Nat) : List (List α) :=
  (List.range nr).map fun i => (List.range nc).map fun j => s.getD (j * nr + i) default

/-- `np.reshape(s, (nr, nc))` (C order) : `M[i][j] = s[i*nc + j]`  (what the code does NOT do; kept for the
mutation self-test and the counterexample) -/
def reshapeC (s : List α) (nr nc : Nat) : List (List α) :=
  (List.range nr).map fun i => (List.range nc).map fun j => s.getD (i * nc + j) default

/-- `box_bounds = np.reshape(np.append(lb, ub), (len(lb), 2), 'F')` -/
def boxBounds (lb ub : List α) : List (List α) := reshapeF (lb ++ ub) lb.length 2

inductive Method | lbfgsb | slsqp
  deriving Repr, DecidableEq, Inhabited

def Method.toString : Method → String
  | .lbfgsb => "L-BFGS-B" | .slsqp => "SLSQP"

/-- `if A is None: method = 'L-BFGS-B' else: ... method = 'SLSQP'` -/
def chooseMethod (hasA : Bool) : Method := if hasA then .slsqp else .lbfgsb

inductive FitErr | inputError
  deriving Repr, DecidableEq

/-- the `lb`/`ub` preprocessing: a missing side becomes `[None]*len(x)` (and then no length check is made);
with both sides given the two length checks raise `InputError`.  A bound is `Option Rat` (`None` = unbounded). -/
def prepBounds (n : Nat) (lb ub : Option (List (Option Rat))) : Except FitErr (List (Option Rat) × List (Option Rat)) :=
  match lb, ub with
  | some l, some u =>
    if l.length ≠ u.length then .error .inputError
    else if l.length ≠ n then .error .inputError
    else .ok (l, u)
  | some l, none => .ok (l, List.replicate n none)
  | none, some u => .ok (List.replicate n none, u)
  | none, none => .ok (List.replicate n none, List.replicate n none)

/-- the optimiser as seen from `fit`: `minimize(fun, jac, x0, bounds, method)` -/
abbrev Minimize (X : Type) := (X → Rat) → (X → List Rat) → X → List (List (Option Rat)) → Method → X

/-- `fit(x, lb, ub)` (no `A`): pack the bounds, choose L-BFGS-B, return `res['x']` -/
def fit (minimize : Minimize (List Rat)) (cost : List Rat → Rat) (sens : List Rat → List Rat)
    (x : List Rat) (lb ub : Option (List (Option Rat))) : Except FitErr (List Rat) :=
  match prepBounds x.length lb ub with
  | .error e => .error e
  | .ok (l, u) => .ok (minimize cost sens x (boxBounds l u) (chooseMethod false))

end Pygom.Fit
