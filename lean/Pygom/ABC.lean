/-
Model of pygom's ABC (approximate_bayesian_computation.py): `_perform_generation`, `get_tolerance`,
the generation loop of `get_posterior_sample`, `continue_posterior_sample`, `_log_parameters`,
`par_order`, and the consumers `_setParam` / `_setParamStateInput` of base_loss.py.   (no Mathlib)

Randomness, the prior densities, the ODE cost and the perturbation kernel never appear inside the
model: a run consumes an explicit **trial stream**.  One `Trial` is one pass through the body of the
`while True` loop of `_perform_generation`:

    trial_params = <prior sample | rmvnorm around a re-sampled old particle>          -> `x`
    w1 = np.prod([self.parameters[i].density(trial_params[i]) ...])                   -> `w1`
    if w1:                                                                            (w1 ≠ 0)
        par_update(self._log_parameters(trial_params.copy())[self.par_order])
        cost = self.obj.cost()                                                        -> `cost`
        if cost < tolerance:
            w2 = 1 if generation == 0 else np.dot(dmvnorm(res_old, trial_params, sigma), w_old)   -> `w2`
            break
    rejections += 1
  return (w1/w2, rejections, trial_params, cost)

"for all seeds / priors / models / kernels" is "for all trial streams".
-/
namespace Pygom.ABC

/-- a tolerance: a rational or `+∞` (`tol=np.inf` is the documented first tolerance) -/
inductive ETol
  | fin (q : Rat)
  | inf
  deriving Repr, DecidableEq, Inhabited

/-- `c < tol` -/
def ltTol (c : Rat) : ETol → Prop
  | .inf => True
  | .fin t => c < t

instance (c : Rat) (t : ETol) : Decidable (ltTol c t) := by
  cases t <;> simp only [ltTol] <;> exact inferInstance

/-- `a <= b` on tolerances -/
def ETol.le : ETol → ETol → Prop
  | _, .inf => True
  | .inf, .fin _ => False
  | .fin a, .fin b => a ≤ b

instance (a b : ETol) : Decidable (ETol.le a b) := by
  cases a <;> cases b <;> simp only [ETol.le] <;> exact inferInstance

/-- one pass through the loop body of `_perform_generation` -/
structure Trial where
  /-- proposed vector, on the sampling scale (log-scale entries are NOT back-transformed; this is what is stored in `res`) -/
  x : List Rat
  /-- product of the prior densities at `x` -/
  w1 : Rat
  /-- `self.obj.cost()` at the back-transformed, re-ordered `x`; `none` = not a number (every comparison is false)
      or not evaluated (`w1 = 0`) -/
  cost : Option Rat
  /-- kernel mixture weight `Σ_j w_old[j]·K(res_old[j]; x)`; read only when the trial is accepted in a generation ≠ 0 -/
  w2 : Rat
  deriving Repr, Inhabited

/-- the tuple returned by `_perform_generation`: `(w1/w2, rejections, trial_params, cost)` -/
structure Accepted where
  w : Rat
  rejections : Nat
  x : List Rat
  dist : Rat
  deriving Repr, Inhabited

/-- the accept test, in the order of the code: `if w1:` first, then `if cost < tolerance:`.
Returns the cost of an accepted trial. -/
def accepts (tol : ETol) (t : Trial) : Option Rat :=
  if t.w1 = 0 then none else
  match t.cost with
  | none => none
  | some c => if ltTol c tol then some c else none

/-- `_perform_generation`: consume trials until the first accepted one.  `none`: the stream ran out
(the real `while True` would still be running). -/
def performGeneration (gen0 : Bool) (tol : ETol) : List Trial → Nat → Option (Accepted × List Trial)
  | [], _ => none
  | t :: ts, rej =>
    match accepts tol t with
    | some c => some ({ w := t.w1 / (if gen0 then 1 else t.w2), rejections := rej, x := t.x, dist := c }, ts)
    | none => performGeneration gen0 tol ts (rej + 1)

/-- `for i in range(self.N): (w[i], rejections, res[i], dist[i]) = self._perform_generation(...)` -/
def fillN (gen0 : Bool) (tol : ETol) : Nat → List Trial → Option (List Accepted × List Trial)
  | 0, s => some ([], s)
  | n + 1, s =>
    match performGeneration gen0 tol s 0 with
    | none => none
    | some (a, s') =>
      match fillN gen0 tol n s' with
      | none => none
      | some (as, s'') => some (a :: as, s'')

/-- the `tol` argument: a scalar or a list (`hasattr(tol, "__len__")`) -/
inductive TolSpec
  | scalar (t : ETol)
  | list (ts : List ETol)
  deriving Repr, Inhabited

inductive Err
  | assertion      -- one of the `assert`s
  | exhausted      -- trial stream ran out
  | nameError      -- `self.final_tol = tolerance` with G = 0
  | typeError      -- `self.tol[g]` on a scalar
  | indexError     -- `self.tol[g]` / `tol[0]` out of range
  | attributeError -- `self.N` / `self.final_tol` before any run
  deriving Repr, DecidableEq, Inhabited

def Err.toString : Err → String
  | .assertion => "AssertionError" | .exhausted => "exhausted" | .nameError => "UnboundLocalError"
  | .typeError => "TypeError" | .indexError => "IndexError" | .attributeError => "AttributeError"

/-- arguments of one `get_posterior_sample` / `continue_posterior_sample` call.  `Q` is
`fun dist => np.quantile(dist, q)` for this call's `q` (a parameter of the model). -/
structure Call where
  cont : Bool            -- false: get_posterior_sample, true: continue_posterior_sample
  N : Nat
  G : Nat
  tol : TolSpec
  quant : Bool           -- `q is not None`
  M : Option Nat
  Q : List Rat → Rat

/-- `get_tolerance(g)` with `self.dist = dist` -/
def getTolerance (c : Call) (g : Nat) (dist : List Rat) : Except Err ETol :=
  if g = 0 then
    match c.tol with
    | .scalar t => .ok t
    | .list ts => match ts[0]? with | some t => .ok t | none => .error .indexError
  else if c.quant then .ok (.fin (c.Q dist))
  else
    match c.tol with
    | .scalar _ => .error .typeError
    | .list ts => match ts[g]? with | some t => .ok t | none => .error .indexError

/-- the argument checks of `get_posterior_sample` -/
def checkArgs (c : Call) : Bool :=
  (if c.G = 1 then (match c.tol with | .scalar _ => true | .list _ => false)
   else if !c.quant then (match c.tol with | .scalar _ => false | .list ts => ts.length == c.G)
   else (match c.tol with | .scalar _ => true | .list _ => false))
  && (match c.M with | none => true | some m => decide (m < c.N))

/-- what one generation leaves behind -/
structure Gen where
  tol : ETol
  parts : List Accepted
  deriving Repr, Inhabited

def Gen.dists (g : Gen) : List Rat := g.parts.map (·.dist)

/-- `for g in range(rerun, G+rerun)`: `i = g - rerun` counts from 0; only `generation == 0` (a fresh run's
first generation) samples from the prior and uses `w2 = 1`.  `dist` is `self.dist` on entry. -/
def genLoop (c : Call) (rerun : Bool) : Nat → Nat → List Rat → List Trial → Except Err (List Gen × List Trial)
  | _, 0, _, s => .ok ([], s)
  | i, k + 1, dist, s =>
    match getTolerance c i dist with
    | .error e => .error e
    | .ok tol =>
      match fillN (!rerun && i == 0) tol c.N s with
      | none => .error .exhausted
      | some (ps, s') =>
        match genLoop c rerun (i + 1) k (ps.map (·.dist)) s' with
        | .error e => .error e
        | .ok (gs, s'') => .ok ({ tol := tol, parts := ps } :: gs, s'')

/-- the attributes of the ABC object that the property observes.  `history` is not an attribute: it is the
concatenation of `tolerances` (with the particles of each generation) since the last fresh
`get_posterior_sample`, which the harness reconstructs by reading `abc.tolerances` after every call. -/
structure State where
  numParam : Nat
  parts : List Accepted          -- slot i = (w[i], _, res[i], dist[i])
  tolerances : List ETol         -- `self.tolerances` of the last call
  finalTol : Option ETol         -- `self.final_tol`  (none: attribute missing)
  nextTol : Option Rat           -- `self.next_tol`
  N : Option Nat                 -- `self.N`
  history : List Gen

def State.init (numParam : Nat) : State :=
  { numParam := numParam, parts := [], tolerances := [], finalTol := none, nextTol := none, N := none, history := [] }

def State.res (s : State) : List (List Rat) := s.parts.map (·.x)
def State.dist (s : State) : List Rat := s.parts.map (·.dist)
def State.w (s : State) : List Rat := s.parts.map (·.w)

/-- `get_posterior_sample(N, tol, G, q, M, rerun=rerun)` -/
def getPosteriorSample (c : Call) (rerun : Bool) (st : State) (s : List Trial) : Except Err (State × List Trial) :=
  let parts0 : List Accepted :=
    if rerun then st.parts
    else List.replicate c.N { w := 1, rejections := 0, x := List.replicate st.numParam 0, dist := 0 }
  if !checkArgs c then .error .assertion else
  match genLoop c rerun 0 c.G (parts0.map (·.dist)) s with
  | .error e => .error e
  | .ok (gens, s') =>
    match gens.getLast? with
    | none => .error .nameError
    | some last =>
      .ok ({ numParam := st.numParam, parts := last.parts, tolerances := gens.map (·.tol), finalTol := some last.tol,
             nextTol := if c.quant then some (c.Q last.dists) else st.nextTol, N := some c.N,
             history := if rerun then st.history ++ gens else gens }, s')

/-- the first tolerance of a call (`tol[0]` or `tol`) as read by `continue_posterior_sample` -/
def firstTol (t : TolSpec) : Except Err ETol :=
  match t with
  | .scalar t => .ok t
  | .list ts => match ts[0]? with | some t => .ok t | none => .error .indexError

/-- `continue_posterior_sample`: `assert N == self.N`, `assert hasattr(self,"res")`,
`assert tol[0] <= self.final_tol`, then `get_posterior_sample(..., rerun=True)` -/
def continuePosteriorSample (c : Call) (st : State) (s : List Trial) : Except Err (State × List Trial) :=
  match st.N, st.finalTol with
  | some n, some ft =>
    if c.N ≠ n then .error .assertion else
    match firstTol c.tol with
    | .error e => .error e
    | .ok t0 => if ETol.le t0 ft then getPosteriorSample c true st s else .error .assertion
  | _, _ => .error .attributeError

def runCall (c : Call) (st : State) (s : List Trial) : Except Err (State × List Trial) :=
  if c.cont then continuePosteriorSample c st s else getPosteriorSample c false st s

/-- a get/continue sequence on one ABC object -/
def runCalls : List Call → State → List Trial → Except Err (State × List Trial)
  | [], st, s => .ok (st, s)
  | c :: cs, st, s =>
    match runCall c st s with
    | .error e => .error e
    | .ok (st', s') => runCalls cs st' s'

/-! ### numpy's default quantile (method 'linear') over the rationals -/

def maxL : List Rat → Rat
  | [] => 0
  | [x] => x
  | x :: y :: ys => max x (maxL (y :: ys))

/-- `np.quantile(l, q)`, method 'linear': virtual index `q·(n−1)`, linear interpolation between the two
neighbouring order statistics -/
def quantileLinear (q : Rat) (l : List Rat) : Rat :=
  let s := l.mergeSort (fun a b => decide (a ≤ b))
  let h : Rat := q * ((l.length : Rat) - 1)
  let lo : Nat := h.floor.toNat
  let hi : Nat := min (lo + 1) (l.length - 1)
  let g : Rat := h - (lo : Rat)
  s.getD lo 0 + (s.getD hi 0 - s.getD lo 0) * g

/-! ### `_log_parameters`, `par_order`, and the consumers -/

/-- `params[self.log] = f(params[self.log])` with `f = 10**·` -/
def logParameters {α : Type} (f : α → α) (log : List Bool) (x : List α) : List α :=
  List.zipWith (fun b v => if b then f v else v) log x

/-- `_get_target_parameters(parameters, ode.param_list)`: the user's names that are model parameters, in the user's order -/
def targetParams (user paramList : List String) : List String := user.filter (fun n => paramList.contains n)
/-- `_get_target_states(parameters, ode.state_list)`: the model states that the user named, in state-list order -/
def targetStates (user stateList : List String) : List String := stateList.filter (fun n => user.contains n)

/-- `ordered_parameters` of `ABC.__init__` -/
def orderedNames (user paramList stateList : List String) : List String :=
  targetParams user paramList ++ targetStates user stateList

/-- `self.par_order = [parameter_names.index(par) for par in ordered_parameters]` -/
def parOrder (user paramList stateList : List String) : List Nat :=
  (orderedNames user paramList stateList).map (fun n => user.idxOf n)

/-- `model_params[self.par_order]` -/
def takeIdx {α : Type} [Inhabited α] (v : List α) (idx : List Nat) : List α := idx.map (fun i => v.getD i default)

/-- The names the update function binds its positional input to.  `_setParam(theta)`: `targetParam[i] ↦ theta[i]`
(or, with `target_param=None`, the model's parameter list positionally); `_setParamStateInput(theta)`:
the first `l1` entries as `_setParam`/`_unrollParam`, the last `l2` entries `targetState[i] ↦ x0[i]`. -/
def consumerNames (paramList : List String) (targetParam targetState : Option (List String)) : List String :=
  (targetParam.getD paramList) ++ (targetState.getD [])

/-- what `par_update(v)` binds: consumer name `k` ↦ `v[k]` -/
def bindings {α : Type} (names : List String) (v : List α) : List (String × α) := names.zip v

/-- the binding a trial vector ends up with: `par_update(_log_parameters(x)[par_order])` -/
def trialBindings {α : Type} [Inhabited α] (f : α → α) (log : List Bool) (user paramList stateList : List String)
    (targetParam targetState : Option (List String)) (x : List α) : List (String × α) :=
  bindings (consumerNames paramList targetParam targetState)
    (takeIdx (logParameters f log x) (parOrder user paramList stateList))

/-- PROPOSED REPAIR of `par_order`: follow the order the loss object consumes instead of re-deriving it from the
Parameter list (the two coincide for loss objects made by `create_loss` with the same Parameter list) -/
def parOrderBy (consumer user : List String) : List Nat :=
  (consumer.filter (fun n => user.contains n)).map (fun n => user.idxOf n)

end Pygom.ABC
