/-
Pygom/Params.lean  -  the `parameters` setter of `BaseOdeModel` as a state machine   (no Mathlib)

Mirrors, line by line, `BaseOdeModel.parameters.setter`, `get_param_index`, `_extractParamIndex`,
`_extractParamSymbol` of src/pygom/model/base_ode_model.py.

* `_parameters` is a Python dict = insertion-ordered association list.  Its keys are of two kinds:
  positional input (list / tuple / ndarray of numbers) writes `str(self._paramList[i])` (a **string**
  key); pair lists and dicts write `_extractParamSymbol(name)` (a **sympy symbol** key).  A string key
  and a symbol key with the same name are different dict keys, so after `[1,2,3]` followed by
  `{'mu': 5}` the dict holds both `'mu': 3` and `mu: 5`.
* dict input **aliases** the existing `_parameters` (`param_out = self._parameters`) and extends it in
  place; every other accepted form starts from a fresh dict.
* `_paramValue = [0]*n` followed by `for key, val in items(): _paramValue[index(key)] = val`.
* `_paramDict` maps the declared names *and* `'t'` to symbols, so `'t'` passes `_extractParamSymbol`
  and only fails (ValueError) in `_paramList.index` inside the unroll loop - after `_parameters`
  has been replaced and `_paramValue` partly rewritten.

The value type `V` is generic (`Rat` in the driver; `Int` in `decide`d counterexamples).
Values that are frozen distributions / (callable, args) tuples are not modelled here (C16).

Two variants of the transition:
* `stepLegacy`  - the code exactly as written: a rejected assignment may leave `_parameters`
  mutated (dict input writes into the live dict key by key) or `_parameters` / `_paramValue`
  replaced (the `'t'` key);
* `step true`   - the same computation made atomic (work on a copy, publish only on success), i.e.
  `stepLegacy` with the state discarded whenever an error is raised.
`step false = stepLegacy`.  Which variant the tree under test follows is measured by the harness.
-/
namespace Pygom.Params

/-- a key of the `_parameters` dict: a Python `str` or a sympy `Symbol` -/
inductive Key
  | str (n : String)
  | sym (n : String)
  deriving DecidableEq, Repr

def Key.name : Key → String
  | .str n => n
  | .sym n => n

abbrev Dict (V : Type) := List (Key × V)

/-- python `d[k] = v`: replace the value in place if the key is present, else append -/
def dset {V : Type} : Dict V → Key → V → Dict V
  | [], k, v => [(k, v)]
  | (k', v') :: rest, k, v => if k' = k then (k, v) :: rest else (k', v') :: dset rest k v

/-- how a parameter is named in the *input*: `'beta'`, `sympy.Symbol('beta')`, `ODEVariable('beta')` -/
inductive NameRef
  | str (n : String)
  | sym (n : String)
  | odevar (n : String)
  deriving DecidableEq, Repr

def NameRef.name : NameRef → String
  | .str n => n
  | .sym n => n
  | .odevar n => n

/-- the exceptions of the setter, by the line that raises them -/
inductive Err
  | badLength      -- InputError "The number of input parameters is %s but %s expected" (ndarray)
  | badLengthAttr  -- AttributeError: list/tuple has no `.size` while that message is formatted
  | unknownParam   -- InputError "Input parameter: %s does not exist"
  | tooMany        -- Exception "Too many input parameters" (dict)
  | badType        -- InputError: unsupported element / value / input type
  | noneInput      -- Warning "Did not set the values of the parameters. Input was None."
  | notInList      -- ValueError: `_paramList.index(t)`; `'t'` is in `_paramDict` but is no parameter
  | unhashable     -- TypeError: single-parameter scalar uses the (unhashable) ODEVariable as dict key
  | indexError     -- IndexError: `parameters[0]` of an empty sequence on a zero-parameter model
  deriving DecidableEq, Repr

def Err.toString : Err → String
  | .badLength => "bad_length"
  | .badLengthAttr => "bad_length_attr"
  | .unknownParam => "unknown_param"
  | .tooMany => "too_many"
  | .badType => "bad_type"
  | .noneInput => "none_input"
  | .notInList => "not_in_list"
  | .unhashable => "unhashable"
  | .indexError => "index_error"

structure State (V : Type) where
  params : List String            -- `_paramList` (IDs; `_addParamSymbol` drops duplicates)
  dict : Option (Dict V)          -- `_parameters`; `none` = attribute absent (never assigned)
  pv : List V                     -- `_paramValue`
  deriving Repr

/-- accepted shapes of the right-hand side of `model.parameters = ...` -/
inductive Op (V : Type)
  | none                                        -- `None`
  | nums (vals : List V)                        -- list / tuple whose first element is a Number
  | arr (len : Nat) (flat : List V)             -- ndarray: `len(a)`, `a.ravel()` (`a.size = flat.length`)
  | pairs (ps : List (NameRef × V))             -- list / tuple whose first element is a tuple
  | seqOther (len : Nat)                        -- list / tuple whose first element is neither
  | dict (es : List (NameRef × Option V))       -- dict in iteration order; value `none` = not a Number
  | scalar (v : V)                              -- int / float (not a sequence, not a dict)
  | other                                       -- anything else, e.g. a `str`
  deriving Repr

/-- `input_str in self._paramDict` : the declared names and the time symbol -/
def known (params : List String) (n : String) : Prop := n ∈ params ∨ n = "t"

instance (params : List String) (n : String) : Decidable (known params n) := by
  unfold known; exact inferInstance

/-- `_extractParamSymbol` (`f` in the setter): ODEVariable → its ID; a sympy Symbol is not `in` a dict
with string keys, hence "does not exist" -/
def extractParamSymbol (params : List String) : NameRef → Except Err String
  | .str n => if known params n then .ok n else .error .unknownParam
  | .odevar n => if known params n then .ok n else .error .unknownParam
  | .sym _ => .error .unknownParam

/-- dict branch: `f(str(inParam))` for a Symbol key, `f(inParam)` otherwise -/
def dictKeySymbol (params : List String) : NameRef → Except Err String
  | .sym n => extractParamSymbol params (.str n)
  | r => extractParamSymbol params r

/-- `get_param_index(key)` → `_extractParamIndex(str(key))` → `_paramList.index(_paramDict[name])` -/
def getParamIndex (params : List String) (k : Key) : Except Err Nat :=
  if known params k.name then
    (if k.name ∈ params then .ok (params.idxOf k.name) else .error .notInList)
  else .error .unknownParam

/-- the unroll loop, started on `pv`; stops at the first key whose index lookup raises and returns the
partly rewritten list together with the error -/
def unrollFrom {V : Type} (params : List String) : Dict V → List V → List V × Option Err
  | [], pv => (pv, Option.none)
  | (k, v) :: rest, pv =>
    match getParamIndex params k with
    | .ok i => unrollFrom params rest (pv.set i v)
    | .error e => (pv, some e)

/-- numeric branch: `for i, pi in enumerate(parameters): param_out[str(self._paramList[i])] = pi` -/
def buildNums {V : Type} (params : List String) (vals : List V) : Dict V :=
  (params.zip vals).foldl (fun d p => dset d (Key.str p.1) p.2) []

/-- pair branch: `param_out[f(parameters[i][0])] = parameters[i][1]` into a fresh dict -/
def buildPairs {V : Type} (params : List String) : List (NameRef × V) → Dict V → Except Err (Dict V)
  | [], d => .ok d
  | (r, v) :: rest, d =>
    match extractParamSymbol params r with
    | .ok n => buildPairs params rest (dset d (Key.sym n) v)
    | .error e => .error e

/-- dict branch, writing into `d` key by key; on an error the keys already written stay written -/
def buildDict {V : Type} (params : List String) : List (NameRef × Option V) → Dict V → Dict V × Option Err
  | [], d => (d, Option.none)
  | (r, some v) :: rest, d =>
    match dictKeySymbol params r with
    | .ok n => buildDict params rest (dset d (Key.sym n) v)
    | .error e => (d, some e)
  | (_, Option.none) :: _, d => (d, some .badType)

/-- `self._parameters = param_out; self._paramValue = [0]*n; for key, val in ...: ...` -/
def commit {V : Type} [Zero V] (s : State V) (d : Dict V) : State V × Option Err :=
  let r := unrollFrom s.params d (List.replicate s.params.length 0)
  ({ s with dict := some d, pv := r.1 }, r.2)

/-- the setter exactly as written; returns the state left behind and the exception raised, if any -/
def stepLegacy {V : Type} [Zero V] (s : State V) : Op V → State V × Option Err
  | .none => if s.params.length = 0 then commit s [] else (s, some .noneInput)
  | .nums vals =>
    if vals.length ≠ s.params.length then (s, some .badLengthAttr)
    else match vals with
      | [] => (s, some .indexError)
      | _ :: _ => commit s (buildNums s.params vals)
  | .arr len flat =>
    if len ≠ s.params.length then (s, some .badLength)
    else if flat.length ≠ s.params.length then (s, some .badLength)
    else match flat with
      | [] => (s, some .indexError)
      | _ :: _ => commit s (buildNums s.params flat)
  | .pairs ps =>
    if ps.length ≠ s.params.length then (s, some .badLengthAttr)
    else match ps with
      | [] => (s, some .indexError)
      | _ :: _ =>
        match buildPairs s.params ps [] with
        | .error e => (s, some e)
        | .ok d => commit s d
  | .seqOther len =>
    if len ≠ s.params.length then (s, some .badLengthAttr)
    else if len = 0 then (s, some .indexError) else (s, some .badType)
  | .dict es =>
    if es.length > s.params.length then (s, some .tooMany)
    else match s.dict with
      | Option.none =>                       -- fresh `param_out`: a failure leaves no trace
        match buildDict s.params es [] with
        | (d, Option.none) => commit s d
        | (_, some e) => (s, some e)
      | some d0 =>                           -- `param_out = self._parameters`: written in place
        match buildDict s.params es d0 with
        | (d, Option.none) => commit s d
        | (d, some e) => ({ s with dict := some d }, some e)
  | .scalar _ => if s.params.length = 1 then (s, some .unhashable) else (s, some .badType)
  | .other => (s, some .badType)

/-- `atomic = false`: the code as written.  `atomic = true`: the same computation on a copy, published
only when no exception was raised. -/
def step {V : Type} [Zero V] (atomic : Bool) (s : State V) (op : Op V) : State V × Option Err :=
  let r := stepLegacy s op
  if atomic then (match r.2 with | some e => (s, some e) | Option.none => r) else r

/-- VARIANT, not the source (kept for `Pygom.C09.early_exit_input_order_counterexample`): a "nothing changed" fast path
placed between the format dispatch and the unroll loop,
`if hasattr(self, "_parameters") and list(param_out.values()) == self._paramValue: return`.
`param_out.values()` is in INSERTION (input) order, `_paramValue` in DECLARED order: the test compares values that
belong to different names.  On the fast path neither `_parameters` nor `_paramValue` is touched. -/
def stepEarlyExit {V : Type} [Zero V] [DecidableEq V] (s : State V) (op : Op V) : State V × Option Err :=
  let r := step true s op
  match r.2, r.1.dict, s.dict with
  | Option.none, some d, some _ => if d.map Prod.snd = s.pv then (s, Option.none) else r
  | _, _, _ => r

/-- the model right after construction (`DeterministicOde.__init__`: `_paramValue = [0]*n`) -/
def init {V : Type} [Zero V] (params : List String) : State V :=
  { params := params, dict := Option.none, pv := List.replicate params.length 0 }

def run {V : Type} [Zero V] (atomic : Bool) (s : State V) (ops : List (Op V)) : State V :=
  ops.foldl (fun s op => (step atomic s op).1) s

/-- states and outcomes after each assignment of a history (what the driver reports) -/
def trace {V : Type} [Zero V] (atomic : Bool) : State V → List (Op V) → List (State V × Option Err)
  | _, [] => []
  | s, op :: rest => let r := step atomic s op; r :: trace atomic r.1 rest

/-- the dict as a list (`{}` when the attribute is absent) -/
def State.items {V : Type} (s : State V) : Dict V := s.dict.getD []

/-- value of the **last** entry named `n` (what the unroll loop leaves at `index n`), `acc` if none -/
def lv {V : Type} (n : String) (acc : V) (d : Dict V) : V :=
  d.foldl (fun acc kv => if kv.1.name = n then kv.2 else acc) acc

def lastVal {V : Type} [Zero V] (d : Dict V) (n : String) : V := lv n 0 d

/-- abstraction: the name → value map a state stands for -/
def abs {V : Type} [Zero V] (s : State V) (n : String) : V := lastVal s.items n


/-! ### copies of a model, several live instances

`copy.deepcopy(model)` (and unpickling) go through `DeterministicOde.__getstate__` / `__setstate__`: `__getstate__`
copies `__dict__` (dropping the compiled functions), deepcopy copies the values - among them `_parameters`, `_paramList`
and `_paramValue` -, `__setstate__` does `self.__dict__.update(state)` and trips the recompile flags.  As far as the
binding of values is concerned the copy therefore starts in the SAME state as the original, and is independent of it
afterwards. -/

/-- `__setstate__`.  `rebuild = false`: the code as written (the restored object holds the copied `_paramValue`).
`rebuild = true`: a `__setstate__` that rebuilds `_paramValue` from `list(self._parameters.values())`, i.e. in the
INSERTION order of the map (kept for `Pygom.C09.setstate_rebuild_counterexample`). -/
def restore {V : Type} (rebuild : Bool) (s : State V) : State V :=
  if rebuild then { s with pv := match s.dict with | some d => d.map Prod.snd | Option.none => s.pv } else s

inductive MOp (V : Type)
  | assign (i : Nat) (op : Op V)
  | clone (i : Nat)
  deriving Repr

def mstep {V : Type} [Zero V] (atomic rebuild : Bool) (sys : List (State V)) : MOp V → List (State V) × Option Err
  | .assign i op =>
    match sys[i]? with
    | some s => let r := step atomic s op; (sys.set i r.1, r.2)
    | Option.none => (sys, Option.none)
  | .clone i =>
    match sys[i]? with
    | some s => (sys ++ [restore rebuild s], Option.none)
    | Option.none => (sys, Option.none)

def mrun {V : Type} [Zero V] (atomic rebuild : Bool) (sys : List (State V)) (ops : List (MOp V)) : List (State V) :=
  ops.foldl (fun sys op => (mstep atomic rebuild sys op).1) sys


/-- what the driver reports: after each operation the state of the instance it touched (for `clone`: the new one) -/
def mtrace {V : Type} [Zero V] (atomic rebuild : Bool) : List (State V) → List (MOp V) → List (Option (State V) × Option Err)
  | _, [] => []
  | sys, op :: rest =>
    let r := mstep atomic rebuild sys op
    let touched : Nat := match op with
      | .assign i _ => i
      | .clone _ => r.1.length - 1
    (r.1[touched]?, r.2) :: mtrace atomic rebuild r.1 rest

end Pygom.Params
