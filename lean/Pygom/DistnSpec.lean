/-
Specification side of C19 (no Mathlib: plain data and decidable predicates, so that `decide` evaluates them).

* `Wrapper` / `SeedRow` : the row types of the tables that harness/translate_wrappers.py regenerates from
  `utilR/distn.py` (`Pygom.Gen.wrappers`, `Pygom.Gen.seedTable`).
* `wrapperOK` : the property as a decidable predicate on a row - `dX` calls the density / mass function of the
  family named X (`logpdf`/`logpmf` under `log`), `pX` the cdf (`logcdf`; `sf`/`logsf` for the upper tail), `qX` the
  quantile function (`ppf`; `isf` for the upper tail; probability given on the log scale under `log`), with R's
  parameterisation: `scale = 1/rate`, `loc = min, scale = max − min`, `a = shape`, `n = size, p = prob`, and for the
  negative binomial given by its mean `p = size/(size+mu)` (or the closed form `nb2pmf`, proved equal in Props/C19).
* `testSeed` : `utilR.distn.test_seed` as decision logic over the kinds of seed argument, Python's `bool ⊂ int`
  included; `seedRowOK` : which generator must serve a draw, with which numpy method and R-parameterised arguments.
-/
import Pygom.Expr

namespace Pygom
namespace Distn

structure Wrapper where
  name    : String                 -- "dexp"
  log     : Bool                   -- value of the `log` argument in this call configuration
  variant : String                 -- "" | "prob" | "mu" | "neither" | "both"  (negative binomial: which of prob / mu is given)
  lower   : Bool                   -- value of `lower_tail` (true when the function has no such argument)
  formals : List String            -- the function's parameter names
  family  : String                 -- scipy.stats family called ("" for none / raise, "distn.nb2pmf" for the closed form)
  method  : String                 -- pdf | logpdf | pmf | logpmf | cdf | logcdf | sf | logsf | ppf | isf | none | raise
  args    : List Expr              -- positional arguments
  kwargs  : List (String × Expr)   -- keyword arguments
deriving DecidableEq, Repr

inductive SeedKind | none | false_ | int0 | int | true_ | rstate
deriving DecidableEq, Repr

/-- which generator object serves a draw -/
inductive Source
  | global        -- numpy's global generator (`np.random.<fn>`)
  | fresh         -- `np.random.RandomState()` (OS entropy)
  | seeded        -- `np.random.RandomState(seed)`
  | given         -- the RandomState object passed by the caller
  | copyOfGlobal  -- a RandomState set to a copy of the global state
  | scipyGlobal   -- `st.<family>.rvs` without `random_state`: scipy draws from numpy's global generator
  | stub          -- the function returns None
  | raises
deriving DecidableEq, Repr

structure SeedRow where
  name    : String
  variant : String
  seed    : SeedKind
  many    : Bool                   -- n > 1
  source  : Source
  method  : String                 -- numpy method ("exponential") or "<family>.rvs"
  args    : List Expr
  kwargs  : List (String × Expr)
  scalar  : Bool                   -- `[0]` taken
deriving DecidableEq, Repr

/-! ### R parameterisation of each family -/

structure FamSpec where
  scipy       : String                 -- scipy.stats family
  discrete    : Bool
  shapeNames  : List String            -- scipy's positional shape parameters (then `loc`, `scale`)
  params      : List (String × Expr)   -- scipy keyword ↦ expression in the R-style formals
  numpy       : String                 -- numpy.random method
  numpyNames  : List String            -- its positional parameters
  numpyParams : List (String × Expr)

abbrev v (s : String) : Expr := .var s
abbrev inv (s : String) : Expr := .div (.num 1) (.var s)

def familySpec : String → Option FamSpec
  | "exp"    => some ⟨"expon", false, [], [("scale", inv "rate")], "exponential", ["scale"], [("scale", inv "rate")]⟩
  | "gamma"  => some ⟨"gamma", false, ["a"], [("a", v "shape"), ("scale", inv "rate")],
                      "gamma", ["shape", "scale"], [("shape", v "shape"), ("scale", inv "rate")]⟩
  | "norm"   => some ⟨"norm", false, [], [("loc", v "mean"), ("scale", v "sd")],
                      "normal", ["loc", "scale"], [("loc", v "mean"), ("scale", v "sd")]⟩
  | "chisq"  => some ⟨"chi2", false, ["df"], [("df", v "df")], "chisquare", ["df"], [("df", v "df")]⟩
  | "unif"   => some ⟨"uniform", false, [], [("loc", v "min"), ("scale", .sub (v "max") (v "min"))],
                      "uniform", ["low", "high"], [("low", v "min"), ("high", v "max")]⟩
  | "beta"   => some ⟨"beta", false, ["a", "b"], [("a", v "shape1"), ("b", v "shape2")],
                      "beta", ["a", "b"], [("a", v "shape1"), ("b", v "shape2")]⟩
  | "pois"   => some ⟨"poisson", true, ["mu"], [("mu", v "mu")], "poisson", ["lam"], [("lam", v "mu")]⟩
  | "binom"  => some ⟨"binom", true, ["n", "p"], [("n", v "size"), ("p", v "prob")],
                      "binomial", ["n", "p"], [("n", v "size"), ("p", v "prob")]⟩
  | "nbinom" => some ⟨"nbinom", true, ["n", "p"], [("n", v "size"), ("p", v "prob")],
                      "negative_binomial", ["n", "p"], [("n", v "size"), ("p", v "prob")]⟩
  | _ => none

def families : List String := ["exp", "gamma", "norm", "chisq", "unif", "beta", "pois", "binom", "nbinom"]

/-- negative binomial given by its mean: the standard form's `p = size/(size+mu)` -/
def nbMuParams : List (String × Expr) := [("n", v "size"), ("p", .div (v "size") (.add (v "size") (v "mu")))]

def methodSpec (kind : Char) (discrete log lower : Bool) : Option String :=
  match kind, log, lower with
  | 'd', false, _ => some (if discrete then "pmf" else "pdf")
  | 'd', true,  _ => some (if discrete then "logpmf" else "logpdf")
  | 'p', false, true  => some "cdf"
  | 'p', true,  true  => some "logcdf"
  | 'p', false, false => some "sf"
  | 'p', true,  false => some "logsf"
  | 'q', _, true  => some "ppf"
  | 'q', _, false => some "isf"
  | _, _, _ => none

/-- the first positional argument: the function's first formal (for a quantile function under `log`, the probability is
given on the log scale) -/
def firstArgSpec (kind : Char) (log : Bool) (x : String) : Expr :=
  if kind == 'q' && log then .exp (.var x) else .var x

def sameBindings (a b : List (String × Expr)) : Bool :=
  a.length == b.length && b.all (fun kv => a.contains kv)

/-- positional arguments bound to the callee's parameter names, followed by the keyword arguments -/
def normalise (names : List String) (pos : List Expr) (kw : List (String × Expr)) : Option (List (String × Expr)) :=
  if pos.length ≤ names.length then some (names.zip pos ++ kw) else none

def wrapperOK (w : Wrapper) : Bool :=
  match w.name.toList, w.formals with
  | kind :: rest, x :: _ =>
    match familySpec (String.ofList rest) with
    | some fs =>
      if w.variant == "neither" || w.variant == "both" then w.method == "raise"
      else
        let params := if w.variant == "mu" then nbMuParams else fs.params
        let direct :=
          w.family == fs.scipy && some w.method == methodSpec kind fs.discrete w.log w.lower
          && w.args.head? == some (firstArgSpec kind w.log x)
          && (match normalise (fs.shapeNames ++ ["loc", "scale"]) w.args.tail w.kwargs with
              | some b => sameBindings b params
              | none => false)
        let viaNb2 :=
          kind == 'd' && w.variant == "mu" && w.family == "distn.nb2pmf"
          && w.method == (if w.log then "logpmf" else "pmf") && w.args.isEmpty
          && sameBindings w.kwargs [("x", .var x), ("mu", v "mu"), ("k", v "size")]
        direct || viaNb2
    | none => false
  | _, _ => false

def offenders (t : List Wrapper) : List (String × Bool × String × Bool) :=
  (t.filter (fun w => !wrapperOK w)).map (fun w => (w.name, w.log, w.variant, w.lower))

/-! ### completeness: every family × kind the property lists is present
(`pbeta` does not exist in pygom.utilR and is therefore not among the functions *provided*) -/

def expectedWrappers : List (String × Bool × String × Bool) :=
  families.flatMap fun fam =>
    let variants := if fam == "nbinom" then ["prob", "mu", "neither", "both"] else [""]
    let tails := fun (k : String) => if fam == "nbinom" && k != "d" then [true, false] else [true]
    let kinds : List (String × List Bool) :=
      [("d", [false, true])] ++ (if fam == "beta" then [] else [("p", [false, true])]) ++ [("q", [false])]
    kinds.flatMap fun (k, logs) =>
      logs.flatMap fun lg => variants.flatMap fun var => (tails k).map fun low => (k ++ fam, lg, var, low)

def complete (t : List Wrapper) : Bool :=
  expectedWrappers.all fun e => t.any fun w => w.name == e.1 && w.log == e.2.1 && w.variant == e.2.2.1 && w.lower == e.2.2.2

/-! ### seeds -/

/-- Python's `isinstance(seed, int)`: `bool` is a subclass of `int` -/
def isInstanceInt : SeedKind → Bool
  | .int | .int0 | .true_ | .false_ => true
  | _ => false

/-- `utilR.distn.test_seed`, branch by branch:
`if seed is True … elif isinstance(seed, RandomState) … elif isinstance(seed, int) … elif seed is False … else raise` -/
def testSeed (s : SeedKind) : Source :=
  if s == .true_ then .fresh
  else if s == .rstate then .given
  else if isInstanceInt s then .seeded
  else if s == .false_ then .copyOfGlobal
  else .raises

/-- every r function: `seed is None` → the global generator, otherwise `test_seed(seed)` -/
def expectedSource (s : SeedKind) : Source := if s == .none then .global else testSeed s

def documentedSeeders : List String := ["rexp", "rgamma", "rnorm", "rchisq", "runif", "rpois", "rbinom"]
/-- generators whose rows are checked (`rbeta` never looks at its seed and is not among the documented ones) -/
def checkedGenerators : List String := documentedSeeders ++ ["rnbinom"]

def isIntSeed : SeedKind → Bool
  | .int | .int0 => true
  | _ => false

def seedRowOK (r : SeedRow) : Bool :=
  match r.name.toList with
  | 'r' :: rest =>
    match familySpec (String.ofList rest) with
    | some fs =>
      let params := if r.variant == "mu" then nbMuParams else fs.numpyParams
      r.source == expectedSource r.seed && r.method == fs.numpy && r.scalar == !r.many
      && r.kwargs.contains ("size", .var "n")
      && (match normalise fs.numpyNames r.args (r.kwargs.filter fun kv => kv.1 != "size") with
          | some b => sameBindings b params
          | none => false)
    | none => false
  | _ => false

def seedOffenders (t : List SeedRow) : List (String × String × SeedKind × Bool) :=
  ((t.filter fun r => checkedGenerators.contains r.name).filter fun r => !seedRowOK r).map
    fun r => (r.name, r.variant, r.seed, r.many)

def allSeedKinds : List SeedKind := [.none, .false_, .int0, .int, .true_, .rstate]

def seedsComplete (t : List SeedRow) : Bool :=
  documentedSeeders.all fun f => allSeedKinds.all fun s => [false, true].all fun m =>
    t.any fun r => r.name == f && r.seed == s && r.many == m

/-! ### what "served by" means: a small semantics for reproducibility

`G` = generator states.  A world has a global generator state and the state a fresh `RandomState()` would get from the
operating system; `mk seed` is the state `RandomState(seed)` is constructed with (numpy: a function of the seed alone -
an assumption about numpy, validated per run by the harness). -/

structure World (G : Type) where
  globalState : G
  osEntropy   : G
  givenState  : G

def served {G : Type} (mk : Int → G) (w : World G) (seed : Int) : Source → Option G
  | .global | .scipyGlobal | .copyOfGlobal => some w.globalState
  | .fresh => some w.osEntropy
  | .seeded => some (mk seed)
  | .given => some w.givenState
  | .stub | .raises => none

end Distn
end Pygom
