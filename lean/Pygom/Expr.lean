/-
Expression language shared by every model file.

It is the fragment of sympy that pygom's model definitions in the generator use:
rational constants, `pi`, symbols, + − × ÷, unary minus, natural powers,
`exp`, `log`, `sin`, `cos`.  No Mathlib import: this file is linked into the
native driver.
-/
namespace Pygom

inductive Expr where
  | num : Rat → Expr
  | pi  : Expr
  | var : String → Expr
  | add : Expr → Expr → Expr
  | sub : Expr → Expr → Expr
  | mul : Expr → Expr → Expr
  | div : Expr → Expr → Expr
  | neg : Expr → Expr
  | pow : Expr → Nat → Expr
  | exp : Expr → Expr
  | log : Expr → Expr
  | sin : Expr → Expr
  | cos : Expr → Expr
deriving Repr, BEq, Inhabited, DecidableEq

namespace Expr

def zero : Expr := .num 0
def one  : Expr := .num 1

/-- Interpretation of the transcendental symbols.  Algebraic theorems hold for
every interpretation; calculus theorems fix it to the real functions. -/
structure FnInterp (K : Type) where
  exp : K → K
  log : K → K
  sin : K → K
  cos : K → K
  pi  : K

section eval
variable {K : Type} [Add K] [Sub K] [Mul K] [Div K] [Neg K] [IntCast K] [NatCast K] [HPow K Nat K]

/-- value of an expression in any structure with field operations -/
def eval (I : FnInterp K) (ρ : String → K) : Expr → K
  | num q   => (q.num : K) / (q.den : K)
  | pi      => I.pi
  | var s   => ρ s
  | add a b => eval I ρ a + eval I ρ b
  | sub a b => eval I ρ a - eval I ρ b
  | mul a b => eval I ρ a * eval I ρ b
  | div a b => eval I ρ a / eval I ρ b
  | neg a   => - eval I ρ a
  | pow a n => (eval I ρ a) ^ n
  | exp a   => I.exp (eval I ρ a)
  | log a   => I.log (eval I ρ a)
  | sin a   => I.sin (eval I ρ a)
  | cos a   => I.cos (eval I ρ a)
end eval

/-! ### smart constructors (keep generated derivatives small; each is proved value-preserving) -/

def isZero : Expr → Bool
  | num q => q == 0
  | _ => false

def isOne : Expr → Bool
  | num q => q == 1
  | _ => false

def sadd (a b : Expr) : Expr := if a.isZero then b else if b.isZero then a else add a b
def ssub (a b : Expr) : Expr := if b.isZero then a else if a.isZero then neg b else sub a b
def smul (a b : Expr) : Expr :=
  if a.isZero then zero else if b.isZero then zero
  else if a.isOne then b else if b.isOne then a else mul a b
def sneg (a : Expr) : Expr := if a.isZero then zero else neg a
def sdiv (a b : Expr) : Expr := if a.isZero then zero else div a b

/-- symbolic derivative with respect to the symbol `v` -/
def diff (v : String) : Expr → Expr
  | num _   => zero
  | pi      => zero
  | var w   => if w = v then one else zero
  | add a b => sadd (diff v a) (diff v b)
  | sub a b => ssub (diff v a) (diff v b)
  | mul a b => sadd (smul (diff v a) b) (smul a (diff v b))
  | div a b => sdiv (ssub (smul (diff v a) b) (smul a (diff v b))) (mul b b)
  | neg a   => sneg (diff v a)
  | pow a n => smul (smul (num (n : Rat)) (pow a (n - 1))) (diff v a)
  | exp a   => smul (diff v a) (exp a)
  | log a   => sdiv (diff v a) a
  | sin a   => smul (diff v a) (cos a)
  | cos a   => sneg (smul (diff v a) (sin a))

/-- substitute the expression `e'` for the symbol `v` -/
def subst (v : String) (e' : Expr) : Expr → Expr
  | num q   => num q
  | pi      => pi
  | var w   => if w = v then e' else var w
  | add a b => add (subst v e' a) (subst v e' b)
  | sub a b => sub (subst v e' a) (subst v e' b)
  | mul a b => mul (subst v e' a) (subst v e' b)
  | div a b => div (subst v e' a) (subst v e' b)
  | neg a   => neg (subst v e' a)
  | pow a n => pow (subst v e' a) n
  | exp a   => exp (subst v e' a)
  | log a   => log (subst v e' a)
  | sin a   => sin (subst v e' a)
  | cos a   => cos (subst v e' a)

/-- sequential substitution, first pair first (as `checkEquation` does over the derived-parameter dict) -/
def substAll (subs : List (String × Expr)) (e : Expr) : Expr :=
  subs.foldl (fun acc kv => subst kv.1 kv.2 acc) e

/-- does the symbol occur -/
def occurs (v : String) : Expr → Bool
  | num _   => false
  | pi      => false
  | var w   => w == v
  | add a b | sub a b | mul a b | div a b => occurs v a || occurs v b
  | neg a | pow a _ | exp a | log a | sin a | cos a => occurs v a

/-- exact rational evaluation; `none` at a transcendental node or a zero denominator -/
def evalQ (ρ : String → Option Rat) : Expr → Option Rat
  | num q   => some q
  | pi      => none
  | var s   => ρ s
  | add a b => do let x ← evalQ ρ a; let y ← evalQ ρ b; pure (x + y)
  | sub a b => do let x ← evalQ ρ a; let y ← evalQ ρ b; pure (x - y)
  | mul a b => do let x ← evalQ ρ a; let y ← evalQ ρ b; pure (x * y)
  | div a b => do
      let x ← evalQ ρ a; let y ← evalQ ρ b
      if y == 0 then none else pure (x / y)
  | neg a   => do let x ← evalQ ρ a; pure (-x)
  | pow a n => do let x ← evalQ ρ a; pure (x ^ n)
  | exp _ | log _ | sin _ | cos _ => none

/-- fully parenthesised, sympy-parsable rendering -/
def toSympy : Expr → String
  | num q   => if q.den == 1 then s!"({q.num})" else s!"(Rational({q.num},{q.den}))"
  | pi      => "pi"
  | var s   => s
  | add a b => s!"({toSympy a} + {toSympy b})"
  | sub a b => s!"({toSympy a} - {toSympy b})"
  | mul a b => s!"({toSympy a}*{toSympy b})"
  | div a b => s!"({toSympy a}/{toSympy b})"
  | neg a   => s!"(-{toSympy a})"
  | pow a n => s!"({toSympy a}**{n})"
  | exp a   => s!"exp({toSympy a})"
  | log a   => s!"log({toSympy a})"
  | sin a   => s!"sin({toSympy a})"
  | cos a   => s!"cos({toSympy a})"

end Expr
end Pygom
