/-
Loss layer (`pygom/loss/base_loss.py`, class `BaseLoss`) — executable model, Mathlib-free.

* `setWeightOrSpread n p x`  : the shape decision tree of `BaseLoss._setWeight_or_spread`, including the
  numpy broadcasting of `np.ones((n, p)) * x` and which exception class each rejected shape raises;
* `stateIndexOf states names`: `BaseOdeModel.get_state_index` on a list of names;
* `selectCols sol idx`       : `solution[:, self._stateIndex]` of `_getSolution`;
* `costOf ker n p y ŷ w s`   : `self._lossObj.loss(ŷ)` as a sum over observations and observed states of a
  per-entry kernel `ker y ŷ w spread` (the kernels themselves are C14's generated definitions);
* `costModel`                : `cost(θ)` = the composition of the above on the rows returned by the integrator.

Everything is generic in the entry type `α` (the driver uses `Rat`, the theorems use `ℝ` / any field).
-/
namespace Pygom
namespace Loss

variable {α : Type}

/-! ### numpy arrays of dimension 1 and 2, as far as `_setWeight_or_spread` looks at them -/

/-- what the caller passes as `state_weight` / `spread_param` (after JSON decoding): a Python number, a flat
list / 1-D array, or a list of lists / 2-D array -/
inductive WInput (α : Type) where
  | scalar (v : α)
  | vec (l : List α)
  | mat (rows : List (List α))
  deriving Repr, DecidableEq

/-- the array `check_array_type` returns: 1-D of some length, or 2-D `a × c` (rectangular) -/
inductive NpArr (α : Type) where
  | d1 (l : List α)
  | d2 (rows : List (List α)) (c : Nat)
  deriving Repr, DecidableEq

/-- rejected inputs: which exception the real code raises, and where -/
inductive WErr where
  | assertObs        -- AssertionError "Number of input ... is not equal to the number of observations"
  | assertStates     -- AssertionError "Number of input ... is not equal to number of states"
  | assertDiffers    -- AssertionError "Number of input ... differs from the number of observations"
  | valueBroadcast   -- numpy ValueError: operands could not be broadcast together
  | valueRagged      -- numpy ValueError: inhomogeneous shape (np.array of a ragged nested list)
  deriving Repr, DecidableEq

def WErr.pyClass : WErr → String
  | .assertObs | .assertStates | .assertDiffers => "AssertionError"
  | .valueBroadcast | .valueRagged => "ValueError"

def WErr.site : WErr → String
  | .assertObs => "observations" | .assertStates => "states" | .assertDiffers => "differs"
  | .valueBroadcast => "broadcast" | .valueRagged => "ragged"

/-- `check_array_type`: a number becomes `np.array([x])`; a list of numbers a 1-D array; a list of lists a
2-D array (numpy refuses ragged input).  `[]` is the empty 1-D array. -/
def toNp : WInput α → Except WErr (NpArr α)
  | .scalar v => .ok (.d1 [v])
  | .vec l => .ok (.d1 l)
  | .mat [] => .ok (.d1 [])
  | .mat (r :: rs) => if rs.all (fun r' => r'.length == r.length) then .ok (.d2 (r :: rs) r.length)
                      else .error .valueRagged

/-- `(m, q)` as the code computes them: `if len(x) == x.size: m, q = len(x), 1  else: m, q = x.shape` -/
def dims : NpArr α → Nat × Nat
  | .d1 l => (l.length, 1)
  | .d2 rows c => if rows.length == rows.length * c then (rows.length, 1) else (rows.length, c)

/-- numpy broadcasting of one axis: sizes `x` and `y` are compatible when equal or one of them is 1 -/
def bdim (x y : Nat) : Option Nat :=
  if x == y then some x else if x == 1 then some y else if y == 1 then some x else none

/-- `np.ones((n, p)) * x` with numpy's broadcasting rules (`1.0 * v = v`); result as a list of rows -/
def npMulOnes [Inhabited α] (n p : Nat) : NpArr α → Except WErr (List (List α))
  | .d1 l =>
    match bdim p l.length with
    | none => .error .valueBroadcast
    | some C => .ok ((List.range n).map fun _ => (List.range C).map fun j =>
        l.getD (if l.length == 1 then 0 else j) default)
  | .d2 rows c =>
    match bdim n rows.length, bdim p c with
    | some R, some C => .ok ((List.range R).map fun i => (List.range C).map fun j =>
        (rows.getD (if rows.length == 1 then 0 else i) []).getD (if c == 1 then 0 else j) default)
    | _, _ => .error .valueBroadcast

/-- the `x = x` branch returns the input untouched; seen as rows -/
def asRows : NpArr α → List (List α)
  | .d1 l => l.map fun v => [v]
  | .d2 rows _ => rows

/-- `BaseLoss._setWeight_or_spread(n, p, x)` — the decision tree as written -/
def setWeightOrSpread [Inhabited α] (n p : Nat) (x : WInput α) : Except WErr (List (List α)) :=
  match toNp x with
  | .error e => .error e
  | .ok arr =>
    let m := (dims arr).1
    let q := (dims arr).2
    if p == q then
      if n == m then .ok (asRows arr)
      else if m == 1 then npMulOnes n p arr
      else .error .assertObs
    else if p == m then
      if q == 1 then npMulOnes n p arr
      else .error .assertStates
    else
      if q == 1 && m == 1 then npMulOnes n p arr
      else .error .assertDiffers

/-! ### state names → columns -/

/-- `ode.get_state_index(names)`: position of every name in the model's state list (`InputError` otherwise) -/
def lookupAll (pool : List String) : List String → Except String (List Nat)
  | [] => .ok []
  | s :: rest =>
    if pool.contains s then
      match lookupAll pool rest with
      | .ok l => .ok (pool.idxOf s :: l)
      | .error e => .error e
    else .error s

def stateIndexOf (states names : List String) : Except String (List Nat) := lookupAll states names

/-- entry `(i, j)` of a list of rows (`default` out of range) -/
def entry [Inhabited α] (M : List (List α)) (i j : Nat) : α := (M.getD i []).getD j default

/-- `solution[:, idx]` -/
def selectCols [Inhabited α] (sol : List (List α)) (idx : List Nat) : List (List α) :=
  sol.map fun row => idx.map fun j => row.getD j default

/-! ### θ → parameter binding handed to the model (`_setParam`) -/

/-- what `_setParam` stores in `self._theta` and then assigns to `ode.parameters` (C09 takes over from there):
nothing (model without parameters), the whole vector positionally, or `name ↦ value` pairs -/
inductive ThetaBinding (α : Type) where
  | none
  | positional (θ : List α)
  | byName (pairs : List (String × α))
  deriving Repr, DecidableEq

/-- `BaseLoss._setParam(theta)` with `theta` already an array: with `target_param` the `i`-th value is paired
with the `i`-th supplied NAME; length mismatches are `InputError`s (an empty `theta` for a single target is
an `IndexError`) -/
def setParam (numParam : Nat) (target : Option (List String)) (theta : List α) : Except String (ThetaBinding α) :=
  if numParam == 0 then .ok .none else
  match target with
  | none => .ok (.positional theta)
  | some tp =>
    if tp.length > 1 then
      if theta.length != tp.length then .error "InputError" else .ok (.byName (tp.zip theta))
    else
      if theta.length > 1 then .error "InputError"
      else match tp, theta with
        | [t], [v] => .ok (.byName [(t, v)])
        | _, _ => .error "IndexError"

/-! ### cost composition -/

/-- `Σ_{i<n} Σ_{j<p} f i j` -/
def sum2 [Add α] [Zero α] (n p : Nat) (f : Nat → Nat → α) : α :=
  ((List.range n).map fun i => ((List.range p).map fun j => f i j).sum).sum

/-- `lossObj.loss(ŷ)`: the per-entry kernel `ker y ŷ w spread` summed over observations and observed states -/
def costOf [Add α] [Zero α] [Inhabited α] (ker : α → α → α → α → α) (n p : Nat)
    (y yhat w s : List (List α)) : α :=
  sum2 n p fun i j => ker (entry y i j) (entry yhat i j) (entry w i j) (entry s i j)

/-- `lossObj.residual(ŷ)` = `(y − ŷ) * w`, entry by entry -/
def residualOf [Sub α] [Mul α] [Inhabited α] (n p : Nat) (y yhat w : List (List α)) : List (List α) :=
  (List.range n).map fun i => (List.range p).map fun j => (entry y i j - entry yhat i j) * entry w i j

/-- the square kernel `((y − ŷ) w)²` (spread unused) -/
def squareKer [Sub α] [Mul α] (y yhat w _s : α) : α := ((y - yhat) * w) * ((y - yhat) * w)

inductive LossErr where
  | unknownState (s : String)
  | weight (e : WErr)
  | spread (e : WErr)
  deriving Repr, DecidableEq

/-- what the constructor of a loss object fixes -/
structure LossCfg (α : Type) where
  states : List String          -- the model's state list
  obsNames : List String        -- `state_name`, in the order given
  n : Nat                       -- number of observation times
  y : List (List α)             -- observations, row i ↔ time i, column j ↔ obsNames[j]
  weightIn : WInput α           -- `state_weight`
  spreadIn : Option (WInput α)  -- `sigma` / `shape` / `k` (none for Square, Poisson)

/-- `cost(θ)`: `traj` are the rows `integrateFuncJac` returned for the observation times (parameters already
bound to θ); columns are selected by name, weights / spread broadcast, kernel summed. -/
def costModel [Add α] [Zero α] [Inhabited α] (ker : α → α → α → α → α) (cfg : LossCfg α)
    (traj : List (List α)) : Except LossErr α :=
  match stateIndexOf cfg.states cfg.obsNames with
  | .error s => .error (.unknownState s)
  | .ok idx =>
    let p := cfg.obsNames.length
    match setWeightOrSpread cfg.n p cfg.weightIn with
    | .error e => .error (.weight e)
    | .ok w =>
      match cfg.spreadIn with
      | none => .ok (costOf ker cfg.n p cfg.y (selectCols traj idx) w [])
      | some sIn =>
        match setWeightOrSpread cfg.n p sIn with
        | .error e => .error (.spread e)
        | .ok s => .ok (costOf ker cfg.n p cfg.y (selectCols traj idx) w s)

end Loss
end Pygom
