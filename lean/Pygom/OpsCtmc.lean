/-
Driver ops of property C05: `finalsize` (exact SIR final-size law), `step_probs`, `first_min`.
Every number arrives as an exact rational and leaves as one.
-/
import Pygom.Ctmc
import Pygom.OpsStoch

namespace Pygom
open Lean (Json)
open Pygom.Ctmc

/-- `{"op":"finalsize","s0":n,"i0":n,"beta":"p/q","gamma":"p/q","pop":"p/q"}` -/
def opFinalSize (j : Json) : Except String Json := do
  let s0 ← (fld j "s0").getNat?
  let i0 ← (fld j "i0").getNat?
  let beta ← ratOfJson (fld j "beta")
  let gamma ← ratOfJson (fld j "gamma")
  let pop ← ratOfJson (fld j "pop")
  if s0 > 400 || i0 > 400 then throw "finalsize: population too large" else
  let m : SIR := { beta := beta, gamma := gamma, pop := pop }
  let r := finalRun m s0 i0
  pure (Json.mkObj [("pmf", ratsToJson r.2.reverse), ("susceptible_pmf", ratsToJson r.2),
                    ("alive", ratsToJson r.1), ("total", ratToJson r.2.sum)])

/-- jump probabilities `r_i/Σr` of a rate vector -/
def opStepProbs (j : Json) : Except String Json := do
  let rates ← ratsOfJson (fld j "rates")
  pure (Json.mkObj [("probs", ratsToJson (stepProbs rates)), ("total", ratToJson rates.sum)])

/-- first minimum of a list of clocks and the event it belongs to -/
def opFirstMin (j : Json) : Except String Json := do
  let rates ← ratsOfJson (fld j "rates")
  let expo ← ratsOfJson (fld j "expo")
  match firstMin expo with
  | none => pure (Json.mkObj [("k", Json.null)])
  | some (k, d) => pure (Json.mkObj [("k", (k : Nat)), ("event", (posIdx rates k : Nat)), ("dt", ratToJson d)])

def handleCtmc (op : String) (j : Json) : Option (Except String Json) :=
  match op with
  | "finalsize" => some (opFinalSize j)
  | "step_probs" => some (opStepProbs j)
  | "first_min" => some (opFirstMin j)
  | _ => none

end Pygom
