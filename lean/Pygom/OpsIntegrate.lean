/-
Driver op `integrate`: the row bookkeeping of Pygom/Integrate.lean run on the exact flow of x' = c
(rationals), with a chosen aliasing table and a controlled eigenvalue summary.
-/
import Pygom.Codec
import Pygom.Integrate

namespace Pygom
open Lean (Json)

def boolFld (j : Json) (k : String) : Except String Bool := (fld j k).getBool?

def timeArgOfJson (j : Json) : Except String (Option (TimeArg Rat)) := do
  if !(fld j "scalar").isNull then
    pure (some (.scalar (← ratOfJson (fld j "scalar"))))
  else if !(fld j "list").isNull then
    pure (some (.list (← listOfJson ratOfJson (fld j "list"))))
  else if !(fld j "none").isNull then pure none
  else pure (some .other)

def triple (j : Json) : Except String (Rat × Rat × Rat) := do
  let l ← listOfJson ratOfJson j
  match l with
  | [a, b, c] => pure (a, b, c)
  | _ => .error "eig coefficient triple expected"

def resultToJson (r : IResult (List Rat)) : Json :=
  Json.mkObj [("rows", ratMatToJson r.rows), ("in", r.method),
              ("trace", strsToJson (r.trace.map Integrator.name)),
              ("maxev", ratsToJson (r.evs.map (·.1))), ("minev", ratsToJson (r.evs.map (·.2)))]

def opIntegrate (j : Json) : Except String Json := do
  let entry ← (fld j "entry").getStr?
  let cj := fld j "cfg"
  let aj := fld cj "aliased"
  let al : List (Integrator × Bool) ← [Integrator.lsoda, .vodeAdams, .vodeBdf, .dopri5, .dop853].mapM
    (fun i => do let b ← boolFld aj i.name; pure (i, b))
  let aliased : Integrator → Bool := fun i => (al.lookup i).getD false
  let method ← optStrOfJson (fld cj "method")
  let cfg : ICfg := { aliased := aliased, copyOnRead := ← boolFld cj "copyOnRead", fullOutput := ← boolFld cj "fullOutput",
                      includeOrigin := ← boolFld cj "includeOrigin", method := method }
  let x0 ← listOfJson ratOfJson (fld j "x0")
  let t0 ← ratOfJson (fld j "t0")
  let c ← listOfJson ratOfJson (fld j "c")
  let S := linSys c (← triple (fld j "eigA")) (← triple (fld j "eigB"))
  let targ ← timeArgOfJson (fld j "t")
  let wrapErr (e : IErr) : Json := Json.mkObj [("err", e.toString)]
  match entry with
  | "integrateFuncJac" =>
    match targ with
    | none => .error "t=None is only meaningful for solve_determ"
    | some t => match integrateFuncJac S cfg x0 t0 t with
      | .ok r => pure (resultToJson r)
      | .error e => pure (wrapErr e)
  | "integrate2" =>
    match targ with
    | none => .error "t=None is only meaningful for solve_determ"
    | some t => match modelIntegrate2 S cfg.aliased cfg.copyOnRead cfg.method x0 t0 t with
      | .ok r => pure (resultToJson r)
      | .error e => pure (wrapErr e)
  | "integrate" =>
    match targ with
    | none => .error "t=None is only meaningful for solve_determ"
    | some t => match modelIntegrate S x0 t0 t with
      | .ok rows => pure (Json.mkObj [("rows", ratMatToJson rows)])
      | .error e => pure (wrapErr e)
  | "solve_determ" =>
    match solveDeterm S x0 t0 targ with
    | .ok rows => pure (Json.mkObj [("rows", ratMatToJson rows)])
    | .error e => pure (wrapErr e)
  | e => .error s!"unknown entry {e}"

def handleIntegrate (op : String) (j : Json) : Option (Except String Json) :=
  match op with
  | "integrate" => some (opIntegrate j)
  | _ => none

end Pygom
