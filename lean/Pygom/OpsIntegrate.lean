/-
Driver op `integrate`: the row bookkeeping of Pygom/Integrate.lean run on the exact flow of x' = c
(rationals), with a chosen aliasing table and a controlled eigenvalue summary.
-/
import Pygom.Codec
import Pygom.Integrate

namespace Pygom
open Lean (Json)

def boolFld (j : Json) (k : String) : Except String Bool := (fld j k).getBool?

def timeArgOfJson (j : Json) : Except String (Option (TimeArg Rat)) := do
  if !(fld j "scalar").isNull then
    pure (some (.scalar (← ratOfJson (fld j "scalar"))))
  else if !(fld j "list").isNull then
    pure (some (.list (← listOfJson ratOfJson (fld j "list"))))
  else if !(fld j "none").isNull then pure none
  else pure (some .other)

def triple (j : Json) : Except String (Rat × Rat × Rat) := do
  let l ← listOfJson ratOfJson j
  match l with
  | [a, b, c] => pure (a, b, c)
  | _ => .error "eig coefficient triple expected"

def resultToJson (r : IResult (List Rat)) : Json :=
  Json.mkObj [("rows", ratMatToJson r.rows), ("in", r.method),
              ("trace", strsToJson (r.trace.map Integrator.name)),
              ("maxev", ratsToJson (r.evs.map (·.1))), ("minev", ratsToJson (r.evs.map (·.2)))]

def opIntegrate (j : Json) : Except String Json := do
  let entry ← (fld j "entry").getStr?
  let cj := fld j "cfg"
  let aj := fld cj "aliased"
  let al : List (Integrator × Bool) ← [Integrator.lsoda, .vodeAdams, .vodeBdf, .dopri5, .dop853].mapM
    (fun i => do let b ← boolFld aj i.name; pure (i, b))
  let aliased : Integrator → Bool := fun i => (al.lookup i).getD false
  let method ← optStrOfJson (fld cj "method")
  let cfg : ICfg := { aliased := aliased, copyOnRead := ← boolFld cj "copyOnRead", fullOutput := ← boolFld cj "fullOutput",
                      includeOrigin := ← boolFld cj "includeOrigin", method := method }
  let x0 ← listOfJson ratOfJson (fld j "x0")
  let t0 ← ratOfJson (fld j "t0")
  let c ← listOfJson ratOfJson (fld j "c")
  let S := linSys c (← triple (fld j "eigA")) (← triple (fld j "eigB"))
  let targ ← timeArgOfJson (fld j "t")
  let wrapErr (e : IErr) : Json := Json.mkObj [("err", e.toString)]
  match entry with
  | "integrateFuncJac" =>
    match targ with
    | none => .error "t=None is only meaningful for solve_determ"
    | some t => match integrateFuncJac S cfg x0 t0 t with
      | .ok r => pure (resultToJson r)
      | .error e => pure (wrapErr e)
  | "integrate2" =>
    match targ with
    | none => .error "t=None is only meaningful for solve_determ"
    | some t => match modelIntegrate2 S cfg.aliased cfg.copyOnRead cfg.method x0 t0 t with
      | .ok r => pure (resultToJson r)
      | .error e => pure (wrapErr e)
  | "integrate" =>
    match targ with
    | none => .error "t=None is only meaningful for solve_determ"
    | some t => match modelIntegrate S x0 t0 t with
      | .ok rows => pure (Json.mkObj [("rows", ratMatToJson rows)])
      | .error e => pure (wrapErr e)
  | "solve_determ" =>
    match solveDeterm S x0 t0 targ with
    | .ok rows => pure (Json.mkObj [("rows", ratMatToJson rows)])
    | .error e => pure (wrapErr e)
  | e => .error s!"unknown entry {e}"

/-- one operation of a session (see `SOp`) -/
def sopOfJson (j : Json) : Except String (SOp Rat (List Rat)) := do
  let k ← (fld j "k").getStr?
  let need (t : Option (TimeArg Rat)) : Except String (TimeArg Rat) :=
    match t with
    | some t => pure t
    | none => .error "t=None is only meaningful for solve_determ"
  match k with
  | "setX0" => pure (.setX0 (← listOfJson ratOfJson (fld j "x")))
  | "setT0" => pure (.setT0 (← ratOfJson (fld j "t")))
  | "setBoth" => pure (.setBoth (← listOfJson ratOfJson (fld j "x")) (← ratOfJson (fld j "t")))
  | "integrate" => pure (.integrate (← need (← timeArgOfJson (fld j "t"))))
  | "solve_determ" => pure (.solveDeterm (← timeArgOfJson (fld j "t")))
  | "integrate2" => pure (.integrate2 (← optStrOfJson (fld j "method")) (← need (← timeArgOfJson (fld j "t"))))
  | e => .error s!"unknown session operation {e}"

/-- Driver op `session`: `runOps` on the exact flow of x' = c, from an instance holding `(x0, t0)` -/
def opSession (j : Json) : Except String Json := do
  let aj := fld j "aliased"
  let al : List (Integrator × Bool) ← [Integrator.lsoda, .vodeAdams, .vodeBdf, .dopri5, .dop853].mapM
    (fun i => do let b ← boolFld aj i.name; pure (i, b))
  let c ← listOfJson ratOfJson (fld j "c")
  let E : SEnv Rat (List Rat) :=
    { S := linSys c (← triple (fld j "eigA")) (← triple (fld j "eigB")),
      aliased := fun i => (al.lookup i).getD false, copyOnRead := ← boolFld j "copyOnRead" }
  let s0 : Inst Rat (List Rat) := { x0 := ← listOfJson ratOfJson (fld j "x0"), t0 := ← ratOfJson (fld j "t0") }
  let ops ← listOfJson sopOfJson (fld j "ops")
  let r := runOps E s0 ops
  let outJ (o : Except IErr (List (List Rat))) : Json :=
    match o with
    | .ok rows => Json.mkObj [("rows", ratMatToJson rows)]
    | .error e => Json.mkObj [("err", e.toString)]
  pure (Json.mkObj [("outputs", Json.arr (r.2.map outJ).toArray), ("x0", ratsToJson r.1.x0), ("t0", ratToJson r.1.t0),
                    ("odeTime", match r.1.odeTime with | some ts => ratsToJson ts | none => Json.null)])

def handleIntegrate (op : String) (j : Json) : Option (Except String Json) :=
  match op with
  | "integrate" => some (opIntegrate j)
  | "session" => some (opSession j)
  | _ => none

end Pygom
