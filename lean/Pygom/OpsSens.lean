/-
Driver op `layout`: run one function of `Pygom/Sens.lean` on rational arrays.

request  {"op":"layout","fn":<name>,"nS":..,"nP":..,"byState":bool, arrays...}     (rationals "p/q" or ints)
response {"out": vector or matrix}
-/
import Pygom.Codec
import Pygom.Sens

namespace Pygom
open Lean (Json)
open Sens

def vecOfJson (j : Json) : Except String (List Rat) := if j.isNull then pure [] else listOfJson ratOfJson j
def matOfJson (j : Json) : Except String (List (List Rat)) := if j.isNull then pure [] else listOfJson (listOfJson ratOfJson) j
def natFld (j : Json) (k : String) : Except String Nat := if (fld j k).isNull then pure 0 else (fld j k).getNat?
def natsOrNilOfJson (j : Json) : Except String (List Nat) := if j.isNull then pure [] else listOfJson Json.getNat? j

def outVec (n : Nat) (v : Vec Rat) : Json := Json.mkObj [("out", ratsToJson (toList n v))]
def outMat (nr nc : Nat) (M : Mat Rat) : Json := Json.mkObj [("out", ratMatToJson (toMat nr nc M))]

def opLayout (j : Json) : Except String Json := do
  let fn ← (fld j "fn").getStr?
  let nS ← natFld j "nS"
  let nP ← natFld j "nP"
  let byState := (fld j "byState").getBool?.toOption.getD false
  let V (k : String) : Except String (Vec Rat) := do pure (ofList (← vecOfJson (fld j k)))
  let M (k : String) : Except String (Mat Rat) := do pure (ofMat (← matOfJson (fld j k)))
  let lenOf (k : String) : Except String Nat := do pure (← vecOfJson (fld j k)).length
  match fn with
  | "vecToMatSens" => pure (outMat nS nP (vecToMatSens nS (← V "s")))
  | "matToVecSens" => pure (outVec (nS*nP) (matToVecSens nS (← M "S")))
  | "vecToMatFF" => pure (outMat (nS*nP) nP (vecToMatFF nP (← V "ff")))
  | "matToVecFF" => pure (outVec (nS*nP*nP) (matToVecFF nP (← M "FF")))
  | "odeAndSensitivity" =>
    pure (outVec (nS + nS*nP) (odeAndSensitivity nS nP (← V "f") (← M "J") (← M "G") (← V "z") byState))
  | "odeAndSensitivityIV" =>
    let len ← lenOf "z"
    pure (outVec len (odeAndSensitivityIV nS nP len (← V "f") (← M "J") (← M "G") (← V "z")))
  | "sensJacobianState" => pure (outMat (nS*nP) nS (sensJacobianState nS (← M "DJ") (← V "z")))
  | "odeAndSensitivityJacobian" =>
    let n := nS + nS*nP
    pure (outMat n n (odeAndSensitivityJacobian nS nP (← M "J") (← M "GJ") (← M "DJ") (← V "z") byState))
  | "odeAndSensitivityJacobianByStateRepaired" =>
    let n := nS + nS*nP
    pure (outMat n n (odeAndSensitivityJacobianByStateRepaired nS nP (← M "J") (← M "GJ") (← M "DJ") (← V "z")))
  | "odeAndSensitivityIVJacobian" =>
    let n := nS + nS*nP + nS*nS
    pure (outMat n n (odeAndSensitivityIVJacobian nS nP (← M "J") (← M "GJ") (← M "DJ") (← V "z")))
  | "evalForwardForward" =>
    pure (outMat (nS*nP) nP (evalForwardForward nS nP (← M "J") (← M "DJ") (← M "GJ") (← M "GG") (← M "FF") (← M "S")))
  | "evalForwardForwardAsFound" =>
    pure (outMat (nS*nP) nP (evalForwardForwardAsFound nS nP (← M "J") (← M "DJ") (← M "FF") (← M "S")))
  | "odeAndForwardForward" =>
    pure (outVec (nS + nS*nP + nS*nP*nP)
      (odeAndForwardForward nS nP (← V "f") (← M "J") (← M "G") (← M "DJ") (← M "GJ") (← M "GG") (← V "z")))
  | "odeAndForwardForwardAsFound" =>
    pure (outVec (nS + nS*nP + nS*nP*nP)
      (odeAndForwardForwardAsFound nS nP (← V "f") (← M "J") (← M "G") (← M "DJ") (← V "z")))
  | "sensToJtj" =>
    let sens ← matOfJson (fld j "sens")
    let numS ← natFld j "numS"
    let p := (sens.headD []).length
    let numOut := p / numS
    pure (outMat numOut numOut (sensToJtj sens.length numS (← M "w") (ofMat sens)))
  | "hessian" =>
    -- FF: one vector (row of the integrated forward-forward block) per observation
    let ffs ← listOfJson vecOfJson (fld j "ff")
    let FF : Nat → Mat Rat := fun i => vecToMatFF nP (ofList (ffs.getD i []))
    let stateIdx ← natsOrNilOfJson (fld j "stateIdx")
    let paramIdx ← natsOrNilOfJson (fld j "paramIdx")
    let q := paramIdx.length
    -- "source" = the code as it is (sign / weight of the second-order term as repaired by fix 0f0d14a, `np.add.at` over
    -- repeated observed states as repaired by fix 9e5845f); "as_found" = before both; "overwrite" = between the two
    let variant := (fld j "variant").getStr?.toOption.getD "source"
    if variant == "as_found" then
      pure (outMat q q (hessianAsFound nS nP ffs.length stateIdx paramIdx (← M "dl") FF (← M "JTJ")))
    else if variant == "overwrite" then      -- before fix 9e5845f: buffered `E[stateIndex] += ...`
      pure (outMat q q (hessianOverwrite nS nP ffs.length stateIdx paramIdx (← M "dl") (← M "w") FF (← M "JTJ")))
    else
      pure (outMat q q (hessian nS nP ffs.length stateIdx paramIdx (← M "dl") (← M "w") FF (← M "JTJ")))
  | f => .error s!"unknown layout function {f}"

def handleSens (op : String) (j : Json) : Option (Except String Json) :=
  match op with
  | "layout" => some (opLayout j)
  | _ => none

end Pygom
