/-
C18 — `fit` stays inside the box and never returns something worse than its start.
PARTIAL: the optimiser (`scipy.optimize.minimize`, L-BFGS-B) is a parameter with a stated contract.

What is proved about the code's own logic, for every number of parameters `n`:
* `box_bounds_rows`   row `i` of `np.reshape(np.append(lb, ub), (n, 2), 'F')` is `(lb[i], ub[i])`;
* `fit_in_box_partial`, `fit_contract_partial`  if the optimiser returns a point of the box it was handed, and — when the
  `sensitivity` it is handed is the gradient of `cost` (property C07, hypothesis `IsGrad cost sens`) — with objective not
  above the start's, then `fit(x, lb, ub)` returns a point with `lb ≤ r ≤ ub` and `cost r ≤ cost x`;
* `fit_at_truth_partial`  if moreover the optimiser returns its start whenever the gradient it is handed is below
  `pgtol` there (L-BFGS-B: projected-gradient test at iteration 0), `fit θ* = θ*` on noise-free data
  (`grad_zero_at_truth`: residual 0 ⇒ `diff_loss` 0 ⇒ `sens_to_grad` 0).
* `fit_contract_all_forms_partial`, `fit_lower_only_partial`, `fit_unbounded_partial`, `fit_at_truth_all_forms_partial`
  the same for every accepted form of the bounds (`lb=None`, `ub=None`, both, neither): a missing side is the all-`None`
  vector (`prepBounds_ok`) and constrains nothing;
* `box_bounds_C_counterexample`  with C order instead of 'F' the rows are NOT the pairs (the mutation).

Full statements (not provable here, L-BFGS-B is not modelled):
  -- theorem fit_contract : ∀ x lb ub inside the box, lb ≤ fit x lb ub ≤ ub ∧ cost (fit x lb ub) ≤ cost x     (scipy's L-BFGS-B)
  -- theorem fit_at_truth : fit θ* lb ub = θ*                                                                 (scipy's L-BFGS-B)
-/
import Pygom.Fit
import Mathlib.Tactic.Ring
import Mathlib.Tactic.Linarith
import Mathlib.Tactic.NormNum
import Mathlib.Algebra.Order.Ring.Rat
import Mathlib.Algebra.Order.Ring.Abs

set_option linter.unusedSimpArgs false
set_option linter.unusedVariables false
set_option linter.unnecessarySeqFocus false

namespace Pygom.C18
open Pygom.Fit

section layout
variable {α : Type} [Inhabited α]

theorem boxBounds_length (lb ub : List α) : (boxBounds lb ub).length = lb.length := by
  simp [boxBounds, reshapeF]

/-- **Bounds packing.**  For every `n = lb.length`, row `i` of the array handed to the optimiser is `(lb[i], ub[i])`. -/
theorem box_bounds_rows (lb ub : List α) (h : ub.length = lb.length) (i : Nat) (hi : i < lb.length) :
    (boxBounds lb ub).getD i [] = [lb.getD i default, ub.getD i default] := by
  have h1 : (lb ++ ub)[i]? = lb[i]? := List.getElem?_append_left hi
  have h2 : (lb ++ ub)[lb.length + i]? = ub[i]? := by
    rw [List.getElem?_append_right (by omega)]; simp
  simp [boxBounds, reshapeF, hi, List.range_succ, List.getD_eq_getElem?_getD, h1, h2]

end layout

/-- the mutation `'F'` → `'C'` (default order) is wrong already for n = 2: rows become (lb0, lb1), (ub0, ub1) -/
theorem box_bounds_C_counterexample :
    reshapeC ([1, 2] ++ [30, 40] : List Nat) 2 2 = [[1, 2], [30, 40]]
    ∧ boxBounds ([1, 2] : List Nat) [30, 40] = [[1, 30], [2, 40]] := by
  decide

/-! ### the optimiser contract -/

def lowerOK : Option Rat → Rat → Prop
  | none, _ => True
  | some l, v => l ≤ v

def upperOK : Option Rat → Rat → Prop
  | none, _ => True
  | some u, v => v ≤ u

/-- `x` is inside the box given as an `(n, 2)` array of optional bounds (the form `minimize` receives) -/
def InBox (b : List (List (Option Rat))) (x : List Rat) : Prop :=
  x.length = b.length ∧
  ∀ i, i < x.length → lowerOK ((b.getD i []).getD 0 none) (x.getD i 0) ∧ upperOK ((b.getD i []).getD 1 none) (x.getD i 0)

/-- `x` is inside `[lb, ub]` given as two vectors (the form the user supplies) -/
def Within (lb ub : List (Option Rat)) (x : List Rat) : Prop :=
  x.length = lb.length ∧ ∀ i, i < x.length → lowerOK (lb.getD i none) (x.getD i 0) ∧ upperOK (ub.getD i none) (x.getD i 0)

/-- ASSUMED of scipy's L-BFGS-B: started inside the box it returns a point of the box (whatever gradient it is handed),
and, WHEN THE FUNCTION `g` IT IS HANDED IS THE GRADIENT OF `f` (`IsGrad f g`, an abstract predicate: for a loss
object this is property C07), a point whose objective is not above the start's.  With an inconsistent gradient the
line search may end on a warning and L-BFGS-B accepts the step: observed on the real code (corpus/C18). -/
structure BoxDescent (IsGrad : (List Rat → Rat) → (List Rat → List Rat) → Prop) (m : Minimize (List Rat)) : Prop where
  in_box : ∀ (f : List Rat → Rat) (g : List Rat → List Rat) (x0 : List Rat) (b : List (List (Option Rat))),
    InBox b x0 → InBox b (m f g x0 b .lbfgsb)
  descent : ∀ (f : List Rat → Rat) (g : List Rat → List Rat) (x0 : List Rat) (b : List (List (Option Rat))),
    IsGrad f g → InBox b x0 → f (m f g x0 b .lbfgsb) ≤ f x0

/-- ASSUMED of scipy's L-BFGS-B: if every component of the gradient it is handed at the start is at most `pgtol`
in absolute value (default 1e-5), it returns the start (the projected-gradient test `‖proj g‖∞ ≤ pgtol` holds before the
first iteration). -/
def StopsAtStationary (pgtol : Rat) (m : Minimize (List Rat)) : Prop :=
  ∀ (f : List Rat → Rat) (g : List Rat → List Rat) (x0 : List Rat) (b : List (List (Option Rat))),
    (∀ v ∈ g x0, |v| ≤ pgtol) → m f g x0 b .lbfgsb = x0

theorem inBox_boxBounds_iff (lb ub : List (Option Rat)) (h : ub.length = lb.length) (x : List Rat) :
    InBox (boxBounds lb ub) x ↔ Within lb ub x := by
  have hd : (default : Option Rat) = none := rfl
  unfold InBox Within
  rw [boxBounds_length]
  constructor
  · rintro ⟨hl, hb⟩
    refine ⟨hl, fun i hi => ?_⟩
    have := hb i hi
    rw [box_bounds_rows lb ub h i (by omega)] at this
    simpa [hd] using this
  · rintro ⟨hl, hb⟩
    refine ⟨hl, fun i hi => ?_⟩
    rw [box_bounds_rows lb ub h i (by omega)]
    simpa [hd] using hb i hi

/-- **fit stays in the box** (partial: `BoxDescent.in_box` is assumed of the optimiser; no assumption on the gradient). -/
theorem fit_in_box_partial (IsGrad : (List Rat → Rat) → (List Rat → List Rat) → Prop)
    (m : Minimize (List Rat)) (hm : BoxDescent IsGrad m)
    (cost : List Rat → Rat) (sens : List Rat → List Rat)
    (x : List Rat) (lb ub : List (Option Rat)) (hl : lb.length = x.length) (hu : ub.length = x.length)
    (hx : Within lb ub x) :
    ∃ r, fit m cost sens x (some lb) (some ub) = .ok r ∧ Within lb ub r := by
  have hb : InBox (boxBounds lb ub) x := (inBox_boxBounds_iff lb ub (by omega) x).2 hx
  refine ⟨m cost sens x (boxBounds lb ub) .lbfgsb, ?_, ?_⟩
  · simp [fit, prepBounds, hl, hu, chooseMethod]
  · exact (inBox_boxBounds_iff lb ub (by omega) _).1 (hm.in_box _ _ _ _ hb)

/-- **fit stays in the box and does not get worse** (partial: `BoxDescent` is assumed of the optimiser, and
`hg : IsGrad cost sens` — the `sensitivity` handed to it is the gradient of `cost` — is property C07). -/
theorem fit_contract_partial (IsGrad : (List Rat → Rat) → (List Rat → List Rat) → Prop)
    (m : Minimize (List Rat)) (hm : BoxDescent IsGrad m)
    (cost : List Rat → Rat) (sens : List Rat → List Rat) (hg : IsGrad cost sens)
    (x : List Rat) (lb ub : List (Option Rat)) (hl : lb.length = x.length) (hu : ub.length = x.length)
    (hx : Within lb ub x) :
    ∃ r, fit m cost sens x (some lb) (some ub) = .ok r ∧ Within lb ub r ∧ cost r ≤ cost x := by
  have hb : InBox (boxBounds lb ub) x := (inBox_boxBounds_iff lb ub (by omega) x).2 hx
  refine ⟨m cost sens x (boxBounds lb ub) .lbfgsb, ?_, ?_, hm.descent _ _ _ _ hg hb⟩
  · simp [fit, prepBounds, hl, hu, chooseMethod]
  · exact (inBox_boxBounds_iff lb ub (by omega) _).1 (hm.in_box _ _ _ _ hb)

/-- mismatched bound vectors are rejected before the optimiser is called -/
theorem fit_rejects_bad_lengths (m : Minimize (List Rat)) (cost : List Rat → Rat) (sens : List Rat → List Rat)
    (x : List Rat) (lb ub : List (Option Rat)) (h : lb.length ≠ ub.length ∨ lb.length ≠ x.length) :
    fit m cost sens x (some lb) (some ub) = .error .inputError := by
  unfold fit prepBounds
  rcases h with h | h
  · simp [h]
  · by_cases h' : lb.length = ub.length
    · have h2 : ub.length ≠ x.length := by omega
      simp [h2, h']
    · simp [h']

/-! ### gradient at the truth -/

/-- `sens_to_grad` for one observed state: `grad_j = Σ_i diff_loss_i · sens_{i j}` -/
def sensToGrad (diffLoss : List Rat) (sens : List (List Rat)) (nOut : Nat) : List Rat :=
  (List.range nOut).map fun j => ((diffLoss.zip sens).map fun p => p.1 * p.2.getD j 0).sum

/-- `Square.diff_loss` : `-2 · (y − ŷ) · w` per observation -/
def squareDiffLoss (y yhat w : List Rat) : List Rat :=
  (y.zip (yhat.zip w)).map fun p => -2 * (p.1 - p.2.1) * p.2.2

theorem squareDiffLoss_zero_at_truth (y w : List Rat) : ∀ d ∈ squareDiffLoss y y w, d = 0 := by
  intro d hd
  simp only [squareDiffLoss, List.mem_map] at hd
  obtain ⟨p, hp, rfl⟩ := hd
  have h1 : p.1 = p.2.1 := by
    have := List.of_mem_zip hp
    induction y generalizing w p with
    | nil => simp at hp
    | cons a t ih =>
      cases w with
      | nil => simp at hp
      | cons b u =>
        simp only [List.zip_cons_cons, List.mem_cons] at hp
        rcases hp with rfl | hp
        · rfl
        · exact ih u p hp (List.of_mem_zip hp)
  rw [h1]; ring

theorem sum_zero_of_all_zero (l : List Rat) (h : ∀ v ∈ l, v = 0) : l.sum = 0 := by
  induction l with
  | nil => rfl
  | cons a t ih =>
    rw [List.sum_cons, h a (by simp), ih (fun v hv => h v (by simp [hv]))]; ring

/-- residual 0 at every observation ⇒ the gradient handed to the optimiser is 0 -/
theorem grad_zero_at_truth (diffLoss : List Rat) (sens : List (List Rat)) (nOut : Nat)
    (h : ∀ d ∈ diffLoss, d = 0) : ∀ v ∈ sensToGrad diffLoss sens nOut, v = 0 := by
  intro v hv
  simp only [sensToGrad, List.mem_map] at hv
  obtain ⟨j, _, rfl⟩ := hv
  apply sum_zero_of_all_zero
  intro v hv
  simp only [List.mem_map] at hv
  obtain ⟨p, hp, rfl⟩ := hv
  rw [h p.1 (List.of_mem_zip hp).1]; ring

/-- **fit started at the generating parameters of noise-free data returns them** (partial: `StopsAtStationary`
is assumed of the optimiser; `hgrad` is discharged by `grad_zero_at_truth` + `squareDiffLoss_zero_at_truth`, see
`fit_at_truth_of_zero_residual`). -/
theorem fit_at_truth_partial (pgtol : Rat) (m : Minimize (List Rat)) (hs : StopsAtStationary pgtol m)
    (cost : List Rat → Rat) (sens : List Rat → List Rat)
    (θ : List Rat) (lb ub : List (Option Rat)) (hl : lb.length = θ.length) (hu : ub.length = θ.length)
    (hgrad : ∀ v ∈ sens θ, |v| ≤ pgtol) :
    fit m cost sens θ (some lb) (some ub) = .ok θ := by
  simp [fit, prepBounds, hl, hu, chooseMethod, hs cost sens θ _ hgrad]

/-- the same with the gradient spelled out: `sens θ* = sens_to_grad(diff_loss, S)` and every `diff_loss` entry is 0
(the model trajectory at `θ*` reproduces the data) -/
theorem fit_at_truth_of_zero_residual (pgtol : Rat) (hp : 0 ≤ pgtol) (m : Minimize (List Rat)) (hs : StopsAtStationary pgtol m)
    (cost : List Rat → Rat) (sens : List Rat → List Rat)
    (θ : List Rat) (lb ub : List (Option Rat)) (hl : lb.length = θ.length) (hu : ub.length = θ.length)
    (diffLoss : List Rat) (S : List (List Rat)) (hsens : sens θ = sensToGrad diffLoss S θ.length)
    (hres : ∀ d ∈ diffLoss, d = 0) :
    fit m cost sens θ (some lb) (some ub) = .ok θ := by
  apply fit_at_truth_partial pgtol m hs cost sens θ lb ub hl hu
  intro v hv
  rw [hsens] at hv
  rw [grad_zero_at_truth diffLoss S θ.length hres v hv]
  simpa using hp

/-! ### every accepted form of the bounds (`lb=None`, `ub=None`, both, neither) -/

/-- the bound vector the code works with: the one supplied, or `np.array([None]*len(x))` -/
def effBounds (n : Nat) (b : Option (List (Option Rat))) : List (Option Rat) :=
  b.getD (List.replicate n none)

theorem effBounds_length (n : Nat) (b : Option (List (Option Rat))) (h : ∀ l, b = some l → l.length = n) :
    (effBounds n b).length = n := by
  cases b with
  | none => simp [effBounds]
  | some l => simpa [effBounds] using h l rfl

/-- with every supplied side of the right length, the preprocessing yields the effective vectors, whatever sides are
missing (no error path is taken) -/
theorem prepBounds_ok (n : Nat) (lb ub : Option (List (Option Rat)))
    (hl : ∀ l, lb = some l → l.length = n) (hu : ∀ u, ub = some u → u.length = n) :
    prepBounds n lb ub = .ok (effBounds n lb, effBounds n ub) := by
  cases lb with
  | none => cases ub <;> simp [prepBounds, effBounds]
  | some l =>
    cases ub with
    | none => simp [prepBounds, effBounds]
    | some u =>
      have h1 := hl l rfl
      have h2 := hu u rfl
      simp [prepBounds, effBounds, h1, h2]

/-- a side that was not supplied constrains nothing -/
theorem lowerOK_replicate_none (n i : Nat) (v : Rat) : lowerOK ((List.replicate n (none : Option Rat)).getD i none) v := by
  have : (List.replicate n (none : Option Rat)).getD i none = none := by
    rw [List.getD_eq_getElem?_getD]
    by_cases h : i < n <;> simp [h]
  rw [this]; trivial

theorem upperOK_replicate_none (n i : Nat) (v : Rat) : upperOK ((List.replicate n (none : Option Rat)).getD i none) v := by
  have : (List.replicate n (none : Option Rat)).getD i none = none := by
    rw [List.getD_eq_getElem?_getD]
    by_cases h : i < n <;> simp [h]
  rw [this]; trivial

/-- **fit stays in the box and does not get worse, for every accepted form of `lb` / `ub`** (partial: `BoxDescent`
assumed of the optimiser, `hg` is property C07).  A missing side is the all-`None` vector: the statement then says
nothing about that side, which is what the code does (scipy receives `None` entries there). -/
theorem fit_contract_all_forms_partial (IsGrad : (List Rat → Rat) → (List Rat → List Rat) → Prop)
    (m : Minimize (List Rat)) (hm : BoxDescent IsGrad m)
    (cost : List Rat → Rat) (sens : List Rat → List Rat) (hg : IsGrad cost sens)
    (x : List Rat) (lb ub : Option (List (Option Rat)))
    (hl : ∀ l, lb = some l → l.length = x.length) (hu : ∀ u, ub = some u → u.length = x.length)
    (hx : Within (effBounds x.length lb) (effBounds x.length ub) x) :
    ∃ r, fit m cost sens x lb ub = .ok r
      ∧ Within (effBounds x.length lb) (effBounds x.length ub) r ∧ cost r ≤ cost x := by
  have e1 := effBounds_length x.length lb hl
  have e2 := effBounds_length x.length ub hu
  have hb : InBox (boxBounds (effBounds x.length lb) (effBounds x.length ub)) x :=
    (inBox_boxBounds_iff _ _ (by omega) x).2 hx
  refine ⟨m cost sens x (boxBounds (effBounds x.length lb) (effBounds x.length ub)) .lbfgsb, ?_, ?_,
    hm.descent _ _ _ _ hg hb⟩
  · simp [fit, prepBounds_ok x.length lb ub hl hu, chooseMethod]
  · exact (inBox_boxBounds_iff _ _ (by omega) _).1 (hm.in_box _ _ _ _ hb)

/-- **only a lower bound** (`fit(x, lb)`): the estimate keeps `lb ≤ r` and the cost does not get worse -/
theorem fit_lower_only_partial (IsGrad : (List Rat → Rat) → (List Rat → List Rat) → Prop)
    (m : Minimize (List Rat)) (hm : BoxDescent IsGrad m)
    (cost : List Rat → Rat) (sens : List Rat → List Rat) (hg : IsGrad cost sens)
    (x : List Rat) (lb : List (Option Rat)) (hl : lb.length = x.length)
    (hx : ∀ i, i < x.length → lowerOK (lb.getD i none) (x.getD i 0)) :
    ∃ r, fit m cost sens x (some lb) none = .ok r ∧ r.length = x.length
      ∧ (∀ i, i < r.length → lowerOK (lb.getD i none) (r.getD i 0)) ∧ cost r ≤ cost x := by
  have hW : Within (effBounds x.length (some lb)) (effBounds x.length none) x :=
    ⟨by simp [effBounds, hl], fun i hi => ⟨by simpa [effBounds] using hx i hi,
      by simpa [effBounds] using upperOK_replicate_none x.length i _⟩⟩
  obtain ⟨r, hr, hw, hc⟩ := fit_contract_all_forms_partial IsGrad m hm cost sens hg x (some lb) none
    (fun l h => by cases h; exact hl) (fun u h => by cases h) hW
  refine ⟨r, hr, ?_, fun i hi => ?_, hc⟩
  · have := hw.1; simp [effBounds] at this; omega
  · simpa [effBounds] using (hw.2 i hi).1

/-- **no bounds at all** (`fit(x)`): the packing is the all-`None` array, nothing is rejected, and the cost does not get
worse (the estimate is unconstrained: negative rates are possible, which is why the doc-string recommends a box) -/
theorem fit_unbounded_partial (IsGrad : (List Rat → Rat) → (List Rat → List Rat) → Prop)
    (m : Minimize (List Rat)) (hm : BoxDescent IsGrad m)
    (cost : List Rat → Rat) (sens : List Rat → List Rat) (hg : IsGrad cost sens) (x : List Rat) :
    ∃ r, fit m cost sens x none none = .ok r ∧ r.length = x.length ∧ cost r ≤ cost x := by
  have hW : Within (effBounds x.length none) (effBounds x.length none) x :=
    ⟨by simp [effBounds], fun i hi => ⟨by simpa [effBounds] using lowerOK_replicate_none x.length i _,
      by simpa [effBounds] using upperOK_replicate_none x.length i _⟩⟩
  obtain ⟨r, hr, hw, hc⟩ := fit_contract_all_forms_partial IsGrad m hm cost sens hg x none none
    (fun l h => by cases h) (fun u h => by cases h) hW
  exact ⟨r, hr, by have := hw.1; simpa [effBounds] using this, hc⟩

/-- the truth is returned for every form of the bounds as well -/
theorem fit_at_truth_all_forms_partial (pgtol : Rat) (m : Minimize (List Rat)) (hs : StopsAtStationary pgtol m)
    (cost : List Rat → Rat) (sens : List Rat → List Rat)
    (θ : List Rat) (lb ub : Option (List (Option Rat)))
    (hl : ∀ l, lb = some l → l.length = θ.length) (hu : ∀ u, ub = some u → u.length = θ.length)
    (hgrad : ∀ v ∈ sens θ, |v| ≤ pgtol) :
    fit m cost sens θ lb ub = .ok θ := by
  simp [fit, prepBounds_ok θ.length lb ub hl hu, chooseMethod, hs cost sens θ _ hgrad]

/-- non-vacuity: a start above a one-sided lower bound -/
example : ∀ i, i < [1, 3].length → lowerOK ([some (0 : Rat), none].getD i none) (([1, 3] : List Rat).getD i 0) := by
  intro i hi
  have : i = 0 ∨ i = 1 := by simp at hi; omega
  rcases this with rfl | rfl <;> simp [lowerOK]

/-! ### non-vacuity -/

/-- the contract is satisfiable: the optimiser that returns its start -/
example : BoxDescent (fun _ _ => True) (fun _ _ x0 _ _ => x0) ∧ StopsAtStationary (1 / 100000) (fun _ _ x0 _ _ => x0) :=
  ⟨⟨fun _ _ _ _ h => h, fun _ _ _ _ _ _ => le_refl _⟩, fun _ _ _ _ _ => rfl⟩

/-- a concrete start inside a concrete (half-open) box, and the packed array the optimiser gets for it -/
example : Within [some 0, none] [some 2, some 5] [1, 3] := by
  refine ⟨rfl, fun i hi => ?_⟩
  have : i = 0 ∨ i = 1 := by simp at hi; omega
  rcases this with rfl | rfl <;> simp [lowerOK, upperOK] <;> norm_num

example : boxBounds [some (0 : Rat), none] [some 2, some 5] = [[some 0, some 2], [none, some 5]] := by
  simp [boxBounds, reshapeF, List.range_succ]

end Pygom.C18
