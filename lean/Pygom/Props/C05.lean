/-
C05 — exact stochastic simulation samples the continuous-time Markov chain's law.

The claim splits into
 (1) the sampler: `rexp(1, r)` = (standard exponential variate) × (1/r) is `Exp(rate r)`        — `exp_scale`;
 (2) the step of the first-reaction method as the code has it (`Stoch.firstReaction`: one clock per positive-rate
     event, `np.argmin`, time advances by the winning clock) picks the FIRST MINIMUM of its draws and advances time
     by it                                                           — `model_step_is_first_min`, `model_step_time`;
 (3) for independent clocks `τ_i ~ Exp(r_i)`: the waiting time is `Exp(Σ r)` (`min_of_indep_exp`), clock `i` is first
     with probability `r_i/Σr` (`first_clock`), jointly and independently (`step_law`), and the pair
     (event chosen by the model's `firstMin`, time advance) has exactly that law (`model_step_law`);
 (4) the embedded jump chain with those probabilities: `stepProbs_sum_to_one`, and the exact SIR final-size law
     `finalSizePMF` (served by the driver op `finalsize`) is a probability vector (`finalSizePMF_sums_to_one`).

Assumed (not provable here): numpy's `standard_exponential` produces independent `Exp(1)` variates; floats are
treated as reals (`firstMin_cast`: the model's choice on rational draws is the choice on the same numbers as reals).
The composition of steps into the law of whole paths (strong Markov property) is the standard construction of a CTMC
from its jump chain and holding times and is not formalised; it is what the end-to-end statistical oracle checks.
-/
import Pygom.Lemmas.Clocks
import Pygom.Lemmas.Ctmc

set_option linter.unusedSimpArgs false
set_option linter.unusedVariables false

namespace Pygom.C05
open MeasureTheory ProbabilityTheory Set ENNReal
open Pygom.Clocks Pygom.Ctmc Pygom.Stoch

/-! ### (3) independent exponential clocks -/

/-- **min_of_indep_exp.**  The waiting time to the first of finitely many independent exponential clocks is
exponential with the total rate: `P(∀ i, τ i > s) = exp(−(Σ r)·s)`. -/
theorem min_of_indep_exp {Ω : Type*} [MeasurableSpace Ω] (μ : Measure Ω) [IsProbabilityMeasure μ]
    {ι : Type*} [Fintype ι] (τ : ι → Ω → ℝ) (r : ι → ℝ) (hr : ∀ i, 0 < r i)
    (hm : ∀ i, Measurable (τ i)) (hind : iIndepFun τ μ)
    (hlaw : ∀ i, μ.map (τ i) = expMeasure (r i)) (s : ℝ) (hs : 0 ≤ s) :
    μ {ω | ∀ i, s < τ i ω} = ENNReal.ofReal (Real.exp (-((∑ i, r i) * s))) := by
  have hset : {ω | ∀ i, s < τ i ω} = ⋂ i, (τ i) ⁻¹' (Ioi s) := by ext ω; simp
  rw [hset, hind.meas_iInter (fun i => ⟨Ioi s, measurableSet_Ioi, rfl⟩)]
  simp_rw [fun i => clock_surv μ (τ i) (hr i) (hm i) (hlaw i) hs]
  rw [← ENNReal.ofReal_prod_of_nonneg (fun i _ => (Real.exp_pos _).le), ← Real.exp_sum]
  congr 2
  rw [Finset.sum_mul, Finset.sum_neg_distrib]

/-- **first_clock.**  Clock `i` fires strictly before all the others with probability `r i / Σ r` (any number of
clocks): the event is chosen with probability proportional to its rate. -/
theorem first_clock {Ω : Type*} [MeasurableSpace Ω] (μ : Measure Ω) [IsProbabilityMeasure μ]
    {ι : Type*} [Fintype ι] [DecidableEq ι] (τ : ι → Ω → ℝ) (r : ι → ℝ) (hr : ∀ i, 0 < r i)
    (hm : ∀ i, Measurable (τ i)) (hind : iIndepFun τ μ)
    (hlaw : ∀ i, μ.map (τ i) = expMeasure (r i)) (i : ι) :
    μ {ω | ∀ j, j ≠ i → τ i ω < τ j ω} = ENNReal.ofReal (r i / ∑ j, r j) := by
  have hpos : 0 < ∑ j, r j := Finset.sum_pos (fun j _ => hr j) ⟨i, Finset.mem_univ i⟩
  have := isProbabilityMeasure_expMeasure hpos
  have h := first_clock_in μ τ r hr hm hind hlaw i univ MeasurableSet.univ
  rw [measure_univ, mul_one] at h
  rw [← h]; congr 1; ext ω; simp

/-- **step_law.**  Joint law of one step: clock `i` is strictly first AND the waiting time exceeds `s` with
probability `(r i/Σr)·exp(−Σr·s)` — the product of the two marginals: which event fires and when are independent. -/
theorem step_law {Ω : Type*} [MeasurableSpace Ω] (μ : Measure Ω) [IsProbabilityMeasure μ]
    {ι : Type*} [Fintype ι] [DecidableEq ι] (τ : ι → Ω → ℝ) (r : ι → ℝ) (hr : ∀ i, 0 < r i)
    (hm : ∀ i, Measurable (τ i)) (hind : iIndepFun τ μ)
    (hlaw : ∀ i, μ.map (τ i) = expMeasure (r i)) (i : ι) (s : ℝ) (hs : 0 ≤ s) :
    μ {ω | s < τ i ω ∧ ∀ j, j ≠ i → τ i ω < τ j ω}
      = ENNReal.ofReal (r i / (∑ j, r j) * Real.exp (-((∑ j, r j) * s))) := by
  have hpos : 0 < ∑ j, r j := Finset.sum_pos (fun j _ => hr j) ⟨i, Finset.mem_univ i⟩
  have h := first_clock_in μ τ r hr hm hind hlaw i (Ioi s) measurableSet_Ioi
  rw [expMeasure_Ioi hpos hs, ← ENNReal.ofReal_mul (div_nonneg (hr i).le hpos.le)] at h
  rw [← h]; rfl

/-! ### (1) the sampler -/

/-- **exp_scale.**  If `E ~ Exp(1)` and `r > 0` then `E / r ~ Exp(rate r)`: numpy's
`exponential(scale = 1/rate)` (= `standard_exponential() * scale`) as called by `rexp(n, rate)` has rate `rate`. -/
theorem exp_scale {Ω : Type*} [MeasurableSpace Ω] (μ : Measure Ω) [IsProbabilityMeasure μ]
    (E : Ω → ℝ) (hE : Measurable E) (hlaw : μ.map E = expMeasure 1) {r : ℝ} (hr : 0 < r) :
    μ.map (fun ω => E ω / r) = expMeasure r := by
  have hdiv : Measurable (fun x : ℝ => x / r) := measurable_id.div_const r
  have hcomp : μ.map (fun ω => E ω / r) = (μ.map E).map (fun x : ℝ => x / r) := by
    rw [Measure.map_map hdiv hE]; rfl
  rw [hcomp, hlaw]
  have h1 := isProbabilityMeasure_expMeasure (one_pos : (0 : ℝ) < 1)
  have hr' := isProbabilityMeasure_expMeasure hr
  have hmapP : IsProbabilityMeasure ((expMeasure 1).map (fun x : ℝ => x / r)) :=
    Measure.isProbabilityMeasure_map hdiv.aemeasurable
  refine Measure.ext_of_Iic _ _ (fun a => ?_)
  rw [Measure.map_apply hdiv measurableSet_Iic]
  have hpre : (fun x : ℝ => x / r) ⁻¹' Iic a = Iic (a * r) := by
    ext x; simp only [mem_preimage, mem_Iic]; exact div_le_iff₀ hr
  rw [hpre, ← ofReal_cdf, ← ofReal_cdf, cdf_expMeasure_eq one_pos, cdf_expMeasure_eq hr]
  by_cases ha : 0 ≤ a
  · rw [if_pos (mul_nonneg ha hr.le), if_pos ha]; congr 3; ring
  · rw [if_neg ha, if_neg]
    intro h; exact ha (nonneg_of_mul_nonneg_left h hr)

/-- the same with the multiplication numpy performs: `E * (1/r)` -/
theorem exp_scale_mul {Ω : Type*} [MeasurableSpace Ω] (μ : Measure Ω) [IsProbabilityMeasure μ]
    (E : Ω → ℝ) (hE : Measurable E) (hlaw : μ.map E = expMeasure 1) {r : ℝ} (hr : 0 < r) :
    μ.map (fun ω => E ω * (1 / r)) = expMeasure r := by
  have : (fun ω => E ω * (1 / r)) = (fun ω => E ω / r) := by funext ω; ring
  rw [this]; exact exp_scale μ E hE hlaw hr

/-! ### (2) the step of the first-reaction method, as modelled in `Pygom/Stoch.lean` -/

/-- **model_step_is_first_min.**  Given one draw per positive-rate event (what `_newJumpTimes` consumes) and at
least one such event, `firstReaction` reaches `_checkJump` with: chosen event = the event (`posIdx`) owning the
FIRST MINIMUM (`firstMin`, i.e. `np.argmin`) of the drawn clocks, one-hot counts for that event, and waiting time
`dt` = that minimum. -/
theorem model_step_is_first_min (cols : List Vec) (rates : List Rat) (lims : List Lim) (x : Vec) (t : Rat)
    (expo : List Rat) (hlen : expo.length = nPositive rates) (hpos : 0 < nPositive rates) :
    ∃ k d, firstMin expo = some (k, d) ∧ k < nPositive rates ∧
      firstReaction cols rates lims x t expo
        = .checked (checkJump x (updateStateWithJump x cols (posIdx rates k) 1) lims t d
            (onehot rates.length (posIdx rates k))) := by
  obtain ⟨jt, hjt, harg⟩ := argminOpt_newJumpTimes rates expo hlen
  have hne : expo ≠ [] := by
    intro h; rw [h] at hlen; simp at hlen; omega
  cases hf : firstMin expo with
  | none => exact absurd (firstMin_eq_none.mp hf) hne
  | some p =>
    obtain ⟨k, d⟩ := p
    have hk : k < nPositive rates := by
      have h0 := (firstMin_spec hf).1
      rw [← hlen]
      by_contra hge
      rw [List.getElem?_eq_none (by omega)] at h0
      simp at h0
    refine ⟨k, d, rfl, hk, ?_⟩
    rw [hf] at harg
    simp only [Option.map_some] at harg
    simp [firstReaction, allZero_false_of_nPositive hpos, hjt, harg]

/-- the chosen event is the `k`-th positive-rate event, it can fire, and the clocks of the model are in one-to-one,
order-preserving correspondence with the positive-rate events -/
theorem chosen_event_can_fire (rates : List Rat) (k : Nat) (hk : k < nPositive rates) :
    posIdx rates k < rates.length ∧ (∃ rk, rates[posIdx rates k]? = some rk ∧ 0 < rk) ∧
      nPositive (rates.take (posIdx rates k)) = k := posIdx_spec rates k hk

/-- **model_step_time.**  An accepted step advances time by exactly the winning clock (`t_new = t + dt`), a rejected
one leaves `(x, t)` unchanged. -/
theorem model_step_time (x xNew : Vec) (lims : List Lim) (t d : Rat) (counts : List Nat) :
    ((checkJump x xNew lims t d counts).success = true →
        (checkJump x xNew lims t d counts).t = t + d ∧ (checkJump x xNew lims t d counts).dt = d ∧
        (checkJump x xNew lims t d counts).x = xNew) ∧
    ((checkJump x xNew lims t d counts).success = false →
        (checkJump x xNew lims t d counts).t = t ∧ (checkJump x xNew lims t d counts).x = x) := by
  unfold checkJump; split <;> simp

/-- **first_min_iff.**  `firstMin l = (k, a)` exactly when `a = l[k]` is minimal and strictly below every earlier
entry (first argmin) — over any linear order. -/
theorem first_min_iff {α : Type} [LinearOrder α] [DecidableLE α] {l : List α} {k : Nat} {a : α} :
    firstMin l = some (k, a) ↔
      l[k]? = some a ∧ (∀ (j : Nat) (b : α), l[j]? = some b → a ≤ b) ∧
        (∀ (j : Nat) (b : α), j < k → l[j]? = some b → a < b) := firstMin_iff

/-- **firstMin_cast.**  The model's choice on rational draws is the choice on the same numbers seen as reals. -/
theorem firstMin_cast [DecidableLE ℝ] (l : List Rat) :
    firstMin (l.map (fun q : Rat => (q : ℝ))) = (firstMin l).map (fun p => (p.1, (p.2 : ℝ))) :=
  firstMin_map (fun q : Rat => (q : ℝ)) Rat.cast_strictMono l

/-! ### (3) continued: the law of the modelled step -/

/-- **model_step_law.**  Let the `n` clocks be independent with `τ j ~ Exp(r j)`, `r j > 0`.  The event chosen by
the model (`firstMin` of the drawn clocks, ties resolved like `np.argmin`) is `i`, and the time advance exceeds `s`,
with probability `(r i/Σr)·exp(−Σr·s)`:  the pair (chosen event, dt) of the modelled step has the law of one step
of the continuous-time Markov chain — event `i` with probability `r i/Σr`, independent holding time `Exp(Σr)`. -/
theorem model_step_law {Ω : Type*} [MeasurableSpace Ω] (μ : Measure Ω) [IsProbabilityMeasure μ] [DecidableLE ℝ]
    {n : Nat} (τ : Fin n → Ω → ℝ) (r : Fin n → ℝ) (hr : ∀ i, 0 < r i)
    (hm : ∀ i, Measurable (τ i)) (hind : iIndepFun τ μ)
    (hlaw : ∀ i, μ.map (τ i) = expMeasure (r i)) (i : Fin n) (s : ℝ) (hs : 0 ≤ s) :
    μ {ω | ∃ d, firstMin (List.ofFn (fun j => τ j ω)) = some (i.val, d) ∧ s < d}
      = ENNReal.ofReal (r i / (∑ j, r j) * Real.exp (-((∑ j, r j) * s))) := by
  classical
  have hpos : 0 < ∑ j, r j := Finset.sum_pos (fun j _ => hr j) ⟨i, Finset.mem_univ i⟩
  -- the event "the model picks i and dt > s" in terms of comparisons
  let E : Fin n → Set Ω := fun i => {ω | s < τ i ω ∧ (∀ j, τ i ω ≤ τ j ω) ∧ (∀ j, j < i → τ i ω < τ j ω)}
  have hE : ∀ i : Fin n, {ω | ∃ d, firstMin (List.ofFn (fun j => τ j ω)) = some (i.val, d) ∧ s < d} = E i := by
    intro i; ext ω
    simp only [E, Set.mem_ofPred_eq]
    constructor
    · rintro ⟨d, hf, hsd⟩
      obtain ⟨h0, h1, h2⟩ := firstMin_spec hf
      rw [ofFn_get (fun j => τ j ω) i] at h0
      simp only [Option.some.injEq] at h0
      subst h0
      exact ⟨hsd, fun j => h1 j.val _ (ofFn_get _ j), fun j hj => h2 j.val _ hj (ofFn_get _ j)⟩
    · rintro ⟨hsd, h1, h2⟩
      refine ⟨τ i ω, firstMin_iff.mpr ⟨ofFn_get _ i, ?_, ?_⟩, hsd⟩
      · intro j b hj
        obtain ⟨hjn, rfl⟩ := ofFn_get_some _ j b hj
        exact h1 ⟨j, hjn⟩
      · intro j b hji hj
        obtain ⟨hjn, rfl⟩ := ofFn_get_some _ j b hj
        exact h2 ⟨j, hjn⟩ hji
  rw [hE i]
  have hEm : ∀ i, MeasurableSet (E i) := by
    intro i
    have : E i = (τ i ⁻¹' Ioi s) ∩ (⋂ j, {ω | τ i ω ≤ τ j ω}) ∩ (⋂ j, ⋂ (_ : j < i), {ω | τ i ω < τ j ω}) := by
      ext ω; simp [E, and_assoc]
    rw [this]
    refine ((hm i measurableSet_Ioi).inter (MeasurableSet.iInter fun j => measurableSet_le (hm i) (hm j))).inter
      (MeasurableSet.iInter fun j => MeasurableSet.iInter fun _ => measurableSet_lt (hm i) (hm j))
  -- strictly first ⊆ picked
  let c : Fin n → ℝ≥0∞ := fun i => ENNReal.ofReal (r i / (∑ j, r j) * Real.exp (-((∑ j, r j) * s)))
  have hlow : ∀ i, c i ≤ μ (E i) := by
    intro i
    change ENNReal.ofReal (r i / (∑ j, r j) * Real.exp (-((∑ j, r j) * s))) ≤ μ (E i)
    rw [← step_law μ τ r hr hm hind hlaw i s hs]
    apply measure_mono
    rintro ω ⟨hsd, hlt⟩
    refine ⟨hsd, fun j => ?_, fun j hj => hlt j (ne_of_lt hj)⟩
    by_cases hji : j = i
    · rw [hji]
    · exact (hlt j hji).le
  -- the events are disjoint and lie inside "every clock exceeds s"
  have hdisj : Pairwise (Function.onFun Disjoint E) := by
    intro a b hab
    rw [Function.onFun, Set.disjoint_left]
    rintro ω ⟨_, ha1, ha2⟩ ⟨_, hb1, hb2⟩
    rcases lt_or_gt_of_ne hab with h | h
    · exact absurd (hb2 a h) (not_lt.mpr (ha1 b))
    · exact absurd (ha2 b h) (not_lt.mpr (hb1 a))
  have hsub : (⋃ i, E i) ⊆ {ω | ∀ j, s < τ j ω} := by
    intro ω hω
    obtain ⟨a, hsa, ha1, _⟩ := Set.mem_iUnion.mp hω
    exact fun j => lt_of_lt_of_le hsa (ha1 j)
  have hsumE : ∑ i, μ (E i) ≤ ENNReal.ofReal (Real.exp (-((∑ j, r j) * s))) := by
    have hU : μ (⋃ i, E i) = ∑ i, μ (E i) := by
      rw [measure_iUnion hdisj hEm, tsum_fintype]
    rw [← hU, ← min_of_indep_exp μ τ r hr hm hind hlaw s hs]
    exact measure_mono hsub
  have hsumc : ∑ i, c i = ENNReal.ofReal (Real.exp (-((∑ j, r j) * s))) := by
    simp only [c]
    rw [← ENNReal.ofReal_sum_of_nonneg (fun j _ => mul_nonneg (div_nonneg (hr j).le hpos.le) (Real.exp_pos _).le)]
    congr 1
    rw [← Finset.sum_mul, ← Finset.sum_div, div_self (ne_of_gt hpos), one_mul]
  exact eq_of_le_of_sum_le c (fun i => μ (E i)) hlow (by rw [hsumc]; exact hsumE)
    (by rw [hsumc]; exact ENNReal.ofReal_ne_top) i

/-- **model_choice_law.**  The marginal: the model's step picks event `i` with probability `r i / Σ r`. -/
theorem model_choice_law {Ω : Type*} [MeasurableSpace Ω] (μ : Measure Ω) [IsProbabilityMeasure μ] [DecidableLE ℝ]
    {n : Nat} (τ : Fin n → Ω → ℝ) (r : Fin n → ℝ) (hr : ∀ i, 0 < r i)
    (hm : ∀ i, Measurable (τ i)) (hind : iIndepFun τ μ)
    (hlaw : ∀ i, μ.map (τ i) = expMeasure (r i)) (i : Fin n) :
    μ {ω | ∃ d, firstMin (List.ofFn (fun j => τ j ω)) = some (i.val, d)}
      = ENNReal.ofReal (r i / (∑ j, r j)) := by
  have hB := model_step_law μ τ r hr hm hind hlaw i 0 le_rfl
  simp only [mul_zero, neg_zero, Real.exp_zero, mul_one] at hB
  -- a clock is positive almost surely
  have hnull : μ (τ i ⁻¹' Iic 0) = 0 := by
    rw [← Measure.map_apply (hm i) measurableSet_Iic, hlaw i]
    have := isProbabilityMeasure_expMeasure (hr i)
    rw [← ofReal_cdf, cdf_expMeasure_eq (hr i), if_pos le_rfl]; simp
  apply le_antisymm
  · calc μ {ω | ∃ d, firstMin (List.ofFn (fun j => τ j ω)) = some (i.val, d)}
        ≤ μ ({ω | ∃ d, firstMin (List.ofFn (fun j => τ j ω)) = some (i.val, d) ∧ 0 < d} ∪ τ i ⁻¹' Iic 0) := by
          apply measure_mono
          rintro ω ⟨d, hf⟩
          by_cases hd : 0 < d
          · exact Or.inl ⟨d, hf, hd⟩
          · right
            have h0 := (firstMin_spec hf).1
            rw [ofFn_get (fun j => τ j ω) i] at h0
            simp only [Option.some.injEq] at h0
            simp only [mem_preimage, mem_Iic, h0]
            exact not_lt.mp hd
      _ ≤ _ + μ (τ i ⁻¹' Iic 0) := measure_union_le _ _
      _ = _ := by rw [hB, hnull, add_zero]
  · rw [← hB]
    exact measure_mono (fun ω ⟨d, hf, _⟩ => ⟨d, hf⟩)

/-! ### (4) embedded jump chain -/

/-- **stepProbs_sum_to_one.**  The jump probabilities `r_i/Σr` of the embedded chain sum to one whenever some event
can fire. -/
theorem stepProbs_sum_to_one (rates : List Rat) (h : rates.sum ≠ 0) : (stepProbs rates).sum = 1 :=
  stepProbs_sum rates h

/-- entry `i` of `stepProbs` is `r_i / Σ r` — the probability of `first_clock` -/
theorem stepProbs_entry (rates : List Rat) (i : Nat) :
    (stepProbs rates)[i]? = (rates[i]?).map (· / rates.sum) := by
  simp [stepProbs]

/-- **stepProbs_time_unit.**  A change of the unit of time - every rate multiplied by the same `c ≠ 0` - leaves the jump probabilities
of the embedded chain unchanged.  With `exp_scale_mul` (a clock of rate `c·r` is the clock of rate `r` divided by `c`) this is why the
law of the state at a requested time is the same numbers after "rates `* c`, times `/ c`": the relation the harness's unit-of-time
cases rest on (the final-size law is a function of the `stepProbs` alone). -/
theorem stepProbs_time_unit (rates : List Rat) (c : Rat) (hc : c ≠ 0) :
    stepProbs (rates.map (c * ·)) = stepProbs rates := by
  have hs : (rates.map (c * ·)).sum = c * rates.sum := by
    induction rates with
    | nil => simp
    | cons a l ih => simp only [List.map_cons, List.sum_cons, ih]; ring
  simp only [stepProbs, hs, List.map_map]
  apply List.map_congr_left
  intro r _
  simp only [Function.comp]
  exact mul_div_mul_left r _ hc

/-- the hypothesis of `stepProbs_time_unit` is satisfiable and the statement is not vacuous: rates `[1, 3]` in a unit 1024 times
shorter -/
example : stepProbs ([1, 3].map ((1 / 1024 : Rat) * ·)) = [1 / 4, 3 / 4] := by
  rw [stepProbs_time_unit _ _ (by norm_num)]; norm_num [stepProbs]

/-- **finalSizePMF_sums_to_one.**  For every initial condition `(s0, i0)` and all `β ≥ 0`, `γ > 0`, `N > 0` the exact
final-size vector computed by the level recursion has total mass one, one entry per possible size `0..s0`, and
no mass is left in transient states. -/
theorem finalSizePMF_sums_to_one (m : SIR) (hm : GoodSIR m) (s0 i0 : Nat) :
    (finalSizePMF m s0 i0).sum = 1 ∧ (finalSizePMF m s0 i0).length = s0 + 1 ∧ (finalRun m s0 i0).1.sum = 0 := by
  have hinitlen : (initAlive s0).length = (List.replicate (s0 + 1) (0 : Rat)).length := by simp [initAlive]
  have hinitpos : 0 < (initAlive s0).length := by simp [initAlive]
  set M := 2 * s0 + i0 with hM
  -- levels 0 .. M-1, then level M
  have hsplit : finalRun m s0 i0
      = level m M M (runLevels m M (List.range M) (initAlive s0, List.replicate (s0 + 1) 0)) := by
    simp only [finalRun, runLevels, ← hM, List.range_succ, List.foldl_append, List.foldl_cons, List.foldl_nil]
  obtain ⟨hmass, hl1, hl2⟩ := runLevels_mass m hm M (List.range M) (initAlive s0, List.replicate (s0 + 1) 0)
    hinitlen hinitpos
  set va := runLevels m M (List.range M) (initAlive s0, List.replicate (s0 + 1) 0) with hva
  have hlen : va.1.length = va.2.length := by rw [hl1, hl2]; exact hinitlen
  have hpos : 0 < va.1.length := by rw [hl1]; exact hinitpos
  have hlast := level_mass m hm M M va hlen hpos
  have hdead := level_dead m M M va le_rfl hpos
  have htot : (level m M M va).2.sum = 1 := by
    rw [hdead, zero_add, hmass] at hlast
    rw [hlast, initAlive_sum]; simp
  refine ⟨?_, ?_, ?_⟩
  · rw [finalSizePMF, finalSusceptiblePMF, List.sum_reverse, hsplit]; exact htot
  · rw [finalSizePMF, finalSusceptiblePMF, List.length_reverse, hsplit, (level_length m M M va hlen hpos).2, hl2]
    simp
  · rw [hsplit]; exact hdead

/-- **finalSizePMF_nonneg.**  Every entry of the final-size vector is non-negative: with `finalSizePMF_sums_to_one` it is a
probability mass function. -/
theorem finalSizePMF_nonneg (m : SIR) (hm : GoodSIR m) (s0 i0 : Nat) : ∀ p ∈ finalSizePMF m s0 i0, 0 ≤ p := by
  intro p hp
  rw [finalSizePMF, List.mem_reverse] at hp
  exact finalRun_nonneg m hm s0 i0 p hp

/-! ### non-vacuity -/

/-- the hypotheses of the final-size theorem are satisfiable, and the law is not trivial:
`S0 = 3, I0 = 1, β = 2, γ = 1, N = 4` gives `P(Z = 0..3) = 2/5, 3/20, 7/45, 53/180` -/
example : GoodSIR { beta := 2, gamma := 1, pop := 4 } := ⟨by norm_num, by norm_num, by norm_num⟩

example : finalSizePMF { beta := 2, gamma := 1, pop := 4 } 3 1 = [2/5, 3/20, 7/45, 53/180] := by decide +kernel

example : stepProbs [1, 3] = [1/4, 3/4] := by decide +kernel

/-- the model takes the step the theorems talk about: rates `[0, 2, 0, 1/2, 3]` (three clocks drawn: `3/2, 1/4, 1/4`),
the first minimum is clock 1 (value `1/4`, tie with clock 2 resolved to the earlier), which belongs to event 3 -/
example : firstMin [(3/2 : Rat), 1/4, 1/4] = some (1, 1/4) ∧ posIdx [0, 2, 0, 1/2, 3] 1 = 3 := by decide +kernel

example : (firstReaction [[0], [0], [0], [-1], [0]] [0, 2, 0, 1/2, 3] [(some 0, none)] [5] 0 [3/2, 1/4, 1/4]
    == .checked ⟨1/4, 1/4, [4], [0, 0, 0, 1, 0], true⟩) = true := by decide +kernel

/-- the hypotheses of the clock theorems are satisfiable: on the product space `ℝ × ℝ` with the product of two
exponential laws the coordinates are independent exponential clocks -/
example : ∃ (μ : Measure (Fin 2 → ℝ)) (_ : IsProbabilityMeasure μ) (τ : Fin 2 → (Fin 2 → ℝ) → ℝ),
    (∀ i, Measurable (τ i)) ∧ iIndepFun τ μ ∧ (∀ i, μ.map (τ i) = expMeasure (![1, 3] i)) := by
  have hp : ∀ i : Fin 2, IsProbabilityMeasure (expMeasure (![1, 3] i)) := by
    intro i; fin_cases i <;> exact isProbabilityMeasure_expMeasure (by norm_num)
  refine ⟨Measure.pi (fun i => expMeasure (![1, 3] i)), inferInstance, fun i x => x i,
    fun i => measurable_pi_apply i, ?_, ?_⟩
  · exact iIndepFun_pi (X := fun i (x : ℝ) => x) (fun i => aemeasurable_id)
  · intro i
    exact (measurePreserving_eval (μ := fun i => expMeasure (![1, 3] i)) i).map_eq

end Pygom.C05
